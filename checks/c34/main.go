// C34 — tiered policy authorization is correct and race-free.
//
// Drives the real authorizer.NewTierAuthorizer(fake).AuthorizeTierOperation from many goroutines
// at once.  The fake k8s Authorizer answers each of the three checks the code makes (get-tier,
// policy-name, tier-wildcard) with one of {allow, deny, no-opinion} x {nil, error}, after a latency
// (none / short / longer) that enforces (statistically, never relied upon by the oracle) one of the
// 6 completion orders of the three checks, or no delay at all.  For half of the requests the fake
// behaves like the k8s webhook authorizer with respect to contexts: if the context it is handed is
// cancelled before its answer is ready it gives up with (NoOpinion, ctx.Err()).  The caller's own
// context is never cancelled during a call, so on a correct implementation this changes nothing; an
// implementation that cancels outstanding checks whose answer it still needs is caught by the oracle,
// which is computed from the answers the authorizer would give if left to finish.  The binary is built with -race: every DATA RACE block is
// a violation of the "however its concurrent checks interleave" clause (reported by the runner).
//
// Oracle (from the property statement): the request is allowed (nil error) exactly when
// get-tier == allow AND (policy-name == allow OR tier-wildcard == allow); errors returned by the
// underlying authorizer do not change that.
//
// Deliberately not checked:
//   - the text of the Forbidden message (only that a refusal is a k8s "Forbidden" status error);
//   - how often each of the three questions is asked (only that every question asked is one of the
//     three the statement names, addressed to the right tier / policy / verb / namespace);
//   - requests without RequestInfo in the context (contract violation by the caller), nil authorizer.
package main

import (
	"context"
	"errors"
	"fmt"
	"io"
	"sync"
	"sync/atomic"
	"time"

	"github.com/sirupsen/logrus"
	k8serrors "k8s.io/apimachinery/pkg/api/errors"
	"k8s.io/apiserver/pkg/authentication/user"
	k8sauth "k8s.io/apiserver/pkg/authorization/authorizer"
	genericapirequest "k8s.io/apiserver/pkg/endpoints/request"

	"github.com/projectcalico/calico/apiserver/pkg/registry/projectcalico/authorizer"

	"verif/internal/harness"
)

const (
	nAnswers = 6 // 3 decisions x {nil, error}
	nTriples = nAnswers * nAnswers * nAnswers
	nOrders  = 7 // 6 permutations + "no delay"
)

var perms = [6][3]int{{0, 1, 2}, {0, 2, 1}, {1, 0, 2}, {1, 2, 0}, {2, 0, 1}, {2, 1, 0}}

var decisions = [3]k8sauth.Decision{k8sauth.DecisionAllow, k8sauth.DecisionDeny, k8sauth.DecisionNoOpinion}
var decisionNames = [3]string{"allow", "deny", "no-opinion"}

type answer struct {
	dec int  // index into decisions
	err bool // also return a non-nil error
}

func answerOf(i int) answer { return answer{dec: i % 3, err: i >= 3} }

func (a answer) String() string {
	s := decisionNames[a.dec]
	if a.err {
		s += "+err"
	}
	return s
}

// plan is the per-request script, carried in the request context so that the shared fake authorizer
// can find it.  All mutable fields are atomics / guarded: the fake is called from three goroutines.
type plan struct {
	id       int
	tier     string
	resource string // e.g. "networkpolicies"
	ns       string
	name     string // request name ("" for list/create)
	verb     string
	answers  [3]answer
	delay    [3]time.Duration
	// honourCancel: like the k8s webhook authorizer, give up with (NoOpinion, ctx.Err()) when the
	// context handed to Authorize is cancelled before the answer is ready.
	honourCancel bool
	cancelled    atomic.Int32 // checks that ended that way

	calls    [3]atomic.Int32
	seq      atomic.Int32
	finished [3]atomic.Int32 // 1-based completion rank of each check
	mu       sync.Mutex
	bad      []string // questions that are none of the three expected
}

type planKey struct{}

type fakeAuthorizer struct{}

func (fakeAuthorizer) Authorize(ctx context.Context, a k8sauth.Attributes) (k8sauth.Decision, string, error) {
	p, _ := ctx.Value(planKey{}).(*plan)
	if p == nil {
		return k8sauth.DecisionDeny, "no plan", errors.New("verif: request without plan")
	}
	which := -1
	common := a.IsResourceRequest() && a.GetAPIGroup() == "projectcalico.org" && a.GetAPIVersion() == "v3" &&
		a.GetUser() != nil && a.GetUser().GetName() == fmt.Sprintf("user-%d", p.id)
	switch {
	case common && a.GetResource() == "tiers" && a.GetVerb() == "get" && a.GetName() == p.tier && a.GetNamespace() == "":
		which = 0
	case common && a.GetResource() == "tier."+p.resource && a.GetVerb() == p.verb && a.GetNamespace() == p.ns && a.GetName() == p.name:
		which = 1
	case common && a.GetResource() == "tier."+p.resource && a.GetVerb() == p.verb && a.GetNamespace() == p.ns && a.GetName() == p.tier+".*":
		which = 2
	}
	if which < 0 {
		p.mu.Lock()
		p.bad = append(p.bad, fmt.Sprintf("verb=%s ns=%q group=%s version=%s resource=%s name=%q path=%s user=%v",
			a.GetVerb(), a.GetNamespace(), a.GetAPIGroup(), a.GetAPIVersion(), a.GetResource(), a.GetName(), a.GetPath(), a.GetUser()))
		p.mu.Unlock()
		return k8sauth.DecisionDeny, "unexpected", nil
	}
	p.calls[which].Add(1)
	if p.honourCancel {
		if d := p.delay[which]; d > 0 {
			t := time.NewTimer(d)
			select {
			case <-t.C:
			case <-ctx.Done():
				t.Stop()
			}
		}
		if err := ctx.Err(); err != nil {
			p.cancelled.Add(1)
			p.finished[which].CompareAndSwap(0, p.seq.Add(1))
			return k8sauth.DecisionNoOpinion, "", err
		}
	} else if d := p.delay[which]; d > 0 {
		time.Sleep(d) // scheduling perturbation only; no oracle depends on it
	}
	ans := p.answers[which]
	p.finished[which].CompareAndSwap(0, p.seq.Add(1))
	if ans.err {
		return decisions[ans.dec], "scripted reason", fmt.Errorf("scripted authorizer error for check %d", which)
	}
	return decisions[ans.dec], "scripted reason", nil
}

func (f fakeAuthorizer) ConditionsAwareAuthorize(ctx context.Context, a k8sauth.Attributes) k8sauth.ConditionsAwareDecision {
	return k8sauth.ConditionsAwareDecisionFromParts(f.Authorize(ctx, a))
}

func (fakeAuthorizer) EvaluateConditions(ctx context.Context, d k8sauth.ConditionsAwareDecision, data k8sauth.ConditionsData) (k8sauth.Decision, string, error) {
	return k8sauth.DecisionDeny, "", k8sauth.ErrorConditionEvaluationNotSupported
}

var resources = []struct {
	name       string
	namespaced bool
}{
	{"networkpolicies", true},
	{"globalnetworkpolicies", false},
	{"stagednetworkpolicies", true},
	{"stagedglobalnetworkpolicies", false},
}
var verbs = []string{"get", "list", "create", "update", "patch", "delete", "watch", "deletecollection"}
var tiers = []string{"default", "security", "platform", "t1", "a.b"}
var namespaces = []string{"ns1", "kube-system", "prod"}

func buildRequest(c *harness.Case, id int, triple int, order int) (*plan, context.Context, string) {
	p := &plan{id: id}
	p.answers = [3]answer{answerOf(triple % nAnswers), answerOf(triple / nAnswers % nAnswers), answerOf(triple / (nAnswers * nAnswers))}
	if order < 6 {
		// check perms[order][k] completes k-th: latencies none / short / longer, well separated, plus jitter
		lat := [3]time.Duration{0, 120 * time.Microsecond, 500 * time.Microsecond}
		for k, chk := range perms[order] {
			p.delay[chk] = lat[k]
			if k > 0 {
				p.delay[chk] += time.Duration(c.R.Intn(60)) * time.Microsecond
			}
		}
	}
	p.honourCancel = c.R.Intn(2) == 0
	res := resources[c.R.Intn(len(resources))]
	p.resource = res.name
	if res.namespaced {
		p.ns = namespaces[c.R.Intn(len(namespaces))]
	}
	p.tier = tiers[c.R.Intn(len(tiers))]
	p.verb = verbs[c.R.Intn(len(verbs))]
	policyName := fmt.Sprintf("pol-%d", c.R.Intn(5))
	if c.R.Intn(2) == 0 {
		policyName = p.tier + "." + policyName // old-style tier-prefixed name
	}
	path := "/apis/projectcalico.org/v3/"
	if p.ns != "" {
		path += "namespaces/" + p.ns + "/"
	}
	path += p.resource
	switch p.verb {
	case "list", "create", "watch", "deletecollection":
		if p.verb == "watch" && c.R.Intn(2) == 0 {
			p.name = policyName
		}
	default:
		p.name = policyName
	}
	if p.name != "" {
		path += "/" + p.name
	}
	u := &user.DefaultInfo{Name: fmt.Sprintf("user-%d", id), UID: fmt.Sprint(id), Groups: []string{"g1"}}
	ctx := genericapirequest.NewContext()
	ctx = genericapirequest.WithUser(ctx, u)
	if p.ns != "" {
		ctx = genericapirequest.WithNamespace(ctx, p.ns)
	}
	ctx = genericapirequest.WithRequestInfo(ctx, &genericapirequest.RequestInfo{
		IsResourceRequest: true, Path: path, Verb: p.verb, APIGroup: "projectcalico.org", APIVersion: "v3",
		Resource: p.resource, Namespace: p.ns, Name: p.name,
	})
	ctx = context.WithValue(ctx, planKey{}, p)
	return p, ctx, policyName
}

func orderName(o int) string {
	if o == 6 {
		return "no-delay"
	}
	return fmt.Sprintf("finish-order-%d%d%d", perms[o][0], perms[o][1], perms[o][2])
}

const concurrent = 64
const baseCopies = 4 // copies of the enumerated row per delay order => 28 scripted + 36 PRNG requests per case

func run(c *harness.Case) {
	baseTriple := c.Index % nTriples
	c.NonTrivial(baseTriple, c.Index/nTriples)

	ta := authorizer.NewTierAuthorizer(fakeAuthorizer{}) // ONE authorizer shared by all requests, as in the apiserver

	type req struct {
		p      *plan
		ctx    context.Context
		polNm  string
		triple int
		order  int
		err    error
	}
	reqs := make([]*req, concurrent)
	for j := range reqs {
		tr, or := baseTriple, j%nOrders
		if j >= baseCopies*nOrders {
			tr, or = c.R.Intn(nTriples), c.R.Intn(nOrders)
		}
		p, ctx, pn := buildRequest(c, j, tr, or)
		reqs[j] = &req{p: p, ctx: ctx, polNm: pn, triple: tr, order: or}
	}
	start := make(chan struct{})
	var wg sync.WaitGroup
	for _, r := range reqs {
		wg.Add(1)
		go func(r *req) {
			defer wg.Done()
			<-start
			// the caller's context is cancellable but is only cancelled after the call has returned
			ctx, cancel := context.WithCancel(r.ctx)
			r.err = ta.AuthorizeTierOperation(ctx, r.polNm, r.p.tier)
			cancel()
		}(r)
	}
	close(start)
	wg.Wait()

	if c.Index < 3 {
		r := reqs[0]
		c.Sample(map[string]any{"get_tier": r.p.answers[0].String(), "policy_name": r.p.answers[1].String(),
			"tier_wildcard": r.p.answers[2].String(), "delays": orderName(r.order), "verb": r.p.verb, "resource": r.p.resource,
			"tier": r.p.tier, "name": r.p.name, "allowed": r.err == nil, "concurrent_requests": concurrent})
	}
	for _, r := range reqs {
		p := r.p
		want := p.answers[0].dec == 0 && (p.answers[1].dec == 0 || p.answers[2].dec == 0)
		got := r.err == nil
		detail := map[string]any{"get_tier": p.answers[0].String(), "policy_name": p.answers[1].String(),
			"tier_wildcard": p.answers[2].String(), "delays": orderName(r.order), "authorizer_honours_ctx_cancellation": p.honourCancel,
			"verb": p.verb, "resource": p.resource, "namespace": p.ns, "tier": p.tier, "name": p.name, "returned": fmt.Sprint(r.err), "expected_allowed": want}
		c.Count("requests", 1)
		if p.honourCancel {
			c.Count("cancel_honouring_requests", 1)
		}
		if n := p.cancelled.Load(); n > 0 {
			c.Count("checks_cut_short_by_cancellation", int64(n))
			detail["checks_cut_short_by_context_cancellation"] = n
		}
		c.Count("authz_calls", int64(p.calls[0].Load()+p.calls[1].Load()+p.calls[2].Load()))
		if want {
			c.Count("expected_allowed", 1)
		} else {
			c.Count("expected_forbidden", 1)
		}
		if p.answers[0].err || p.answers[1].err || p.answers[2].err {
			c.Count("requests_with_authorizer_error", 1)
		}
		c.Distinct("decision_rows", r.triple)
		c.Distinct("row_x_delay_order", r.triple, r.order)
		c.Distinct("observed_completion_orders", p.finished[0].Load(), p.finished[1].Load(), p.finished[2].Load())
		if len(p.bad) > 0 {
			detail["unexpected_questions"] = p.bad
			c.Violationf("unexpected-authz-question", detail, "the authorizer was asked something that is none of get-tier / policy-name / tier-wildcard: %v", p.bad)
			return
		}
		if got != want {
			key := "allowed-but-must-forbid"
			if want {
				key = "forbidden-but-must-allow"
			}
			c.Violationf(key, detail, "get-tier=%s policy-name=%s tier-wildcard=%s (%s): allowed=%v, expected %v (err=%v)",
				p.answers[0], p.answers[1], p.answers[2], orderName(r.order), got, want, r.err)
			return
		}
		if r.err != nil && !k8serrors.IsForbidden(r.err) {
			c.Violationf("refusal-not-forbidden", detail, "refusal is not a Forbidden status error: %v", r.err)
			return
		}
	}
}

func main() {
	logrus.SetOutput(io.Discard)
	logrus.SetLevel(logrus.PanicLevel)
	harness.Main(harness.Check{
		ID:         "C34",
		Level:      "exploration",
		Exhaustive: true,
		Rule: "case i enumerates decision row i mod 216 of the 6^3 rows of {allow,deny,no-opinion}x{nil,error} for the three checks; " +
			"each case fires 64 concurrent AuthorizeTierOperation calls on ONE shared TierAuthorizer: 4 copies of the enumerated row under each of the 7 delay regimes " +
			"(6 enforced completion orders of the three checks, no delay) and 36 PRNG rows/regimes, " +
			"over 4 resource kinds, 8 verbs, namespaced/global, tier-prefixed and bare policy names; every case is non-trivial (three concurrent checks), distinct by (row, repetition); " +
			"built with -race, every DATA RACE block is a violation",
		Assumptions: []string{
			"the fake Authorizer answers from a per-request script found through the request context; delays are sleeps that no oracle reads; for half of the requests it gives up with (NoOpinion, ctx.Err()) if its context is cancelled first, as the k8s webhook authorizer does",
			"the decision table is enumerated completely; goroutine interleavings are sampled (Go scheduler + enforced completion orders), not enumerated",
			"race freedom is judged by the Go race detector on the executions that happened",
		},
		Cases: func(tier string) int {
			if tier == "thorough" {
				return nTriples * 100
			}
			return nTriples * 2
		},
		Run:    run,
		Floors: map[string]int64{"requests": 2700, "authz_calls": 8000, "expected_allowed": 400, "expected_forbidden": 2000, "requests_with_authorizer_error": 2000, "cancel_honouring_requests": 1000},
	})
}

// C42 — BPF service load balancing state is never inconsistent mid-update.
//
// Drives the real felix/bpf/proxy.Syncer (NewSyncer, Apply) over in-memory maps (the repo's
// felix/bpf/mock.Map wrapped so that every single Update/Delete is reported to the monitor and can be
// made to fail).  One case = one history: a sequence of Apply(DPSyncerState) calls over a mutating
// universe of services (cluster IP, external IPs, load-balancer VIPs with/without source ranges, node
// ports, traffic policy Local, session affinity; TCP/UDP/SCTP; IPv4 or IPv6) and endpoints
// (ready / not ready, local / on remote nodes), with syncer restarts over the maps as they are
// (including maps left behind by a failed Apply and maps seeded with stale or dangling entries) and
// injected map write failures.
//
// Oracles
//
//	I1 (after EVERY single successful write to the frontend or backend map): the set of dangling
//	   references {(frontend, i) : i < count(frontend), backend (id(frontend), i) absent} must not
//	   grow.  ("Must not grow" rather than "is empty" because a history may START from seeded maps
//	   that are already inconsistent; a syncer can only be blamed for a reference it breaks.)
//	   Frontends whose count is the black-hole marker 0xffffffff reference no backends.
//	I2 (after each Apply that returns nil): the frontend map holds exactly the expected keys; each
//	   frontend's (id,count) resolves through the backend map to exactly the ready endpoints it must
//	   list, the first `local` of them being exactly the ready local ones; node-port and load-balancer
//	   frontends carry the external-local flag, and the cluster-IP frontend the internal-local flag,
//	   iff the service's traffic policy is Local; no backend remains that no frontend references.
//
// Deliberately not checked
//   - the order of endpoints inside the local group and inside the remote group (statement: "local
//     ones first" only);
//   - NAT flags of external-IP frontends (the code sets no local flag there; the statement does not
//     say), exclude/maglev flags, affinity timeouts, the affinity map, the Maglev LUT map (services are
//     generated without the Maglev annotation: there is no exported way to set it);
//   - which service IDs are chosen, whether IDs are reused, and whether two services share an ID;
//   - topology-aware routing / traffic distribution (no zone or node hints are generated), the
//     default/kubernetes last-known-good fallback (that name is never generated), NodePort expansion
//     misses (every endpoint has a route, so the background fix-up goroutine never starts);
//   - anything about an Apply that returned an error other than I1.
//   - Internal and external traffic policy can only be set together (K8sSvcWithLocalOnly).
package main

import (
	"context"
	"errors"
	"fmt"
	"io"
	"net"
	"sort"
	"strings"
	"time"

	"github.com/sirupsen/logrus"
	v1 "k8s.io/api/core/v1"
	"k8s.io/apimachinery/pkg/types"
	k8sp "k8s.io/kubernetes/pkg/proxy"

	"github.com/projectcalico/calico/felix/bpf/maps"
	"github.com/projectcalico/calico/felix/bpf/mock"
	"github.com/projectcalico/calico/felix/bpf/nat"
	"github.com/projectcalico/calico/felix/bpf/proxy"
	"github.com/projectcalico/calico/felix/bpf/routes"
	"github.com/projectcalico/calico/felix/ip"

	"verif/internal/harness"
)

// ---------------------------------------------------------------------------------------------
// recording, failure-injecting maps

var errInjected = errors.New("verif: injected map write failure")

type opRec struct {
	Map string `json:"map"`
	Op  string `json:"op"`
	Key string `json:"key"`
	Val string `json:"val,omitempty"`
	Err bool   `json:"failed,omitempty"`
}

type world struct {
	c      *harness.Case
	family int
	fe, be *recMap
	// failure injection: fail the write attempt number failAt (counted over both maps from the start of
	// the current Apply); persistent = every later attempt of this Apply fails too.
	attempts   int
	failAt     int
	persistent bool
	failed     int
	ops        []opRec
	dangling   map[string]bool
	writes     int
	violated   bool
	witness    func() map[string]any
}

type recMap struct {
	*mock.Map
	w    *world
	name string
}

func (m *recMap) inject() bool {
	w := m.w
	n := w.attempts
	w.attempts++
	if w.failAt >= 0 && (n == w.failAt || (w.persistent && n > w.failAt)) {
		w.failed++
		return true
	}
	return false
}

func (m *recMap) Update(k, v []byte) error {
	if m.inject() {
		m.w.ops = append(m.w.ops, opRec{Map: m.name, Op: "update", Key: m.w.keyStr(m.name, k), Val: m.w.valStr(m.name, v), Err: true})
		return errInjected
	}
	if err := m.Map.Update(k, v); err != nil {
		return err
	}
	m.w.afterWrite(opRec{Map: m.name, Op: "update", Key: m.w.keyStr(m.name, k), Val: m.w.valStr(m.name, v)})
	return nil
}

func (m *recMap) UpdateWithFlags(k, v []byte, flags int) error { return m.Update(k, v) }

func (m *recMap) BatchUpdate(ks, vs [][]byte, flags uint64) (int, error) {
	for i := range ks {
		if err := m.Update(ks[i], vs[i]); err != nil {
			return i, err
		}
	}
	return len(ks), nil
}

func (m *recMap) Delete(k []byte) error {
	if m.inject() {
		m.w.ops = append(m.w.ops, opRec{Map: m.name, Op: "delete", Key: m.w.keyStr(m.name, k), Err: true})
		return errInjected
	}
	if err := m.Map.Delete(k); err != nil {
		return err
	}
	m.w.afterWrite(opRec{Map: m.name, Op: "delete", Key: m.w.keyStr(m.name, k)})
	return nil
}

func (m *recMap) DeleteIfExists(k []byte) error { return m.Delete(k) }

var _ maps.MapWithExistsCheck = (*recMap)(nil)

func (w *world) feKey(b []byte) nat.FrontendKeyInterface {
	if w.family == 6 {
		return nat.FrontendKeyV6FromBytes(b)
	}
	return nat.FrontendKeyFromBytes(b)
}

func (w *world) beVal(b []byte) nat.BackendValueInterface {
	if w.family == 6 {
		return nat.BackendValueV6FromBytes(b)
	}
	return nat.BackendValueFromBytes(b)
}

func (w *world) keyStr(name string, k []byte) string {
	if name == "frontend" {
		return w.feKey(k).String()
	}
	return nat.BackendKeyFromBytes(k).String()
}

func (w *world) valStr(name string, v []byte) string {
	if name == "frontend" {
		return nat.FrontendValueFromBytes(v).String()
	}
	return w.beVal(v).String()
}

const maxCountWalk = 4096

// danglingNow computes {(frontend key, i)} whose backend is missing.
func (w *world) danglingNow() map[string]bool {
	out := map[string]bool{}
	for ks, vs := range w.fe.Contents {
		v := nat.FrontendValueFromBytes([]byte(vs))
		cnt := v.Count()
		if cnt == nat.BlackHoleCount {
			continue
		}
		if cnt > maxCountWalk {
			cnt = maxCountWalk
		}
		for i := uint32(0); i < cnt; i++ {
			bk := nat.NewNATBackendKey(v.ID(), i)
			if _, ok := w.be.Contents[string(bk.AsBytes())]; !ok {
				out[fmt.Sprintf("%s|%d", ks, i)] = true
			}
		}
	}
	return out
}

func (w *world) afterWrite(op opRec) {
	w.ops = append(w.ops, op)
	w.writes++
	w.c.Count("writes_observed", 1)
	w.c.Count("writes_"+op.Map+"_"+op.Op, 1)
	now := w.danglingNow()
	if !w.violated {
		for d := range now {
			if !w.dangling[d] {
				w.violated = true
				i := strings.LastIndex(d, "|")
				fk := w.feKey([]byte(d[:i]))
				fv := nat.FrontendValueFromBytes([]byte(w.fe.Contents[d[:i]]))
				det := w.witness()
				det["offending_write"] = op
				det["frontend"] = fk.String()
				det["frontend_value"] = fv.String()
				det["missing_backend_ordinal"] = d[i+1:]
				det["ops_of_this_apply"] = lastOps(w.ops, 120)
				w.c.Violationf("frontend-refers-to-missing-backend", det,
					"after %s of %s in the %s map, frontend %s = %s refers to backend ordinal %s which does not exist",
					op.Op, op.Key, op.Map, fk, fv, d[i+1:])
				break
			}
		}
	}
	w.dangling = now
}

func lastOps(ops []opRec, n int) []opRec {
	if len(ops) > n {
		return ops[len(ops)-n:]
	}
	return ops
}

// ---------------------------------------------------------------------------------------------
// universe

type epSpec struct {
	IP    string `json:"ip"`
	Port  int    `json:"port"`
	Ready bool   `json:"ready"`
	Node  int    `json:"node"` // 0 = this node (local)
}

type svcSpec struct {
	Name      string   `json:"name"`
	Proto     string   `json:"proto"`
	ClusterIP string   `json:"cluster_ip"`
	Port      int      `json:"port"`
	NodePort  int      `json:"node_port,omitempty"`
	ExtIPs    []string `json:"ext_ips,omitempty"`
	LBIPs     []string `json:"lb_ips,omitempty"`
	SrcRanges []string `json:"src_ranges,omitempty"`
	LocalOnly bool     `json:"local_only,omitempty"`
	Sticky    int      `json:"sticky,omitempty"`
	Eps       []epSpec `json:"eps"`
}

type universe struct {
	family int
	svcs   map[string]*svcSpec
	nextIP int
}

func (u *universe) addr(kind string, a, b int) string {
	if u.family == 6 {
		switch kind {
		case "cluster":
			return fmt.Sprintf("fd00:96::%x", a)
		case "ext":
			return fmt.Sprintf("fd00:35::%x:%x", a, b)
		case "lb":
			return fmt.Sprintf("fd00:36::%x:%x", a, b)
		case "node":
			return fmt.Sprintf("fd00:c0::%x", a+1)
		case "pod":
			return fmt.Sprintf("fd00:65:%x::%x", a, b)
		}
	}
	switch kind {
	case "cluster":
		return fmt.Sprintf("10.96.0.%d", a)
	case "ext":
		return fmt.Sprintf("35.0.%d.%d", a, b)
	case "lb":
		return fmt.Sprintf("36.0.%d.%d", a, b)
	case "node":
		return fmt.Sprintf("192.168.0.%d", a+1)
	case "pod":
		return fmt.Sprintf("10.65.%d.%d", a, b)
	}
	panic("addr kind")
}

func (u *universe) srcRange(i int) string {
	if u.family == 6 {
		return fmt.Sprintf("2001:db8:%x::/48", i+1)
	}
	return fmt.Sprintf("172.%d.0.0/16", 16+i)
}

const nNodes = 4 // node 0 is local

var protos = []string{"TCP", "UDP", "SCTP"}

func (u *universe) names() []string {
	var n []string
	for k := range u.svcs {
		n = append(n, k)
	}
	sort.Strings(n)
	return n
}

func (u *universe) newSvc(c *harness.Case, idx int) *svcSpec {
	r := c.R
	s := &svcSpec{Name: fmt.Sprintf("svc%d", idx), Proto: protos[r.Intn(3)], ClusterIP: u.addr("cluster", idx+1, 0), Port: 80 + r.Intn(3)*1000 + idx}
	u.randomizeAttrs(c, s, idx)
	n := r.Intn(6)
	for i := 0; i < n; i++ {
		u.addEp(c, s)
	}
	return s
}

func (u *universe) randomizeAttrs(c *harness.Case, s *svcSpec, idx int) {
	r := c.R
	s.NodePort, s.ExtIPs, s.LBIPs, s.SrcRanges, s.LocalOnly, s.Sticky = 0, nil, nil, nil, false, 0
	if r.Intn(2) == 0 {
		s.NodePort = 30000 + idx*10 + r.Intn(3)
	}
	for i, n := 0, r.Intn(3); i < n; i++ {
		s.ExtIPs = append(s.ExtIPs, u.addr("ext", idx+1, i+1))
	}
	for i, n := 0, r.Intn(3); i < n; i++ {
		s.LBIPs = append(s.LBIPs, u.addr("lb", idx+1, i+1))
	}
	if (len(s.LBIPs) > 0 || len(s.ExtIPs) > 0) && r.Intn(3) == 0 {
		for i, n := 0, 1+r.Intn(2); i < n; i++ {
			s.SrcRanges = append(s.SrcRanges, u.srcRange(r.Intn(4)))
		}
		s.SrcRanges = dedup(s.SrcRanges)
	}
	s.LocalOnly = r.Intn(3) == 0
	if r.Intn(4) == 0 {
		s.Sticky = 60 * (1 + r.Intn(3))
	}
}

func dedup(in []string) []string {
	seen := map[string]bool{}
	var out []string
	for _, x := range in {
		if !seen[x] {
			seen[x] = true
			out = append(out, x)
		}
	}
	return out
}

func (u *universe) addEp(c *harness.Case, s *svcSpec) {
	r := c.R
	node := 0
	if r.Intn(2) == 0 {
		node = 1 + r.Intn(nNodes-1)
	}
	u.nextIP++
	s.Eps = append(s.Eps, epSpec{IP: u.addr("pod", node, 1+u.nextIP%250), Port: 8000 + r.Intn(4), Ready: r.Intn(4) != 0, Node: node})
}

func (u *universe) mutate(c *harness.Case, maxSvcs int) {
	r := c.R
	for k, n := 0, 1+r.Intn(4); k < n; k++ {
		names := u.names()
		switch op := r.Intn(10); {
		case op == 0 || len(names) == 0: // add a service
			for i := 0; i < maxSvcs; i++ {
				nm := fmt.Sprintf("svc%d", i)
				if _, ok := u.svcs[nm]; !ok {
					u.svcs[nm] = u.newSvc(c, i)
					break
				}
			}
		case op == 1: // remove a service
			delete(u.svcs, names[r.Intn(len(names))])
		case op == 2: // change service attributes (gives it a new identity as far as the syncer is concerned)
			s := u.svcs[names[r.Intn(len(names))]]
			var idx int
			fmt.Sscanf(s.Name, "svc%d", &idx)
			u.randomizeAttrs(c, s, idx)
		case op <= 4: // add endpoint
			u.addEp(c, u.svcs[names[r.Intn(len(names))]])
		case op <= 6: // remove endpoint
			s := u.svcs[names[r.Intn(len(names))]]
			if len(s.Eps) > 0 {
				i := r.Intn(len(s.Eps))
				s.Eps = append(s.Eps[:i:i], s.Eps[i+1:]...)
			}
		case op == 7: // flip readiness
			s := u.svcs[names[r.Intn(len(names))]]
			if len(s.Eps) > 0 {
				i := r.Intn(len(s.Eps))
				s.Eps[i].Ready = !s.Eps[i].Ready
			}
		case op == 8: // reorder endpoints
			s := u.svcs[names[r.Intn(len(names))]]
			r.Shuffle(len(s.Eps), func(i, j int) { s.Eps[i], s.Eps[j] = s.Eps[j], s.Eps[i] })
		default: // all endpoints of a service go away / become unready
			s := u.svcs[names[r.Intn(len(names))]]
			if r.Intn(2) == 0 {
				s.Eps = nil
			} else {
				for i := range s.Eps {
					s.Eps[i].Ready = false
				}
			}
		}
	}
}

func v1proto(p string) v1.Protocol { return v1.Protocol(p) }

func protoNum(p string) uint8 {
	switch p {
	case "TCP":
		return 6
	case "UDP":
		return 17
	}
	return 132
}

func (u *universe) state() proxy.DPSyncerState {
	st := proxy.DPSyncerState{SvcMap: k8sp.ServicePortMap{}, EpsMap: k8sp.EndpointsMap{}}
	for _, nm := range u.names() {
		s := u.svcs[nm]
		var opts []proxy.K8sServicePortOption
		if s.NodePort != 0 {
			opts = append(opts, proxy.K8sSvcWithNodePort(s.NodePort))
		}
		if len(s.ExtIPs) > 0 {
			opts = append(opts, proxy.K8sSvcWithExternalIPs(parseIPs(s.ExtIPs)))
		}
		if len(s.LBIPs) > 0 {
			opts = append(opts, proxy.K8sSvcWithLoadBalancerIPs(parseIPs(s.LBIPs)))
		}
		if len(s.SrcRanges) > 0 {
			var nets []*net.IPNet
			for _, c := range s.SrcRanges {
				_, n, err := net.ParseCIDR(c)
				if err != nil {
					panic(err)
				}
				nets = append(nets, n)
			}
			opts = append(opts, proxy.K8sSvcWithLBSourceRangeIPs(nets))
		}
		if s.LocalOnly {
			opts = append(opts, proxy.K8sSvcWithLocalOnly())
		}
		if s.Sticky != 0 {
			opts = append(opts, proxy.K8sSvcWithStickyClientIP(s.Sticky))
		}
		spn := k8sp.ServicePortName{NamespacedName: types.NamespacedName{Namespace: "verif", Name: s.Name}, Port: "p", Protocol: v1proto(s.Proto)}
		st.SvcMap[spn] = proxy.NewK8sServicePort(net.ParseIP(s.ClusterIP), s.Port, v1proto(s.Proto), opts...)
		if len(s.Eps) > 0 {
			var eps []k8sp.Endpoint
			for _, e := range s.Eps {
				eps = append(eps, proxy.NewEndpointInfo(e.IP, e.Port,
					proxy.EndpointInfoOptIsLocal(e.Node == 0), proxy.EndpointInfoOptIsReady(e.Ready), proxy.EndpointInfoOptIsServing(e.Ready)))
			}
			st.EpsMap[spn] = eps
		}
	}
	return st
}

func parseIPs(ss []string) []net.IP {
	var out []net.IP
	for _, s := range ss {
		out = append(out, net.ParseIP(s))
	}
	return out
}

// ---------------------------------------------------------------------------------------------
// expected final state

type expFE struct {
	Svc       string
	Kind      string
	Eps       []epSpec // ready endpoints this frontend must list
	BlackHole bool
	JudgeExt  bool // external-local flag judged (node port, load balancer)
	JudgeInt  bool // internal-local flag judged (cluster IP)
	LocalOnly bool
}

func (w *world) mkKey(addr string, port int, proto string, src string) string {
	a := net.ParseIP(addr)
	var k nat.FrontendKeyInterface
	if src == "" {
		if w.family == 6 {
			k = nat.NewNATKeyV6Intf(a, uint16(port), protoNum(proto))
		} else {
			k = nat.NewNATKeyIntf(a, uint16(port), protoNum(proto))
		}
	} else {
		c := ip.MustParseCIDROrIP(src)
		if w.family == 6 {
			k = nat.NewNATKeyV6SrcIntf(a, uint16(port), protoNum(proto), c)
		} else {
			k = nat.NewNATKeySrcIntf(a, uint16(port), protoNum(proto), c)
		}
	}
	return string(k.AsBytes())
}

func (w *world) expected(u *universe, nodePortIPs []string) map[string]expFE {
	exp := map[string]expFE{}
	podNP := "255.255.255.255"
	if w.family == 6 {
		podNP = "ffff:ffff:ffff:ffff:ffff:ffff:ffff:ffff"
	}
	for _, nm := range u.names() {
		s := u.svcs[nm]
		var ready []epSpec
		for _, e := range s.Eps {
			if e.Ready {
				ready = append(ready, e)
			}
		}
		exp[w.mkKey(s.ClusterIP, s.Port, s.Proto, "")] = expFE{Svc: nm, Kind: "cluster-ip", Eps: ready, JudgeInt: true, LocalOnly: s.LocalOnly}
		derived := func(kind string, addrs []string, judgeExt bool) {
			for _, a := range addrs {
				if len(s.SrcRanges) > 0 {
					for _, c := range s.SrcRanges {
						exp[w.mkKey(a, s.Port, s.Proto, c)] = expFE{Svc: nm, Kind: kind + "-src-range", Eps: ready, JudgeExt: judgeExt, LocalOnly: s.LocalOnly}
					}
					exp[w.mkKey(a, s.Port, s.Proto, "")] = expFE{Svc: nm, Kind: kind + "-blackhole", BlackHole: true}
				} else {
					exp[w.mkKey(a, s.Port, s.Proto, "")] = expFE{Svc: nm, Kind: kind, Eps: ready, JudgeExt: judgeExt, LocalOnly: s.LocalOnly}
				}
			}
		}
		derived("load-balancer", s.LBIPs, true)
		derived("external-ip", s.ExtIPs, false)
		if s.NodePort != 0 {
			for _, np := range nodePortIPs {
				if s.LocalOnly && np == podNP {
					continue
				}
				exp[w.mkKey(np, s.NodePort, s.Proto, "")] = expFE{Svc: nm, Kind: "node-port", Eps: ready, JudgeExt: true, LocalOnly: s.LocalOnly}
			}
			if s.LocalOnly {
				perNode := map[int][]epSpec{}
				seen := map[int]bool{}
				for _, e := range s.Eps {
					if e.Node == 0 {
						continue
					}
					seen[e.Node] = true
					if e.Ready {
						perNode[e.Node] = append(perNode[e.Node], e)
					}
				}
				for n := range seen {
					exp[w.mkKey(u.addr("node", n, 0), s.NodePort, s.Proto, "")] = expFE{Svc: nm, Kind: "node-port-remote", Eps: perNode[n]}
				}
			}
		}
	}
	return exp
}

func epKey(ipStr string, port int) string {
	return net.ParseIP(ipStr).String() + "#" + fmt.Sprint(port)
}

func multiset(eps []epSpec, local *bool) []string {
	var out []string
	for _, e := range eps {
		if local != nil && (e.Node == 0) != *local {
			continue
		}
		out = append(out, epKey(e.IP, e.Port))
	}
	sort.Strings(out)
	return out
}

func (w *world) checkFinal(u *universe, nodePortIPs []string, det func() map[string]any) {
	c := w.c
	exp := w.expected(u, nodePortIPs)
	c.Count("final_states_checked", 1)
	referenced := map[string]bool{}
	for ks, vs := range w.fe.Contents {
		fk := w.feKey([]byte(ks))
		fv := nat.FrontendValueFromBytes([]byte(vs))
		e, ok := exp[ks]
		if !ok {
			d := det()
			d["frontend"], d["value"] = fk.String(), fv.String()
			c.Violationf("stale-frontend-after-sync", d, "after a successful Apply frontend %s = %s remains but no service in the applied state produces it", fk, fv)
			return
		}
		c.Count("frontends_checked", 1)
		c.Count("frontends_"+e.Kind, 1)
		if e.BlackHole {
			if fv.Count() != nat.BlackHoleCount {
				d := det()
				d["frontend"], d["value"] = fk.String(), fv.String()
				c.Violationf("blackhole-frontend-wrong", d, "frontend %s of %s with source ranges must be the drop marker but is %s", fk, e.Svc, fv)
				return
			}
			continue
		}
		if fv.Count() == nat.BlackHoleCount || fv.Count() > maxCountWalk {
			d := det()
			d["frontend"], d["value"] = fk.String(), fv.String()
			c.Violationf("frontend-count-wrong", d, "frontend %s (%s of %s) has count %d, expected %d ready endpoints", fk, e.Kind, e.Svc, fv.Count(), len(e.Eps))
			return
		}
		var got []string
		var gotLocal []string
		for i := uint32(0); i < fv.Count(); i++ {
			bk := nat.NewNATBackendKey(fv.ID(), i)
			referenced[string(bk.AsBytes())] = true
			bv, ok := w.be.Contents[string(bk.AsBytes())]
			if !ok {
				d := det()
				d["frontend"], d["value"] = fk.String(), fv.String()
				c.Violationf("frontend-refers-to-missing-backend-after-sync", d, "after a successful Apply frontend %s = %s: backend %s does not exist", fk, fv, bk)
				return
			}
			b := w.beVal([]byte(bv))
			k := epKey(b.Addr().String(), int(b.Port()))
			got = append(got, k)
			if i < fv.LocalCount() {
				gotLocal = append(gotLocal, k)
			}
		}
		sort.Strings(got)
		sort.Strings(gotLocal)
		want := multiset(e.Eps, nil)
		yes := true
		wantLocal := multiset(e.Eps, &yes)
		if e.Kind == "node-port-remote" {
			wantLocal = nil
		}
		if strings.Join(got, ",") != strings.Join(want, ",") {
			d := det()
			d["frontend"], d["value"], d["listed"], d["ready_endpoints"] = fk.String(), fv.String(), got, want
			c.Violationf("frontend-lists-wrong-endpoints", d, "frontend %s (%s of %s) lists %v, the ready endpoints are %v", fk, e.Kind, e.Svc, got, want)
			return
		}
		if int(fv.LocalCount()) != len(wantLocal) || strings.Join(gotLocal, ",") != strings.Join(wantLocal, ",") {
			d := det()
			d["frontend"], d["value"], d["first_local"], d["ready_local_endpoints"] = fk.String(), fv.String(), gotLocal, wantLocal
			c.Violationf("local-endpoints-not-first", d, "frontend %s (%s of %s): local=%d and the first %d backends are %v, the ready local endpoints are %v",
				fk, e.Kind, e.Svc, fv.LocalCount(), fv.LocalCount(), gotLocal, wantLocal)
			return
		}
		if e.JudgeExt && (fv.Flags()&nat.NATFlgExternalLocal != 0) != e.LocalOnly {
			d := det()
			d["frontend"], d["value"] = fk.String(), fv.String()
			c.Violationf("external-local-flag-wrong", d, "frontend %s (%s of %s): external-local flag is %v, traffic policy Local is %v", fk, e.Kind, e.Svc, !e.LocalOnly, e.LocalOnly)
			return
		}
		if e.JudgeInt && (fv.Flags()&nat.NATFlgInternalLocal != 0) != e.LocalOnly {
			d := det()
			d["frontend"], d["value"] = fk.String(), fv.String()
			c.Violationf("internal-local-flag-wrong", d, "frontend %s (%s of %s): internal-local flag is %v, traffic policy Local is %v", fk, e.Kind, e.Svc, !e.LocalOnly, e.LocalOnly)
			return
		}
		c.Count("backends_resolved", int64(len(got)))
	}
	for ks, e := range exp {
		if _, ok := w.fe.Contents[ks]; !ok {
			d := det()
			d["frontend"], d["kind"], d["service"] = w.feKey([]byte(ks)).String(), e.Kind, e.Svc
			c.Violationf("missing-frontend-after-sync", d, "after a successful Apply the %s frontend %s of %s is missing", e.Kind, w.feKey([]byte(ks)), e.Svc)
			return
		}
	}
	for bk, bv := range w.be.Contents {
		if !referenced[bk] {
			d := det()
			d["backend"], d["value"] = nat.BackendKeyFromBytes([]byte(bk)).String(), w.beVal([]byte(bv)).String()
			c.Violationf("stale-backend-after-sync", d, "after a successful Apply backend %s = %s is referenced by no frontend", nat.BackendKeyFromBytes([]byte(bk)), w.beVal([]byte(bv)))
			return
		}
	}
}

// ---------------------------------------------------------------------------------------------
// routes

type fakeRoutes struct {
	family int
	u      *universe
}

func (r *fakeRoutes) Lookup(a ip.Addr) (routes.ValueInterface, bool) {
	s := a.String()
	for n := 0; n < nNodes; n++ {
		var pfx string
		if r.family == 6 {
			pfx = fmt.Sprintf("fd00:65:%x::", n)
			if n == 0 {
				pfx = "fd00:65:0::"
			}
		} else {
			pfx = fmt.Sprintf("10.65.%d.", n)
		}
		match := strings.HasPrefix(s, pfx)
		if r.family == 6 {
			// canonical text of fd00:65:0::x is fd00:65::x
			_, nw, _ := net.ParseCIDR(fmt.Sprintf("fd00:65:%x::/64", n))
			match = nw.Contains(a.AsNetIP())
		}
		if !match {
			continue
		}
		if n == 0 {
			if r.family == 6 {
				return routes.NewValueV6Intf(routes.FlagWorkload | routes.FlagLocal), true
			}
			return routes.NewValueIntf(routes.FlagWorkload | routes.FlagLocal), true
		}
		nh := ip.FromString(r.u.addr("node", n, 0))
		if r.family == 6 {
			return routes.NewValueV6IntfWithNextHop(routes.FlagWorkload, nh), true
		}
		return routes.NewValueIntfWithNextHop(routes.FlagWorkload, nh), true
	}
	return nil, false
}

func (r *fakeRoutes) WaitAfter(ctx context.Context, fn func(lookup func(addr ip.Addr) (routes.ValueInterface, bool)) bool) {
	fn(r.Lookup)
}

// ---------------------------------------------------------------------------------------------
// one history

func run(c *harness.Case) {
	r := c.R
	family := 4
	if r.Intn(4) == 0 {
		family = 6
	}
	w := &world{c: c, family: family, failAt: -1}
	feP, beP, mgP, affP := nat.FrontendMapParameters, nat.BackendMapParameters, nat.MaglevMapParameters, nat.AffinityMapParameters
	if family == 6 {
		feP, beP, mgP, affP = nat.FrontendMapV6Parameters, nat.BackendMapV6Parameters, nat.MaglevMapV6Parameters, nat.AffinityMapV6Parameters
	}
	w.fe = &recMap{Map: mock.NewMockMap(feP), w: w, name: "frontend"}
	w.be = &recMap{Map: mock.NewMockMap(beP), w: w, name: "backend"}
	mg := mock.NewMockMap(mgP)
	aff := mock.NewMockMap(affP)

	u := &universe{family: family, svcs: map[string]*svcSpec{}}
	maxSvcs := 3 + r.Intn(4)
	for i, n := 0, r.Intn(maxSvcs+1); i < n; i++ {
		u.svcs[fmt.Sprintf("svc%d", i)] = u.newSvc(c, i)
	}
	nodePortIPs := []string{u.addr("node", 0, 0)}
	if r.Intn(2) == 0 {
		if family == 6 {
			nodePortIPs = append(nodePortIPs, "ffff:ffff:ffff:ffff:ffff:ffff:ffff:ffff")
		} else {
			nodePortIPs = append(nodePortIPs, "255.255.255.255")
		}
	}
	if r.Intn(4) == 0 {
		nodePortIPs = append(nodePortIPs, u.addr("node", 40, 0)) // a second address of this node
	}
	rt := &fakeRoutes{family: family, u: u}
	udpAff := time.Duration(0)
	if r.Intn(3) == 0 {
		udpAff = 60 * time.Second
	}

	var history []map[string]any
	step := 0
	w.witness = func() map[string]any {
		return map[string]any{"family": family, "node_port_ips": nodePortIPs, "history": history, "step": step}
	}

	// Optionally seed the maps with leftovers of "another life": stale frontends with their backends, and
	// (sometimes) a frontend whose backends are partly missing.
	seeded := "none"
	if k := r.Intn(4); k >= 2 {
		seeded = "stale"
		n := 1 + r.Intn(3)
		for i := 0; i < n; i++ {
			id := uint32(r.Intn(6))
			cnt := 1 + r.Intn(3)
			fk := w.mkKey(u.addr("cluster", 100+i, 0), 7000+i, "TCP", "")
			w.fe.Contents[fk] = string(nat.NewNATValue(id, uint32(cnt), 0, 0).AsBytes())
			have := cnt
			if k == 3 && i == 0 {
				have = cnt - 1
				seeded = "stale+dangling"
			}
			for j := 0; j < have; j++ {
				var bv nat.BackendValueInterface
				if family == 6 {
					bv = nat.NewNATBackendValueV6Intf(net.ParseIP(u.addr("pod", 1, 200+j)), 9000)
				} else {
					bv = nat.NewNATBackendValueIntf(net.ParseIP(u.addr("pod", 1, 200+j)), 9000)
				}
				w.be.Contents[string(nat.NewNATBackendKey(id, uint32(j)).AsBytes())] = string(bv.AsBytes())
			}
		}
	}
	w.dangling = w.danglingNow()
	c.Distinct("seeding", seeded)

	newSyncer := func() *proxy.Syncer {
		s, err := proxy.NewSyncer(family, parseIPs(nodePortIPs), w.fe, w.be, mg, aff, rt, nil, 31, udpAff)
		if err != nil {
			panic(err)
		}
		return s
	}
	s := newSyncer()
	defer func() { s.Stop() }()

	applies := c.Pick(10, 14)
	nontrivial := false
	var sig []string
	for step = 0; step < applies && !c.Failed(); step++ {
		u.mutate(c, maxSvcs)
		restart := step > 0 && r.Intn(6) == 0
		if restart {
			s.Stop()
			s = newSyncer()
			c.Count("restarts", 1)
			if len(w.fe.Contents) > 0 {
				c.Count("restarts_over_populated_maps", 1)
			}
		}
		inject := r.Intn(4) == 0
		w.attempts, w.failAt, w.persistent, w.failed = 0, -1, false, 0
		if inject {
			w.failAt = r.Intn(12)
			w.persistent = r.Intn(2) == 0
		}
		w.ops = nil
		snap := snapshot(u)
		history = append(history, map[string]any{"step": step, "restart": restart, "fail_write_attempt": w.failAt, "persistent": w.persistent, "services": snap})
		if len(history) > 6 {
			history = history[len(history)-6:]
		}
		st := u.state()
		before := w.writes
		err := s.Apply(st)
		c.Count("applies", 1)
		if w.failed > 0 {
			c.Count("injected_failures_hit", int64(w.failed))
			c.Count("applies_with_failure", 1)
		}
		if c.Failed() {
			return
		}
		sig = append(sig, fmt.Sprintf("%d:%v:%v:%d", len(u.svcs), restart, err != nil, w.writes-before))
		if err != nil {
			c.Count("applies_failed", 1)
			if w.failed == 0 {
				c.Count("applies_failed_without_injection", 1)
			}
			// retry without failures, possibly after a restart (a crash)
			w.failAt = -1
			if r.Intn(3) == 0 {
				s.Stop()
				s = newSyncer()
				c.Count("restarts", 1)
				c.Count("restarts_after_failed_apply", 1)
			}
			w.ops = nil
			err = s.Apply(st)
			c.Count("applies", 1)
			if c.Failed() {
				return
			}
			if err != nil {
				c.Count("retries_failed", 1)
				continue
			}
		}
		c.Count("applies_succeeded", 1)
		if w.writes-before > 0 && len(u.svcs) > 0 {
			nontrivial = true
		}
		w.checkFinal(u, nodePortIPs, func() map[string]any {
			d := w.witness()
			d["ops_of_this_apply"] = lastOps(w.ops, 120)
			return d
		})
	}
	if nontrivial {
		c.NonTrivial(family, seeded, strings.Join(sig, "|"))
	}
	c.Distinct("histories", strings.Join(sig, "|"))
	if c.Index < 3 {
		c.Sample(map[string]any{"family": family, "seeded": seeded, "applies": sig, "last_state": snapshot(u), "last_ops": lastOps(w.ops, 12)})
	}
}

func snapshot(u *universe) []svcSpec {
	var out []svcSpec
	for _, nm := range u.names() {
		s := *u.svcs[nm]
		s.Eps = append([]epSpec(nil), s.Eps...)
		out = append(out, s)
	}
	return out
}

func main() {
	logrus.SetOutput(io.Discard)
	logrus.SetLevel(logrus.PanicLevel)
	harness.Main(harness.Check{
		ID:    "C42",
		Level: "exploration",
		Rule: "one case = one history of 10 (thorough 14) Apply calls of the real proxy.Syncer over recording in-memory maps, over a PRNG-mutated universe of <=6 services " +
			"(cluster IP, 0-2 external IPs, 0-2 LB VIPs, optional source ranges, node port, policy Local, affinity; TCP/UDP/SCTP; IPv4 3/4, IPv6 1/4) with 0-8 endpoints each " +
			"(ready/unready, local/3 remote nodes); 1/6 of steps restart the syncer over the maps as they are, 1/4 inject a write failure (one-shot or persistent) at a PRNG write index, " +
			"failed applies are retried (1/3 after a restart), half of the histories start from seeded stale (1/4: dangling) map contents; non-trivial = at least one successful Apply that wrote to the maps; " +
			"distinct by (family, seeding, per-apply signature)",
		Assumptions: []string{
			"maps are the repo's felix/bpf/mock.Map (hash-map semantics, no LPM lookup, no capacity limit); element-wise Update/Delete as the TypedMap fallback issues them (mock maps offer no raw batch ops)",
			"the order in which the syncer's delta tracker emits writes follows Go map iteration and is not controlled by the seed; the recorded op list is part of every witness",
			"service IDs, endpoint order within the local/remote groups, external-IP NAT flags, Maglev, affinity and topology filtering are not judged",
			"CGO off (libbpf stubs), no race detector; the syncer is single-goroutine in these histories (no NodePort expansion misses)",
		},
		Cases: func(tier string) int {
			if tier == "thorough" {
				return 30000
			}
			return 3000
		},
		Run: run,
		Floors: map[string]int64{"writes_observed": 30000, "applies_succeeded": 3000, "final_states_checked": 3000, "frontends_checked": 30000,
			"injected_failures_hit": 1000, "restarts_over_populated_maps": 400, "backends_resolved": 30000},
	})
}

// C17 — route sync converges for Felix's routes and leaves other routes alone.
//
// Real code driven: felix/routetable.RouteTable (routetable.New with WithNetlinkHandleShim, WithTimeShim,
// WithConntrackShim, WithRouteCleanupGracePeriod, WithStaticARPEntries) with the real ownership policies
// (ownershippol.NewMainTable for the main table, ExclusiveOwnershipPolicy for a dedicated table), against
// verif/internal/fakenl (a fake rtnetlink: links with admin/oper state, a FIB keyed like the kernel's,
// route flush on link down/delete, wildcard semantics of RTM_DELROUTE, EINTR on dumps).
//
// The harness plays the managers (SetRoutes / RouteUpdate / RouteRemove over several route classes with
// conflicting CIDRs), the interface monitor (OnIfaceStateChanged, possibly late), the main loop
// (QueueResync, Apply), other software (foreign and stale routes in the starting table and out of band)
// and process restarts.  Each scenario runs fault-free, then once per netlink call of that run with that
// call failing, then with bursts and random multi-faults.
//
// Oracles:
//
//	S  every applied RTM_DELROUTE / RTM_NEWROUTE issued by Felix: it is in Felix's table and family; a
//	   deleted or replaced route was Felix's by the reference ownership rule; a programmed key is one some
//	   manager asked for.
//	D  after an Apply that returned nil, when every interface event has been delivered and there has been
//	   neither an out-of-band route edit nor an injected fault since the last completed full resync: every
//	   desired key that has a usable candidate (interface present and oper-up, or no interface) is in the
//	   kernel with the target of a candidate of the best (lowest) route class; foreign routes equal the
//	   baseline.
//	C  at checkpoints (events delivered, faults off, QueueResync, virtual time past the grace period,
//	   Apply until nil): D, and every kernel route that is Felix's by the reference ownership rule but
//	   whose key has no usable candidate is gone; Apply must reach nil within 4 attempts.
//
// Reference ownership rule (re-implemented here from the documentation of ownershippol): exclusive
// protocols are Felix's everywhere; no-interface special routes only with an exclusive protocol; routes
// on workload interfaces when RemoveExternalRoutes or when the protocol is one Felix uses; BIRD's routes
// on tunl0 when Felix programs the IPIP routes; every route on vxlan.calico / bpfin.cali; fe80::/64 is the
// kernel's.  Dedicated table: every route on the table's own interfaces and every no-interface route.
//
// Deliberately not checked: which candidate wins inside one route class (the code prefers the higher
// ifindex; the statement only fixes the class order); foreign routes that use exactly the key of a desired
// route (Felix replaces them by design; not generated); static ARP entries; conntrack cleanup calls;
// the exact number of netlink calls; multipath routes.
package main

import (
	"fmt"
	"io"
	"math/rand"
	"net"
	"sort"
	"strings"
	"sync"
	"time"

	"github.com/sirupsen/logrus"
	"github.com/vishvananda/netlink"
	"golang.org/x/sys/unix"

	"github.com/projectcalico/calico/felix/environment"
	"github.com/projectcalico/calico/felix/ifacemonitor"
	"github.com/projectcalico/calico/felix/ip"
	"github.com/projectcalico/calico/felix/routetable"
	"github.com/projectcalico/calico/felix/routetable/ownershippol"
	"github.com/projectcalico/calico/felix/timeshim/mocktime"

	"verif/internal/fakenl"
	"verif/internal/harness"
)

const grace = 10 * time.Second

// ---------------------------------------------------------------------------------------------
// Scenario vocabulary

type rkey struct {
	CIDR string `json:"cidr"`
	TOS  int    `json:"tos,omitempty"`
	Prio int    `json:"prio,omitempty"`
}

type target struct {
	Key   rkey   `json:"key"`
	Type  string `json:"type,omitempty"`
	GW    string `json:"gw,omitempty"`
	Src   string `json:"src,omitempty"`
	MAC   string `json:"mac,omitempty"`
	Proto int    `json:"proto,omitempty"`
	MTU   int    `json:"mtu,omitempty"`
}

type routeSpec struct { // a foreign / stale route put into the kernel by the harness
	Table int    `json:"table"`
	Fam   int    `json:"fam"`
	Dst   string `json:"dst"`
	Prio  int    `json:"prio,omitempty"`
	Dev   string `json:"dev,omitempty"` // "" = no interface
	Type  int    `json:"type"`
	Scope int    `json:"scope"`
	Proto int    `json:"proto"`
	GW    string `json:"gw,omitempty"`
	Flags int    `json:"flags,omitempty"`
}

type op struct {
	Kind    string        `json:"k"`
	Class   int           `json:"class,omitempty"`
	Iface   string        `json:"iface,omitempty"`
	Targets []target      `json:"targets,omitempty"`
	Key     *rkey         `json:"key,omitempty"`
	Admin   bool          `json:"admin,omitempty"`
	Oper    bool          `json:"oper,omitempty"`
	Deliver bool          `json:"deliver,omitempty"`
	Route   *routeSpec    `json:"route,omitempty"`
	Advance time.Duration `json:"adv,omitempty"`
	Idx     int           `json:"idx,omitempty"`
}

type linkSpec struct {
	Name  string
	Admin bool
	Oper  bool
}

type scenario struct {
	ipv          int
	policy       string // main | exclusive
	table        int
	proto        int // DeviceRouteProtocol
	removeExt    bool
	programIPIP  bool
	srcAddr      string
	arp          bool
	strict       bool
	conntrack    bool
	ownIfaces    []string // exclusive policy
	startLinks   []linkSpec
	startRoutes  []routeSpec
	ops          []op
	desiredCIDRs []string
}

func (sc *scenario) fam() int {
	if sc.ipv == 6 {
		return unix.AF_INET6
	}
	return unix.AF_INET
}

// exclusiveProto is the protocol Felix uses for routes it must recognise anywhere.
func (sc *scenario) exclusiveProto() int {
	if sc.proto == unix.RTPROT_BOOT {
		return 80
	}
	return sc.proto
}

func (sc *scenario) isWorkload(name string) bool { return strings.HasPrefix(name, "cali") }

// owned is the reference ownership rule.  name is the kernel's current name of r.LinkIndex ("" unknown).
func (sc *scenario) owned(r *netlink.Route, name string) bool {
	special := r.LinkIndex <= 1 && (len(r.MultiPath) > 0 || r.Type == unix.RTN_LOCAL || r.Type == unix.RTN_THROW ||
		r.Type == unix.RTN_BLACKHOLE || r.Type == unix.RTN_PROHIBIT || r.Type == unix.RTN_UNREACHABLE)
	if !special && r.Dst != nil && r.Family == unix.AF_INET6 && r.Dst.String() == "fe80::/64" {
		return false
	}
	if sc.policy == "exclusive" {
		if special {
			return true
		}
		for _, n := range sc.ownIfaces {
			if n == name {
				return true
			}
		}
		return false
	}
	excl := int(r.Protocol) == sc.exclusiveProto()
	if excl {
		return special || name != ""
	}
	if special || name == "" {
		return false
	}
	if sc.isWorkload(name) {
		if sc.removeExt {
			return true
		}
		return int(r.Protocol) == sc.proto || int(r.Protocol) == sc.exclusiveProto()
	}
	if sc.programIPIP && name == "tunl0" && r.Protocol == unix.RTPROT_BIRD {
		return true
	}
	return name == "vxlan.calico" || name == "bpfin.cali"
}

var v4CIDRs = []string{"10.65.0.1/32", "10.65.0.2/32", "10.65.0.3/32", "10.65.0.0/26", "10.65.1.0/26", "10.65.2.0/26", "10.65.3.0/26"}
var v6CIDRs = []string{"fd00:65::1/128", "fd00:65::2/128", "fd00:65::3/128", "fd00:65::/122", "fd00:65:1::/122", "fd00:65:2::/122", "fd00:65:3::/122"}

type gen struct {
	R  *rand.Rand
	sc *scenario
}

func (g *gen) cidr() string {
	return g.sc.desiredCIDRs[g.R.Intn(len(g.sc.desiredCIDRs))]
}

func (g *gen) hostAddr(n int) string {
	if g.sc.ipv == 6 {
		return fmt.Sprintf("fd00:192::%x", n)
	}
	return fmt.Sprintf("192.168.0.%d", n)
}

// classIfaces lists (class, interface) pairs the managers use.
func (g *gen) classIfaces() [][2]any {
	if g.sc.policy == "exclusive" {
		return [][2]any{{int(routetable.RouteClassWireguard), "wireguard.cali"}, {int(routetable.RouteClassWireguard), routetable.InterfaceNone}}
	}
	return [][2]any{
		{int(routetable.RouteClassLocalWorkload), "cali1"}, {int(routetable.RouteClassLocalWorkload), "cali2"}, {int(routetable.RouteClassLocalWorkload), "cali3"},
		{int(routetable.RouteClassBPFSpecial), "bpfin.cali"},
		{int(routetable.RouteClassVXLANSameSubnet), "eth0"}, {int(routetable.RouteClassVXLANTunnel), "vxlan.calico"},
		{int(routetable.RouteClassIPIPSameSubnet), "eth0"}, {int(routetable.RouteClassIPIPTunnel), "tunl0"},
		{int(routetable.RouteClassNoEncap), "eth0"},
		{int(routetable.RouteClassBlackholeVXLAN), routetable.InterfaceNone}, {int(routetable.RouteClassBlackholeIPIP), routetable.InterfaceNone},
	}
}

func (g *gen) target(class int, iface string) target {
	R := g.R
	t := target{Key: rkey{CIDR: g.cidr()}}
	if R.Intn(8) == 0 {
		t.Key.Prio = 100
	}
	ex := g.sc.exclusiveProto()
	switch routetable.RouteClass(class) {
	case routetable.RouteClassLocalWorkload:
		if g.sc.ipv == 4 && R.Intn(2) == 0 {
			t.MAC = fmt.Sprintf("ee:ee:ee:00:00:%02x", R.Intn(200))
		}
	case routetable.RouteClassBPFSpecial:
		t.Type = "local-unicast"
	case routetable.RouteClassVXLANTunnel:
		t.Type, t.GW, t.MTU = "vxlan", g.hostAddr(10+R.Intn(3)), []int{0, 1410}[R.Intn(2)]
	case routetable.RouteClassVXLANSameSubnet, routetable.RouteClassIPIPSameSubnet, routetable.RouteClassNoEncap:
		t.Type, t.GW, t.Proto = []string{"noencap", "global-unicast"}[R.Intn(2)], g.hostAddr(20+R.Intn(3)), ex
	case routetable.RouteClassIPIPTunnel:
		t.Type, t.GW, t.Proto = "onlink", g.hostAddr(30+R.Intn(3)), ex
	case routetable.RouteClassWireguard:
		if iface == routetable.InterfaceNone {
			t.Type = "throw"
		}
	case routetable.RouteClassBlackholeVXLAN, routetable.RouteClassBlackholeIPIP, routetable.RouteClassBlackholeNoEncap:
		t.Type, t.Proto = "blackhole", ex
	}
	if R.Intn(10) == 0 && t.Type != "blackhole" && t.Type != "throw" {
		t.Src = g.hostAddr(99)
	}
	return t
}

func (g *gen) foreignRoute() routeSpec {
	R, sc := g.R, g.sc
	fam := sc.fam()
	other := []string{"172.17.0.0/16", "192.168.0.0/24", "10.99.0.0/24", "10.65.9.0/26", "0.0.0.0/0", "100.64.0.0/10"}
	if sc.ipv == 6 {
		other = []string{"fd00:172::/64", "fd00:192::/64", "fd00:99::/64", "fd00:65:9::/122", "::/0", "fe80::/64"}
	}
	gw := g.hostAddr(1)
	r := routeSpec{Table: sc.table, Fam: fam, Dst: other[R.Intn(len(other))], Type: unix.RTN_UNICAST, Scope: unix.RT_SCOPE_UNIVERSE}
	foreignProtos := []int{unix.RTPROT_KERNEL, unix.RTPROT_STATIC, unix.RTPROT_BIRD, unix.RTPROT_DHCP, unix.RTPROT_BOOT, 0}
	pick := func(excl ...int) int {
		for {
			p := foreignProtos[R.Intn(len(foreignProtos))]
			ok := true
			for _, e := range excl {
				if p == e {
					ok = false
				}
			}
			if ok {
				return p
			}
		}
	}
	if sc.policy == "exclusive" {
		// in a dedicated table only routes on other interfaces are not Felix's; plus other tables / family
		switch R.Intn(3) {
		case 0:
			r.Dev, r.Proto, r.GW = "eth0", pick(), gw
		case 1:
			r.Table, r.Dev, r.Proto = unix.RT_TABLE_MAIN, "eth0", pick()
			r.Scope = unix.RT_SCOPE_LINK
		default:
			r.Table, r.Type, r.Proto = 77, unix.RTN_BLACKHOLE, 80
		}
		return r
	}
	switch R.Intn(9) {
	case 0: // ordinary host routes
		r.Dev, r.Proto, r.GW = []string{"eth0", "eth1", "docker0"}[R.Intn(3)], pick(sc.exclusiveProto()), gw
	case 1: // connected route
		r.Dev, r.Proto, r.Scope = []string{"eth0", "docker0"}[R.Intn(2)], unix.RTPROT_KERNEL, unix.RT_SCOPE_LINK
	case 2: // BIRD's blackhole for a local block: no interface, not an exclusive protocol
		r.Type, r.Proto = unix.RTN_BLACKHOLE, pick(sc.exclusiveProto())
		r.Dst = g.cidr()
		r.Prio = 4242 // same destination as a Calico block but another metric: a different FIB key
	case 3: // same destination as a desired route, other metric, on the host NIC with a foreign protocol
		r.Dst, r.Prio, r.Dev, r.Proto, r.GW = g.cidr(), 777, "eth0", pick(sc.exclusiveProto()), gw
	case 4: // a route on a workload interface programmed by something else
		if sc.removeExt {
			r.Dev, r.Proto, r.GW = "eth1", pick(sc.exclusiveProto()), gw
		} else {
			r.Dev, r.Proto, r.Scope = "cali2", pick(sc.proto, sc.exclusiveProto()), unix.RT_SCOPE_LINK
			r.Prio = 555
		}
	case 5: // BIRD's route through the IPIP device
		if sc.programIPIP {
			r.Dev, r.Proto, r.GW, r.Flags = "tunl0", unix.RTPROT_STATIC, gw, unix.RTNH_F_ONLINK
		} else {
			r.Dev, r.Proto, r.GW, r.Flags = "tunl0", unix.RTPROT_BIRD, gw, unix.RTNH_F_ONLINK
		}
	case 6: // Felix-looking route in ANOTHER table
		r.Table, r.Type, r.Proto, r.Dst = 100+R.Intn(2), unix.RTN_BLACKHOLE, sc.exclusiveProto(), g.cidr()
	case 7: // Felix-looking route of the OTHER family
		if sc.ipv == 4 {
			r.Fam, r.Dst = unix.AF_INET6, "fd00:65::/122"
		} else {
			r.Fam, r.Dst = unix.AF_INET, "10.65.0.0/26"
		}
		r.Type, r.Proto = unix.RTN_BLACKHOLE, sc.exclusiveProto()
	default: // RTPROT_BOOT on the host NIC: looks like Felix's default protocol but is not on a workload interface
		r.Dev, r.Proto, r.GW = "eth0", unix.RTPROT_BOOT, gw
		if sc.exclusiveProto() == unix.RTPROT_BOOT {
			r.Proto = unix.RTPROT_STATIC
		}
	}
	return r
}

func (g *gen) staleRoute() routeSpec {
	R, sc := g.R, g.sc
	r := routeSpec{Table: sc.table, Fam: sc.fam(), Dst: g.cidr(), Type: unix.RTN_UNICAST, Scope: unix.RT_SCOPE_LINK, Proto: sc.exclusiveProto()}
	if R.Intn(3) == 0 {
		r.Prio = 50
	}
	if sc.policy == "exclusive" {
		if R.Intn(2) == 0 {
			r.Dev = "wireguard.cali"
		} else {
			r.Type = unix.RTN_THROW
			r.Scope = unix.RT_SCOPE_UNIVERSE
		}
		return r
	}
	switch R.Intn(6) {
	case 0:
		r.Dev, r.Proto = []string{"cali1", "cali2", "cali3"}[R.Intn(3)], sc.proto
	case 1:
		r.Type, r.Scope = unix.RTN_BLACKHOLE, unix.RT_SCOPE_UNIVERSE
	case 2:
		r.Dev, r.Proto, r.GW, r.Flags, r.Scope = "vxlan.calico", []int{unix.RTPROT_STATIC, sc.exclusiveProto()}[R.Intn(2)], g.hostAddr(11), unix.RTNH_F_ONLINK, unix.RT_SCOPE_UNIVERSE
	case 3:
		r.Dev, r.GW, r.Scope = "eth0", g.hostAddr(21), unix.RT_SCOPE_UNIVERSE
	case 4:
		r.Dev, r.Proto = "bpfin.cali", unix.RTPROT_KERNEL
	default:
		if sc.removeExt {
			r.Dev, r.Proto = "cali1", unix.RTPROT_STATIC
		} else {
			r.Dev, r.Proto = "cali3", sc.proto
		}
	}
	return r
}

func genScenario(R *rand.Rand, thorough bool) *scenario {
	sc := &scenario{ipv: 4, policy: "main", table: unix.RT_TABLE_MAIN}
	if R.Intn(4) == 0 {
		sc.ipv = 6
	}
	if R.Intn(6) == 0 {
		sc.policy, sc.table, sc.ownIfaces = "exclusive", 1, []string{"wireguard.cali", routetable.InterfaceNone}
	}
	sc.proto = []int{unix.RTPROT_BOOT, unix.RTPROT_BOOT, 80, 90}[R.Intn(4)]
	sc.removeExt = R.Intn(2) == 0
	sc.programIPIP = sc.ipv == 4 && R.Intn(2) == 0
	sc.arp = sc.ipv == 4 && R.Intn(2) == 0
	sc.strict = R.Intn(2) == 0
	sc.conntrack = R.Intn(2) == 0
	g := &gen{R: R, sc: sc}
	if R.Intn(3) == 0 {
		sc.srcAddr = g.hostAddr(2)
	}
	all := v4CIDRs
	if sc.ipv == 6 {
		all = v6CIDRs
	}
	sc.desiredCIDRs = all[:3+R.Intn(len(all)-2)]

	ifaces := []string{"eth0", "eth1", "docker0", "cali1", "cali2", "cali3", "vxlan.calico", "tunl0", "bpfin.cali", "wireguard.cali"}
	for _, n := range ifaces {
		if R.Intn(5) == 0 {
			continue
		}
		up := R.Intn(5) != 0
		sc.startLinks = append(sc.startLinks, linkSpec{Name: n, Admin: up, Oper: up && R.Intn(6) != 0})
	}
	for i, n := 0, 2+R.Intn(5); i < n; i++ {
		sc.startRoutes = append(sc.startRoutes, g.foreignRoute())
	}
	for i, n := 0, R.Intn(5); i < n; i++ {
		sc.startRoutes = append(sc.startRoutes, g.staleRoute())
	}

	emit := func(o op) { sc.ops = append(sc.ops, o) }
	cis := g.classIfaces()
	setRoutes := func() {
		ci := cis[R.Intn(len(cis))]
		var ts []target
		seen := map[rkey]bool{}
		for i, n := 0, R.Intn(4); i < n; i++ {
			t := g.target(ci[0].(int), ci[1].(string))
			if !seen[t.Key] {
				seen[t.Key] = true
				ts = append(ts, t)
			}
		}
		emit(op{Kind: "set-routes", Class: ci[0].(int), Iface: ci[1].(string), Targets: ts})
	}
	for i, n := 0, 2+R.Intn(5); i < n; i++ {
		setRoutes()
	}
	emit(op{Kind: "apply"})
	nOps := 8 + R.Intn(12)
	if thorough {
		nOps += R.Intn(14)
	}
	for len(sc.ops) < nOps {
		switch x := R.Intn(40); {
		case x < 5:
			setRoutes()
		case x < 9:
			ci := cis[R.Intn(len(cis))]
			emit(op{Kind: "route-update", Class: ci[0].(int), Iface: ci[1].(string), Targets: []target{g.target(ci[0].(int), ci[1].(string))}})
		case x < 12:
			ci := cis[R.Intn(len(cis))]
			k := rkey{CIDR: g.cidr()}
			if R.Intn(8) == 0 {
				k.Prio = 100
			}
			emit(op{Kind: "route-remove", Class: ci[0].(int), Iface: ci[1].(string), Key: &k})
		case x < 17:
			name := ifaces[R.Intn(len(ifaces))]
			if R.Intn(2) == 0 {
				name = cis[R.Intn(len(cis))][1].(string) // an interface the managers use
				if name == routetable.InterfaceNone {
					name = "eth0"
				}
			}
			switch R.Intn(8) {
			case 0:
				emit(op{Kind: "link-del", Iface: name, Deliver: R.Intn(3) != 0})
			case 1:
				emit(op{Kind: "link-recreate", Iface: name, Admin: true, Oper: R.Intn(4) != 0, Deliver: R.Intn(3) != 0})
			case 2:
				emit(op{Kind: "link-set", Iface: name, Admin: false, Oper: false, Deliver: R.Intn(3) != 0})
			case 3, 4, 5:
				emit(op{Kind: "link-flap", Iface: name, Deliver: R.Intn(4) != 0})
				if R.Intn(4) != 0 {
					emit(op{Kind: "apply"}) // an interface event wakes the main loop
				}
			default:
				emit(op{Kind: "link-set", Iface: name, Admin: true, Oper: R.Intn(5) != 0, Deliver: R.Intn(3) != 0})
			}
		case x < 19:
			emit(op{Kind: "deliver"})
		case x < 21:
			emit(op{Kind: "queue-resync"})
		case x < 29:
			emit(op{Kind: "apply"})
		case x < 31:
			emit(op{Kind: "advance", Advance: []time.Duration{time.Second, 5 * time.Second, 11 * time.Second, time.Minute}[R.Intn(4)]})
		case x < 33:
			r := g.foreignRoute()
			emit(op{Kind: "oob-put", Route: &r})
		case x < 34:
			emit(op{Kind: "oob-del-foreign", Idx: R.Intn(8)})
		case x < 35:
			r := g.staleRoute()
			emit(op{Kind: "oob-put", Route: &r})
		case x < 37:
			emit(op{Kind: "oob-del-desired", Idx: R.Intn(8)})
		case x < 38:
			emit(op{Kind: "oob-corrupt-desired", Idx: R.Intn(8)})
		case x < 39:
			emit(op{Kind: "restart"})
		default:
			emit(op{Kind: "checkpoint"})
		}
	}
	emit(op{Kind: "checkpoint"})
	return sc
}

// ---------------------------------------------------------------------------------------------
// Fault plans

type faultPlan struct {
	Kind     string  `json:"kind"`
	Op       string  `json:"op,omitempty"`
	Seq      int     `json:"seq,omitempty"`
	Mode     string  `json:"mode,omitempty"`
	BurstLen int     `json:"burst,omitempty"`
	P        float64 `json:"p,omitempty"`
	Seed     int64   `json:"seed,omitempty"`

	rnd      *rand.Rand
	disabled bool
	hits     int
}

var faultOps = []string{"new-handle", "set-timeout", "link-list", "link-by-name", "route-list", "route-replace", "route-del", "neigh-set"}

func modesFor(op string) []string {
	switch op {
	case "route-list":
		return []string{"eintr", "eio", "timeout"}
	case "route-replace":
		return []string{"eio", "enetdown", "enodev", "timeout", "eexist"}
	case "route-del", "link-list":
		return []string{"eio", "timeout"}
	}
	return []string{"eio"}
}

func (p *faultPlan) decide(fp fakenl.FaultPoint) string {
	if p == nil || p.disabled {
		return ""
	}
	pick := func() string { ms := modesFor(fp.Op); return ms[p.rnd.Intn(len(ms))] }
	switch p.Kind {
	case "single":
		if fp.Op == p.Op && fp.Seq == p.Seq {
			p.hits++
			return p.Mode
		}
	case "burst":
		if fp.Op == p.Op && fp.Seq >= p.Seq && fp.Seq < p.Seq+p.BurstLen {
			p.hits++
			return pick()
		}
	case "random":
		if p.rnd.Float64() < p.P {
			p.hits++
			return pick()
		}
	}
	return ""
}

// ---------------------------------------------------------------------------------------------
// One execution

type ifEvent struct {
	name  string
	idx   int
	state ifacemonitor.State
}

type fakeConntrack struct {
	mu sync.Mutex
	n  int
}

func (f *fakeConntrack) RemoveConntrackFlows(ipVersion uint8, ipAddr net.IP) {
	f.mu.Lock()
	f.n++
	f.mu.Unlock()
}

type nopRecorder struct{}

func (nopRecorder) RecordOperation(string) {}

type runner struct {
	c    *harness.Case
	sc   *scenario
	plan *faultPlan
	k    *fakenl.Kernel
	rt   *routetable.RouteTable
	tm   *mocktime.MockTime
	ct   *fakeConntrack

	model   map[int]map[string]map[rkey]target
	pending []ifEvent
	foreign map[fakenl.RouteKey]string
	dirty      bool // OOB route edit or fault since the last complete, fault-free dump of the table
	linkListOK bool
	faults     int
	connFaults int // failed connection attempts since the last successful one

	dead     bool
	cnt      map[string]int64
	seenKeys map[string]bool
}

func (r *runner) count(n string, v int64) { r.cnt[n] += v }

func (r *runner) describeKernel() []string {
	var out []string
	for _, rt := range r.k.Routes() {
		rt := rt
		out = append(out, fakenl.Describe(&rt))
	}
	sort.Strings(out)
	for _, l := range r.k.Links() {
		out = append(out, fmt.Sprintf("link %d %s admin=%v oper=%v", l.Index, l.Name, l.AdminUp, l.OperUp))
	}
	return out
}

func (r *runner) detail(extra map[string]any) map[string]any {
	sc := r.sc
	d := map[string]any{"ipv": sc.ipv, "policy": sc.policy, "table": sc.table, "device_route_proto": sc.proto, "remove_external": sc.removeExt,
		"program_ipip": sc.programIPIP, "src_addr": sc.srcAddr, "strict": sc.strict, "start_links": sc.startLinks, "start_routes": sc.startRoutes,
		"ops": sc.ops, "plan": r.plan, "kernel_now": r.describeKernel(), "kernel_log_tail": r.k.TailLog(100)}
	for k, v := range extra {
		d[k] = v
	}
	return d
}

func (r *runner) violate(key string, extra map[string]any, format string, a ...any) {
	r.dead = true
	if r.seenKeys[key] {
		return
	}
	r.seenKeys[key] = true
	// Called possibly with the kernel lock held (OnOp): the detail is built later by the caller when unlocked.
	r.c.Violationf(key, r.lazyDetail(extra), format, a...)
}

// lazyDetail avoids touching the kernel (its lock may be held).
func (r *runner) lazyDetail(extra map[string]any) map[string]any {
	sc := r.sc
	d := map[string]any{"ipv": sc.ipv, "policy": sc.policy, "table": sc.table, "device_route_proto": sc.proto, "remove_external": sc.removeExt,
		"program_ipip": sc.programIPIP, "src_addr": sc.srcAddr, "strict": sc.strict, "start_links": sc.startLinks, "start_routes": sc.startRoutes,
		"ops": sc.ops, "plan": r.plan, "kernel_log_tail": append([]string(nil), tail(r.k.Log, 100)...)}
	for k, v := range extra {
		d[k] = v
	}
	return d
}

func tail(l []string, n int) []string {
	if len(l) <= n {
		return l
	}
	return l[len(l)-n:]
}

func (r *runner) linkName(idx int) string {
	for _, l := range r.k.Links() {
		if l.Index == idx {
			return l.Name
		}
	}
	return ""
}

func (r *runner) mkRoute(s *routeSpec) (netlink.Route, bool) {
	_, dst, err := net.ParseCIDR(s.Dst)
	if err != nil {
		panic(err)
	}
	rt := netlink.Route{Family: s.Fam, Table: s.Table, Dst: dst, Priority: s.Prio, Type: s.Type, Scope: netlink.Scope(s.Scope),
		Protocol: netlink.RouteProtocol(s.Proto), Flags: s.Flags}
	if s.GW != "" {
		rt.Gw = net.ParseIP(s.GW)
		if (s.Fam == unix.AF_INET) != (rt.Gw.To4() != nil) {
			rt.Gw = nil
		}
	}
	if s.Dev != "" {
		l, ok := r.k.LinkByNameOOB(s.Dev)
		if !ok || !l.AdminUp {
			return rt, false // the kernel would refuse a route through a missing/down device
		}
		rt.LinkIndex = l.Index
	} else if s.Fam == unix.AF_INET6 && s.Type != unix.RTN_UNICAST {
		rt.LinkIndex = 1
	}
	return rt, true
}

func (r *runner) rebaseline() {
	r.foreign = map[fakenl.RouteKey]string{}
	names := map[int]string{}
	for _, l := range r.k.Links() {
		names[l.Index] = l.Name
	}
	for key, rt := range r.k.Routes() {
		rt := rt
		if key.Table != r.sc.table || key.Family != r.sc.fam() || !r.sc.owned(&rt, names[rt.LinkIndex]) {
			r.foreign[key] = fakenl.Describe(&rt)
		}
	}
}

func (r *runner) desiredKeys() map[rkey]bool {
	out := map[rkey]bool{}
	for _, byIface := range r.model {
		for _, byKey := range byIface {
			for k := range byKey {
				out[r.normKey(k)] = true
			}
		}
	}
	return out
}

func (r *runner) normKey(k rkey) rkey {
	if r.sc.ipv == 6 && k.Prio == 0 {
		k.Prio = 1024
	}
	// canonical CIDR text
	_, n, _ := net.ParseCIDR(k.CIDR)
	k.CIDR = n.String()
	return k
}

func (r *runner) fibKey(k rkey) fakenl.RouteKey {
	k = r.normKey(k)
	return fakenl.RouteKey{Family: r.sc.fam(), Table: r.sc.table, Dst: k.CIDR, Tos: k.TOS, Priority: k.Prio}
}

// onOp is oracle S (kernel lock held).
func (r *runner) onOp(o fakenl.Op) {
	r.count("nl_"+o.Op, 1)
	if o.Fault != "" {
		return
	}
	if o.Op != "route-replace" && o.Op != "route-del" {
		return
	}
	r.count("s_checks", 1)
	if o.Key.Table != r.sc.table || o.Key.Family != r.sc.fam() {
		r.violate("other-table-touched", map[string]any{"op": o.Op, "key": o.Key.String()}, "%s on %s, outside Felix's table/family", o.Op, o.Key)
		return
	}
	if !o.Applied {
		return
	}
	if o.Old != nil {
		name := r.k.LinkNameLocked(o.Old.LinkIndex)
		if !r.sc.owned(o.Old, name) {
			key := "foreign-route-deleted"
			if o.Op == "route-replace" {
				key = "foreign-route-replaced"
			}
			r.violate(key, map[string]any{"op": o.Op, "old": fakenl.Describe(o.Old), "old_dev": name, "new": fakenl.Describe(&o.Route)},
				"%s hit a route Felix does not own: %s (dev %q)", o.Op, fakenl.Describe(o.Old), name)
			return
		}
	}
	if o.Op == "route-replace" {
		want := false
		for k := range r.desiredKeys() {
			if r.fibKey(k) == o.Key {
				want = true
			}
		}
		if !want {
			r.violate("undesired-route-programmed", map[string]any{"route": fakenl.Describe(&o.Route)}, "Felix programmed %s, which no manager asked for", fakenl.Describe(&o.Route))
		}
	}
}

func (r *runner) newFelix() {
	sc := r.sc
	var pol routetable.OwnershipPolicy
	if sc.policy == "exclusive" {
		pol = &ownershippol.ExclusiveOwnershipPolicy{InterfaceNames: sc.ownIfaces}
	} else {
		pol = ownershippol.NewMainTable("vxlan.calico", netlink.RouteProtocol(sc.proto), []string{"cali"}, sc.removeExt, sc.programIPIP)
	}
	var src net.IP
	if sc.srcAddr != "" {
		src = net.ParseIP(sc.srcAddr)
	}
	fd := &environment.FakeFeatureDetector{Features: environment.Features{KernelSideRouteFiltering: sc.strict}}
	opts := []routetable.Opt{
		routetable.WithNetlinkHandleShim(r.k.NewHandle), routetable.WithTimeShim(r.tm), routetable.WithConntrackShim(r.ct),
		routetable.WithRouteCleanupGracePeriod(grace), routetable.WithConntrackCleanup(sc.conntrack),
	}
	if sc.arp {
		opts = append(opts, routetable.WithStaticARPEntries(true))
	}
	r.rt = routetable.New(pol, uint8(sc.ipv), 10*time.Second, src, netlink.RouteProtocol(sc.proto), sc.removeExt, sc.table, nopRecorder{}, fd, opts...)
	r.count("instances", 1)
	r.dirty = true // a new instance knows nothing until its first full resync
	// The interface monitor reports the current state of every interface at start of day.
	r.pending = nil
	for _, l := range r.k.Links() {
		if l.Name == "lo" {
			continue
		}
		st := ifacemonitor.StateDown
		if l.OperUp {
			st = ifacemonitor.StateUp
		}
		r.rt.OnIfaceStateChanged(l.Name, l.Index, st)
	}
	var classes []int
	for c := range r.model {
		classes = append(classes, c)
	}
	sort.Ints(classes)
	for _, c := range classes {
		var ifs []string
		for n := range r.model[c] {
			ifs = append(ifs, n)
		}
		sort.Strings(ifs)
		for _, n := range ifs {
			var ts []routetable.Target
			var keys []rkey
			for k := range r.model[c][n] {
				keys = append(keys, k)
			}
			sort.Slice(keys, func(i, j int) bool { return fmt.Sprint(keys[i]) < fmt.Sprint(keys[j]) })
			for _, k := range keys {
				ts = append(ts, r.mkTarget(r.model[c][n][k]))
			}
			r.rt.SetRoutes(routetable.RouteClass(c), n, ts)
		}
	}
}

func (r *runner) mkTarget(t target) routetable.Target {
	out := routetable.Target{RouteKey: routetable.RouteKey{CIDR: ip.MustParseCIDROrIP(t.Key.CIDR), TOS: t.Key.TOS, Priority: t.Key.Prio},
		Type: routetable.TargetType(t.Type), Protocol: netlink.RouteProtocol(t.Proto), MTU: t.MTU}
	if t.GW != "" {
		out.GW = ip.FromString(t.GW)
	}
	if t.Src != "" {
		out.Src = ip.FromString(t.Src)
	}
	if t.MAC != "" {
		out.DestMAC, _ = net.ParseMAC(t.MAC)
	}
	return out
}

// expected builds the kernel route a candidate should produce (reference mapping of the Target API).
func (r *runner) expected(t target, ifIndex int) string {
	typ, scope, flags := unix.RTN_UNICAST, unix.RT_SCOPE_LINK, 0
	switch t.Type {
	case "local":
		typ, scope = unix.RTN_LOCAL, unix.RT_SCOPE_HOST
	case "throw":
		typ, scope = unix.RTN_THROW, unix.RT_SCOPE_UNIVERSE
	case "blackhole":
		typ, scope = unix.RTN_BLACKHOLE, unix.RT_SCOPE_UNIVERSE
	case "prohibit":
		typ, scope = unix.RTN_PROHIBIT, unix.RT_SCOPE_UNIVERSE
	case "unreachable":
		typ = unix.RTN_UNREACHABLE
	case "global-unicast":
		scope = unix.RT_SCOPE_UNIVERSE
	case "noencap", "vxlan", "onlink":
		scope, flags = unix.RT_SCOPE_UNIVERSE, unix.RTNH_F_ONLINK
	}
	src := r.sc.srcAddr
	if t.Src != "" {
		src = t.Src
	}
	proto := r.sc.proto
	if t.Proto != 0 {
		proto = t.Proto
	}
	norm := func(s string) string {
		if s == "" {
			return ""
		}
		return net.ParseIP(s).String()
	}
	return fmt.Sprintf("dev=%d type=%d scope=%d proto=%d gw=%s src=%s onlink=%v mtu=%d", ifIndex, typ, scope, proto, norm(t.GW), norm(src), flags != 0, t.MTU)
}

func kernelSummary(rt *netlink.Route) string {
	ips := func(i net.IP) string {
		if len(i) == 0 {
			return ""
		}
		return i.String()
	}
	return fmt.Sprintf("dev=%d type=%d scope=%d proto=%d gw=%s src=%s onlink=%v mtu=%d", rt.LinkIndex, rt.Type, rt.Scope, rt.Protocol, ips(rt.Gw), ips(rt.Src),
		rt.Flags&unix.RTNH_F_ONLINK != 0, rt.MTU)
}

// judge is oracle D (and C when final).
func (r *runner) judge(when string, final bool) {
	r.count("d_checks", 1)
	links := map[string]fakenl.Link{}
	names := map[int]string{}
	for _, l := range r.k.Links() {
		links[l.Name] = l
		names[l.Index] = l.Name
	}
	routes := r.k.Routes()
	// winners per key
	type cand struct {
		Class int
		Exp   string
		Iface string
	}
	best := map[rkey][]cand{}
	for class, byIface := range r.model {
		for iface, byKey := range byIface {
			idx := 0
			if iface == routetable.InterfaceNone {
				if r.sc.ipv == 6 {
					idx = 1
				}
			} else {
				l, ok := links[iface]
				if !ok || !l.OperUp {
					continue
				}
				idx = l.Index
			}
			for k, t := range byKey {
				nk := r.normKey(k)
				c := cand{Class: class, Exp: r.expected(t, idx), Iface: iface}
				cur := best[nk]
				switch {
				case len(cur) == 0 || class < cur[0].Class:
					best[nk] = []cand{c}
				case class == cur[0].Class:
					best[nk] = append(cur, c)
				}
			}
		}
	}
	for k, cands := range best {
		r.count("desired_keys_checked", 1)
		got, ok := routes[r.fibKey(k)]
		if !ok {
			r.violateU("desired-route-missing", map[string]any{"key": k, "when": when, "candidates": cands}, "%s: desired route %v is not in the kernel", when, k)
			return
		}
		gs := kernelSummary(&got)
		match := false
		for _, c := range cands {
			if c.Exp == gs {
				match = true
			}
		}
		if !match {
			key := "desired-route-wrong"
			// is the kernel route the target of a LOWER-priority class?  then conflict resolution broke
			for class, byIface := range r.model {
				for iface, byKey := range byIface {
					for k2, t := range byKey {
						if r.normKey(k2) != k || class <= cands[0].Class {
							continue
						}
						idx := 0
						if l, ok := links[iface]; ok {
							idx = l.Index
						} else if iface == routetable.InterfaceNone && r.sc.ipv == 6 {
							idx = 1
						}
						if r.expected(t, idx) == gs {
							key = "wrong-class-wins"
						}
					}
				}
			}
			r.violateU(key, map[string]any{"key": k, "when": when, "kernel": gs, "acceptable": cands}, "%s: route %v is %s, expected one of %v", when, k, gs, cands)
			return
		}
	}
	// foreign routes unchanged
	seen := map[fakenl.RouteKey]bool{}
	for key, rt := range routes {
		rt := rt
		if key.Table == r.sc.table && key.Family == r.sc.fam() && r.sc.owned(&rt, names[rt.LinkIndex]) {
			continue
		}
		r.count("foreign_checked", 1)
		seen[key] = true
		if base, ok := r.foreign[key]; !ok || base != fakenl.Describe(&rt) {
			// a route that was Felix's can become "foreign" only through our own link ops, which rebaseline
			r.violateU("foreign-route-changed", map[string]any{"key": key.String(), "when": when, "now": fakenl.Describe(&rt), "baseline": base},
				"%s: route %s that Felix does not own changed: now %s, baseline %q", when, key, fakenl.Describe(&rt), base)
			return
		}
	}
	for key, base := range r.foreign {
		if !seen[key] {
			r.violateU("foreign-route-changed", map[string]any{"key": key.String(), "when": when, "baseline": base}, "%s: foreign route %s disappeared", when, base)
			return
		}
	}
	if !final {
		return
	}
	// owned routes without a usable candidate must be gone
	for key, rt := range routes {
		rt := rt
		if key.Table != r.sc.table || key.Family != r.sc.fam() || !r.sc.owned(&rt, names[rt.LinkIndex]) {
			continue
		}
		r.count("owned_checked", 1)
		wanted := false
		for k := range best {
			if r.fibKey(k) == key {
				wanted = true
			}
		}
		if !wanted {
			r.violateU("stale-owned-route-remains", map[string]any{"route": fakenl.Describe(&rt), "dev": names[rt.LinkIndex], "when": when},
				"%s: route %s (dev %q) is Felix's by the ownership rule, is not desired, and is still there", when, fakenl.Describe(&rt), names[rt.LinkIndex])
			return
		}
	}
}

// violateU is violate for call sites where the kernel lock is not held (adds the kernel dump).
func (r *runner) violateU(key string, extra map[string]any, format string, a ...any) {
	if extra == nil {
		extra = map[string]any{}
	}
	extra["kernel_now"] = r.describeKernel()
	r.violate(key, extra, format, a...)
}

func (r *runner) deliver() {
	for _, e := range r.pending {
		r.rt.OnIfaceStateChanged(e.name, e.idx, e.state)
		r.count("iface_events", 1)
	}
	r.pending = nil
}

// apply returns (err==nil, gaveUp).
func (r *runner) apply() (bool, bool) {
	r.faults = 0
	r.count("apply_calls", 1)
	var err error
	gaveUp := false
	func() {
		defer func() {
			if e := recover(); e != nil {
				msg := fmt.Sprint(e)
				if le, ok := e.(*logrus.Entry); ok {
					msg = le.Message
				}
				if strings.Contains(msg, "Repeatedly failed to connect to netlink") {
					gaveUp = true
					return
				}
				panic(e)
			}
		}()
		err = r.rt.Apply()
	}()
	if gaveUp {
		r.count("apply_gave_up", 1)
		if r.faults == 0 && r.connFaults == 0 {
			r.violateU("apply-gives-up-without-faults", nil, "RouteTable.Apply gave up although no connection attempt has failed since the last successful one")
		}
		return false, true
	}
	if err != nil {
		r.count("apply_err", 1)
		return false, false
	}
	r.count("apply_ok", 1)
	return true, false
}

func (r *runner) checkpoint() {
	if r.plan != nil {
		r.plan.disabled = true
		defer func() { r.plan.disabled = false }()
	}
	r.deliver()
	r.rt.QueueResync()
	r.tm.IncrementTime(grace + time.Second)
	ok := false
	for i := 0; i < 4 && !r.dead; i++ {
		var gaveUp bool
		ok, gaveUp = r.apply()
		if gaveUp {
			return
		}
		if ok {
			break
		}
	}
	if r.dead {
		return
	}
	if !ok {
		r.violateU("apply-keeps-failing-without-faults", nil, "four consecutive Apply calls failed with no fault injected and a static kernel")
		return
	}
	r.count("checkpoints", 1)
	if r.dirty {
		r.violateU("no-full-resync-at-checkpoint", nil, "QueueResync + a successful Apply did not dump the routing table")
		return
	}
	r.judge("checkpoint", true)
}

type runResult struct {
	counts map[string]int
	hits   int
}

func runScenario(c *harness.Case, sc *scenario, plan *faultPlan, seenKeys map[string]bool, cnt map[string]int64) runResult {
	r := &runner{c: c, sc: sc, plan: plan, k: fakenl.New(), tm: mocktime.New(), ct: &fakeConntrack{}, model: map[int]map[string]map[rkey]target{},
		cnt: cnt, seenKeys: seenKeys}
	for _, l := range sc.startLinks {
		r.k.AddLink(l.Name, l.Admin, l.Oper)
	}
	for i := range sc.startRoutes {
		if rt, ok := r.mkRoute(&sc.startRoutes[i]); ok {
			r.k.PutRoute(rt)
		}
	}
	r.rebaseline()
	r.k.Fault = func(fp fakenl.FaultPoint) string {
		m := plan.decide(fp)
		r.cnt["calls_"+fp.Op]++
		if m != "" {
			r.faults++
			switch fp.Op {
			case "route-replace", "route-del", "neigh-set":
				// A refused write changes nothing in the kernel and Felix is told about it: its picture
				// stays exact, so convergence is still judged after the next successful Apply.
			default:
				r.dirty = true
			}
			r.cnt["faults_"+fp.Op]++
			if fp.Op == "new-handle" || fp.Op == "set-timeout" {
				r.connFaults++
			}
			return m
		}
		switch {
		case fp.Op == "set-timeout":
			r.connFaults = 0 // a handle has been opened successfully
		case fp.Op == "route-list" && strings.Contains(fp.Arg, "oif=0 ") && r.linkListOK:
			// A complete dump of the table (the full resync) is being delivered without a fault, after a
			// successful link list: from here on Felix's picture is the kernel's.
			r.dirty = false
			r.cnt["full_dumps_clean"]++
		}
		if fp.Op == "link-list" {
			r.linkListOK = true
		}
		return m
	}
	r.k.OnOp = r.onOp
	r.newFelix()
	linkEvent := func(l fakenl.Link, present bool, deliver bool) {
		st := ifacemonitor.StateNotPresent
		if present {
			st = ifacemonitor.StateDown
			if l.OperUp {
				st = ifacemonitor.StateUp
			}
		}
		r.pending = append(r.pending, ifEvent{l.Name, l.Index, st})
		r.rebaseline() // the kernel itself may have flushed routes of that device
		if deliver {
			r.deliver()
		}
	}
	for i := range sc.ops {
		if r.dead {
			break
		}
		o := &sc.ops[i]
		switch o.Kind {
		case "set-routes":
			if r.model[o.Class] == nil {
				r.model[o.Class] = map[string]map[rkey]target{}
			}
			m := map[rkey]target{}
			var ts []routetable.Target
			for _, t := range o.Targets {
				m[t.Key] = t
				ts = append(ts, r.mkTarget(t))
			}
			if len(m) == 0 {
				delete(r.model[o.Class], o.Iface)
			} else {
				r.model[o.Class][o.Iface] = m
			}
			r.rt.SetRoutes(routetable.RouteClass(o.Class), o.Iface, ts)
		case "route-update":
			t := o.Targets[0]
			if r.model[o.Class] == nil {
				r.model[o.Class] = map[string]map[rkey]target{}
			}
			if r.model[o.Class][o.Iface] == nil {
				r.model[o.Class][o.Iface] = map[rkey]target{}
			}
			r.model[o.Class][o.Iface][t.Key] = t
			r.rt.RouteUpdate(routetable.RouteClass(o.Class), o.Iface, r.mkTarget(t))
		case "route-remove":
			if m := r.model[o.Class][o.Iface]; m != nil {
				delete(m, *o.Key)
				if len(m) == 0 {
					delete(r.model[o.Class], o.Iface)
				}
			}
			r.rt.RouteRemove(routetable.RouteClass(o.Class), o.Iface, routetable.RouteKey{CIDR: ip.MustParseCIDROrIP(o.Key.CIDR), TOS: o.Key.TOS, Priority: o.Key.Prio})
		case "link-del":
			if l, ok := r.k.DelLink(o.Iface); ok {
				r.count("link_ops", 1)
				linkEvent(l, false, o.Deliver)
			}
		case "link-recreate":
			if l, ok := r.k.DelLink(o.Iface); ok {
				linkEvent(l, false, o.Deliver)
			}
			l := r.k.AddLink(o.Iface, o.Admin, o.Oper)
			r.count("link_ops", 1)
			linkEvent(l, true, o.Deliver)
		case "link-set":
			if l, ok := r.k.SetLink(o.Iface, o.Admin, o.Oper); ok {
				r.count("link_ops", 1)
				linkEvent(l, true, o.Deliver)
			}
		case "link-flap":
			// admin down (the kernel flushes the device's routes) and straight up again
			before := len(r.k.Routes())
			if l, ok := r.k.SetLink(o.Iface, false, false); ok {
				r.count("flap_flushed_routes", int64(before-len(r.k.Routes())))
				linkEvent(l, true, false)
				l, _ = r.k.SetLink(o.Iface, true, true)
				r.count("link_ops", 2)
				r.count("link_flaps", 1)
				linkEvent(l, true, o.Deliver)
			}
		case "deliver":
			r.deliver()
		case "queue-resync":
			r.rt.QueueResync()
		case "apply":
			ok, gaveUp := r.apply()
			if gaveUp && !r.dead {
				r.newFelix()
			}
			if ok && !r.dead && len(r.pending) == 0 && !r.dirty {
				r.judge("after-apply", false)
			} else if ok {
				r.count("apply_ok_not_judged", 1)
			}
		case "advance":
			r.tm.IncrementTime(o.Advance)
		case "oob-put":
			if rt, ok := r.mkRoute(o.Route); ok {
				// never collide with a key a manager may want (see "Deliberately not checked")
				key := fakenl.KeyOf(&rt)
				collide := false
				if key.Table == sc.table && key.Family == sc.fam() && !sc.owned(&rt, r.linkName(rt.LinkIndex)) {
					for _, cidr := range sc.desiredCIDRs {
						for _, prio := range []int{0, 100} {
							if r.fibKey(rkey{CIDR: cidr, Prio: prio}) == key {
								collide = true
							}
						}
					}
				}
				if !collide {
					r.k.PutRoute(rt)
					r.count("oob_edits", 1)
					r.dirty = true
					r.rebaseline()
				}
			}
		case "oob-del-foreign":
			var keys []fakenl.RouteKey
			for k := range r.foreign {
				keys = append(keys, k)
			}
			sort.Slice(keys, func(i, j int) bool { return keys[i].String() < keys[j].String() })
			if len(keys) > 0 {
				r.k.RemoveRoute(keys[o.Idx%len(keys)])
				r.count("oob_edits", 1)
				r.dirty = true
				r.rebaseline()
			}
		case "oob-del-desired", "oob-corrupt-desired":
			var keys []fakenl.RouteKey
			routes := r.k.Routes()
			for k := range r.desiredKeys() {
				if _, ok := routes[r.fibKey(k)]; ok {
					keys = append(keys, r.fibKey(k))
				}
			}
			sort.Slice(keys, func(i, j int) bool { return keys[i].String() < keys[j].String() })
			if len(keys) > 0 {
				key := keys[o.Idx%len(keys)]
				if o.Kind == "oob-del-desired" {
					r.k.RemoveRoute(key)
				} else {
					rt := routes[key]
					rt.Gw = net.ParseIP(map[int]string{4: "192.168.0.250", 6: "fd00:192::fa"}[sc.ipv])
					rt.MTU = 1234
					r.k.PutRoute(rt)
				}
				r.count("oob_edits", 1)
				r.dirty = true
				r.rebaseline()
			}
		case "restart":
			r.count("restarts_requested", 1)
			r.newFelix()
		case "checkpoint":
			r.checkpoint()
		}
		r.count("ops_executed", 1)
	}
	res := runResult{counts: r.k.SeqCounts()}
	if plan != nil {
		res.hits = plan.hits
	}
	return res
}

func run(c *harness.Case) {
	sc := genScenario(c.R, c.Thorough())
	seenKeys := map[string]bool{}
	cnt := map[string]int64{}
	defer func() {
		for n, v := range cnt {
			if v != 0 {
				c.Count(n, v)
			}
		}
	}()
	cnt["cases_policy_"+sc.policy]++
	base := runScenario(c, sc, &faultPlan{Kind: "none"}, seenKeys, cnt)
	cnt["runs_baseline"]++
	if c.Failed() {
		return
	}
	var plans []*faultPlan
	for _, opn := range faultOps {
		for s := 1; s <= base.counts[opn]; s++ {
			ms := modesFor(opn)
			n := 1
			if c.Thorough() && len(ms) > 1 {
				n = 2
			}
			first := c.R.Intn(len(ms))
			for j := 0; j < n; j++ {
				plans = append(plans, &faultPlan{Kind: "single", Op: opn, Seq: s, Mode: ms[(first+j)%len(ms)]})
			}
		}
	}
	cnt["fault_points_enumerated"] += int64(len(plans))
	for j, nExtra := 0, c.Pick(4, 10); j < nExtra; j++ {
		seed := c.R.Int63()
		if j%2 == 0 {
			opn := faultOps[c.R.Intn(len(faultOps))]
			plans = append(plans, &faultPlan{Kind: "burst", Op: opn, Seq: 1 + c.R.Intn(base.counts[opn]+1), BurstLen: 2 + c.R.Intn(8), Seed: seed})
		} else {
			plans = append(plans, &faultPlan{Kind: "random", P: []float64{0.03, 0.1, 0.3}[c.R.Intn(3)], Seed: seed})
		}
	}
	hit := 0
	for _, p := range plans {
		p.rnd = rand.New(rand.NewSource(p.Seed))
		res := runScenario(c, sc, p, seenKeys, cnt)
		cnt["runs_faulted"]++
		if res.hits > 0 {
			hit++
			cnt["runs_fault_hit"]++
		}
		if c.Failed() {
			return
		}
	}
	if hit >= 5 && cnt["desired_keys_checked"] > 0 && cnt["foreign_checked"] > 0 {
		c.NonTrivial(sc.ipv, sc.policy, fmt.Sprintf("%+v %+v %+v", sc.startLinks, sc.startRoutes, sc.ops))
	}
	c.Distinct("start_states", sc.ipv, sc.policy, fmt.Sprintf("%+v %+v", sc.startLinks, sc.startRoutes))
	if c.Index < 3 {
		c.Sample(map[string]any{"ipv": sc.ipv, "policy": sc.policy, "start_links": sc.startLinks, "start_routes": sc.startRoutes, "n_ops": len(sc.ops),
			"fault_runs": len(plans), "baseline_calls": base.counts})
	}
}

func main() {
	logrus.SetOutput(io.Discard)
	logrus.SetLevel(logrus.PanicLevel)
	harness.Main(harness.Check{
		ID:    "C17",
		Level: "fault_enumeration",
		Rule: "a case = PRNG scenario: IPv4/IPv6 RouteTable on the main table with ownershippol.NewMainTable (DeviceRouteProtocol boot/80/90, RemoveExternalRoutes, ProgramIPIPClusterRoutes varied) " +
			"or on a dedicated table with ExclusiveOwnershipPolicy; starting kernel = up to 10 links in mixed admin/oper states, foreign routes (other protocols, other tables, other family, same destination with another metric, " +
			"BIRD routes on tunl0 / workload interfaces, RTPROT_BOOT on the host NIC) and stale Felix routes; history of 8-34 ops: SetRoutes/RouteUpdate/RouteRemove over 11 (class, interface) pairs with conflicting CIDRs, " +
			"link delete/recreate (new ifindex)/down/up/flap with interface events delivered at once or late, QueueResync, Apply, virtual time, out-of-band route edits, restarts, checkpoints. " +
			"Executed fault-free, then once per netlink call of that run (connect, set-timeout, link list/get, route dump, replace, delete, neigh set) with that call failing, then bursts and random multi-faults. " +
			"non-trivial = >=5 fault runs hit, >=1 desired key and >=1 foreign route compared; distinct by scenario",
		Assumptions: []string{
			"verif/internal/fakenl models rtnetlink: FIB keyed by (family, table, prefix, tos, metric; IPv6 metric 0 = 1024), RouteReplace creates-or-replaces and needs an existing, admin-up device, RTM_DELROUTE wildcards, route flush on link down/delete, fresh ifindex on re-creation, ENODEV for a dump filtered on a missing device in strict mode, EINTR dumps",
			"not modelled by fakenl: gateway reachability, connected routes/addresses, multipath validation, rules, real socket timeouts (a timeout is an injected error and the write is then NOT applied), concurrent netlink clients",
			"the repo's felix/netlinkshim/mocknetlink was not used: its methods contain gomega assertions, RouteDel succeeds for missing routes and links do not flush routes",
			"the reference ownership rule is re-implemented from the documentation of ownershippol; foreign routes never use exactly the FIB key of a desired route (Felix replaces those by design)",
			"felix/routetable imports libbpf: built with CGO_ENABLED=0, so no race detector (the conntrack cleanup goroutines are therefore not race-checked)",
			"interface events are delivered in kernel order (possibly late, never reordered or coalesced)",
		},
		Cases: func(tier string) int {
			if tier == "thorough" {
				return 6000
			}
			return 400
		},
		Run:         run,
		CaseTimeout: 15 * time.Minute,
		Floors: map[string]int64{
			"apply_ok": 3000, "d_checks": 2000, "checkpoints": 700, "s_checks": 3000, "desired_keys_checked": 5000, "foreign_checked": 5000, "owned_checked": 2000,
			"calls_route-replace": 2500, "calls_route-del": 800, "calls_route-list": 1500, "calls_link-list": 1500, "calls_new-handle": 1000, "calls_link-by-name": 100,
			"faults_route-replace": 120, "faults_route-del": 50, "faults_route-list": 60, "faults_link-list": 60, "faults_new-handle": 70, "faults_set-timeout": 60, "faults_link-by-name": 8,
			"link_ops": 700, "link_flaps": 150, "iface_events": 600, "oob_edits": 600, "apply_gave_up": 5, "cases_policy_exclusive": 5,
		},
	})
}

// C28 — exactly one of Felix / BIRD programs each IP pool's cluster routes.
//
// Exhaustive over: Felix raw value {Enabled, Disabled, EnabledIPIPOnly, EnabledNoEncapOnly, absent,
// unrecognised, wrong-case} x the Felix config source that carries it (6) x BGPConfiguration raw value
// {the four, field absent, resource absent, unrecognised, wrong-case} x pool {v4: VXLAN Always, VXLAN
// CrossSubnet, IPIP Always, IPIP CrossSubnet, unencapsulated; v6: VXLAN Always, VXLAN CrossSubnet,
// unencapsulated}.
//
// BIRD side (real code): the v3 pool is converted by the real IPPool update processor, entered into a
// confd client cache through updateCache and rendered by the real processIPPools (verif export);
// the kernel-programming filter statements are then evaluated, in order, first match wins, final
// `accept` as in the BIRD template, on a block route inside the pool.  clusterRoutePolicyFromBGPConfig
// is also read directly.
// Felix side (real code): felix/config parses the value from the chosen source; ProgramIPIPClusterRoutes
// / ProgramNoEncapClusterRoutes; felix/calc EncapsulationCalculator (startup path, v3 pools) and
// EncapsulationResolver (syncer path, v1 pools) give IPIPEnabled / VXLANEnabled(V6) / NoEncapNeeded.
// "Felix programs the pool's cluster routes" is then the gate that felix/dataplane/driver.go copies
// into the dataplane config and int_dataplane.go / ipip_mgr.go apply:
//
//	VXLAN pool:   VXLANEnabled (v4) / VXLANEnabledV6 (v6)
//	IPIP pool:    IPIPEnabled && ProgramIPIPClusterRoutes
//	no-encap:     ProgramNoEncapClusterRoutes && NoEncapNeeded
//
// The route managers of felix/dataplane/linux themselves are NOT run here (that package builds only
// with CGO off); this is stated in the assumptions.
//
// Oracle (statement + design/cluster-route-programming/DESIGN.md):
//   - VXLAN pool: Felix programs, BIRD rejects — for every pairing.
//   - effective value = the raw value if it is one of the four (exact spelling), else that side's
//     default (Felix EnabledIPIPOnly, BIRD EnabledNoEncapOnly).  For the four supported pairings
//     (IPIPOnly/NoEncapOnly, Enabled/Disabled, Disabled/Enabled, NoEncapOnly/IPIPOnly) the IPIP and
//     unencapsulated pools are programmed by exactly one side, the one whose value names the class.
//
// History dimension: the same oracle is applied after every step of histories driven through ONE confd
// client (onUpdates: BGPConfiguration set / changed / deleted, pools removed / re-added) and ONE Felix Config
// (UpdateFrom: value set in a source, later removed from it), so that state left behind by an earlier
// setting is observed.  The Felix encapsulation resolver is rebuilt at each step (Felix restarts on such a
// change); the Config object persists.
//
// Deliberately not checked:
//   - unsupported pairings (the design says they double-program or leave a class unprogrammed): only the
//     VXLAN clause is judged; what each side did is counted as "observed".
//   - wrong-case spellings: Felix's oneof parser is case-insensitive, confd compares exactly; the statement
//     does not say which is right.  Each side must merely behave as for the canonical value or as for its
//     default; the pair is not judged (VXLAN clause still is).
//   - krt_tunnel settings, the BGP export filters, WireGuard peer rejects, a node whose own IPv4 subnet is
//     unknown (processIPPools then emits no v4 kernel filter at all), IPIP on IPv6 pools and pools with
//     both encapsulations (rejected by API validation).
package main

import (
	"fmt"
	"io"
	"net"
	"os"
	"path/filepath"
	"regexp"
	"strings"

	apiv3 "github.com/projectcalico/api/pkg/apis/projectcalico/v3"
	"github.com/sirupsen/logrus"
	metav1 "k8s.io/apimachinery/pkg/apis/meta/v1"

	confdcalico "github.com/projectcalico/calico/confd/pkg/backends/calico"
	"github.com/projectcalico/calico/felix/calc"
	"github.com/projectcalico/calico/felix/config"
	"github.com/projectcalico/calico/libcalico-go/lib/backend/api"
	"github.com/projectcalico/calico/libcalico-go/lib/backend/model"
	"github.com/projectcalico/calico/libcalico-go/lib/backend/syncersv1/updateprocessors"

	"verif/internal/harness"
)

var enum = []string{"Enabled", "Disabled", "EnabledIPIPOnly", "EnabledNoEncapOnly"}

// the classes each value names (design doc §1)
func includes(v string, class string) bool {
	switch v {
	case "Enabled":
		return true
	case "EnabledIPIPOnly":
		return class == "ipip"
	case "EnabledNoEncapOnly":
		return class == "noencap"
	}
	return false
}

const felixDefault = "EnabledIPIPOnly"
const birdDefault = "EnabledNoEncapOnly"

var supported = map[[2]string]bool{
	{"EnabledIPIPOnly", "EnabledNoEncapOnly"}: true,
	{"Enabled", "Disabled"}:                   true,
	{"Disabled", "Enabled"}:                   true,
	{"EnabledNoEncapOnly", "EnabledIPIPOnly"}: true,
}

type rawKind int

const (
	rkExact rawKind = iota
	rkAbsent
	rkAbsentResource // BGP only: no default BGPConfiguration at all
	rkUnrecognised
	rkWrongCase
)

type rawVal struct {
	kind  rawKind
	text  string // as written
	canon string // for exact / wrong-case: the enum value meant
}

func (r rawVal) String() string {
	switch r.kind {
	case rkAbsent:
		return "<absent>"
	case rkAbsentResource:
		return "<no resource>"
	}
	return r.text
}

func wrongCase(c *harness.Case, v string) string {
	for try := 0; try < 20; try++ {
		var s string
		switch c.R.Intn(3) {
		case 0:
			s = strings.ToLower(v)
		case 1:
			s = strings.ToUpper(v)
		default:
			b := []byte(v)
			for i := range b {
				if c.R.Intn(2) == 0 {
					b[i] = strings.ToLower(string(b[i]))[0]
				} else {
					b[i] = strings.ToUpper(string(b[i]))[0]
				}
			}
			s = string(b)
		}
		if s != v {
			return s
		}
	}
	return strings.ToLower(v)
}

var unrecognised = []string{"SomethingFromANewerAPI", "EnabledVXLANOnly", "On", "IPIPOnly", "Enabled ", "enabled-ipip-only"}

type poolSpec struct {
	ipver int
	class string // vxlan | ipip | noencap
	ipip  apiv3.IPIPMode
	vxlan apiv3.VXLANMode
	name  string
}

var poolSpecs = []poolSpec{
	{4, "vxlan", "", apiv3.VXLANModeAlways, "v4-vxlan-always"},
	{4, "vxlan", "", apiv3.VXLANModeCrossSubnet, "v4-vxlan-crosssubnet"},
	{4, "ipip", apiv3.IPIPModeAlways, "", "v4-ipip-always"},
	{4, "ipip", apiv3.IPIPModeCrossSubnet, "", "v4-ipip-crosssubnet"},
	{4, "noencap", "", "", "v4-noencap"},
	{6, "vxlan", "", apiv3.VXLANModeAlways, "v6-vxlan-always"},
	{6, "vxlan", "", apiv3.VXLANModeCrossSubnet, "v6-vxlan-crosssubnet"},
	{6, "noencap", "", "", "v6-noencap"},
}

var felixSources = []config.Source{config.InternalOverride, config.EnvironmentVariable, config.ConfigFile,
	config.DatastorePerHost, config.DatastorePerSelector, config.DatastoreGlobal}

const (
	nFelixRaw = 7
	nBGPRaw   = 8
	nBase     = nFelixRaw * 6 * nBGPRaw * 8
)

type encapCB struct {
	last config.Encapsulation
	n    int
}

func (e *encapCB) OnEncapUpdate(enc config.Encapsulation) { e.last = enc; e.n++ }

var stmtRe = regexp.MustCompile(`^\s*if \(net ~ ([0-9a-fA-F:./]+)\) then \{ (.*?)\s*(accept|reject); \}(\s*#.*)?$`)

// birdKernelVerdict evaluates BIRD's calico_kernel_programming filter (pool part) on a route.
func birdKernelVerdict(stmts []string, route *net.IPNet) (accept bool, matched string, err error) {
	for _, s := range stmts {
		m := stmtRe.FindStringSubmatch(s)
		if m == nil {
			return false, "", fmt.Errorf("cannot parse filter statement %q", s)
		}
		_, cidr, e := net.ParseCIDR(m[1])
		if e != nil {
			return false, "", fmt.Errorf("bad CIDR in %q", s)
		}
		po, _ := cidr.Mask.Size()
		ro, _ := route.Mask.Size()
		if cidr.Contains(route.IP) && ro >= po { // BIRD `net ~ prefix`: net is a subnet of prefix
			return m[3] == "accept", s, nil
		}
	}
	return true, "<final accept>", nil // template: `accept;` after the pool statements
}

func makeV3Pool(i int, ps poolSpec, c *harness.Case) *apiv3.IPPool {
	p := apiv3.NewIPPool()
	p.Name = fmt.Sprintf("pool-%d-%s", i, ps.name)
	if ps.ipver == 4 {
		p.Spec.CIDR = fmt.Sprintf("10.%d.0.0/16", 10+i)
	} else {
		p.Spec.CIDR = fmt.Sprintf("fd00:%d::/64", 10+i)
	}
	p.Spec.IPIPMode, p.Spec.VXLANMode = ps.ipip, ps.vxlan
	// "Never" and unset mean the same; use both spellings
	if p.Spec.IPIPMode == "" && c.R.Intn(2) == 0 {
		p.Spec.IPIPMode = apiv3.IPIPModeNever
	}
	if p.Spec.VXLANMode == "" && c.R.Intn(2) == 0 {
		p.Spec.VXLANMode = apiv3.VXLANModeNever
	}
	p.Spec.NATOutgoing = c.R.Intn(2) == 0
	p.Spec.DisableBGPExport = c.R.Intn(4) == 0
	p.Spec.BlockSize = 26
	if ps.ipver == 6 {
		p.Spec.BlockSize = 122
	}
	return p
}

func nSingle(tier string) int {
	if tier == "thorough" {
		return nBase * 25
	}
	return nBase
}

func run(c *harness.Case) {
	if c.Index >= nSingle(c.Tier) {
		runHistory(c, c.Index-nSingle(c.Tier))
		return
	}
	base := c.Index % nBase
	fi := base % nFelixRaw
	si := base / nFelixRaw % 6
	bi := base / (nFelixRaw * 6) % nBGPRaw
	pi := base / (nFelixRaw * 6 * nBGPRaw) % 8
	rep := c.Index / nBase

	// ---- raw values
	var fr, br rawVal
	switch {
	case fi < 4:
		fr = rawVal{rkExact, enum[fi], enum[fi]}
	case fi == 4:
		fr = rawVal{kind: rkAbsent}
	case fi == 5:
		fr = rawVal{rkUnrecognised, unrecognised[c.R.Intn(len(unrecognised))], ""}
	default:
		v := enum[c.R.Intn(4)]
		fr = rawVal{rkWrongCase, wrongCase(c, v), v}
	}
	switch {
	case bi < 4:
		br = rawVal{rkExact, enum[bi], enum[bi]}
	case bi == 4:
		br = rawVal{kind: rkAbsent}
	case bi == 5:
		br = rawVal{kind: rkAbsentResource}
	case bi == 6:
		br = rawVal{rkUnrecognised, unrecognised[c.R.Intn(len(unrecognised))], ""}
	default:
		v := enum[c.R.Intn(4)]
		br = rawVal{rkWrongCase, wrongCase(c, v), v}
	}
	src := felixSources[si]

	// ---- pools: the enumerated one plus (repetitions > 0, or PRNG) other pools around it
	specs := []poolSpec{poolSpecs[pi]}
	extra := 0
	if rep > 0 || c.R.Intn(3) == 0 {
		extra = c.R.Intn(4)
	}
	for k := 0; k < extra; k++ {
		specs = append(specs, poolSpecs[c.R.Intn(len(poolSpecs))])
	}
	c.NonTrivial(fr.String(), int(src), br.String(), poolSpecs[pi].name, rep, extra)

	var v3pools []*apiv3.IPPool
	var v3kvs, v1kvs []*model.KVPair
	proc := updateprocessors.NewIPPoolUpdateProcessor()
	for i, ps := range specs {
		p := makeV3Pool(i, ps, c)
		v3pools = append(v3pools, p)
		kv := &model.KVPair{Key: model.ResourceKey{Kind: apiv3.KindIPPool, Name: p.Name}, Value: p, Revision: "1"}
		v3kvs = append(v3kvs, &model.KVPair{Value: p.DeepCopy()}) // as from a client List(): nil key
		out, err := proc.Process(kv)
		if err != nil || len(out) != 1 || out[0].Value == nil {
			c.Inconclusive("pool-conversion-failed")
			return
		}
		v1kvs = append(v1kvs, out[0])
	}

	detail := map[string]any{"felix_value": fr.String(), "felix_source": src.String(), "bgp_value": br.String()}
	var pd []string
	for _, p := range v3pools {
		pd = append(pd, fmt.Sprintf("%s ipip=%q vxlan=%q", p.Spec.CIDR, p.Spec.IPIPMode, p.Spec.VXLANMode))
	}
	detail["pools"] = pd
	if c.Index%397 == 0 {
		c.Sample(detail)
	}

	// ---- Felix side
	cfg := config.New()
	key := "ProgramClusterRoutes"
	if src == config.EnvironmentVariable {
		key = strings.ToLower(key)
	} else if c.R.Intn(3) == 0 {
		key = strings.ToLower(key)
	}
	// sometimes a shadowed lower-priority value that must not matter
	if si < 5 && fr.kind != rkAbsent && c.R.Intn(3) == 0 {
		lower := felixSources[si+1+c.R.Intn(5-si)]
		if _, err := cfg.UpdateFrom(map[string]string{"ProgramClusterRoutes": enum[c.R.Intn(4)]}, lower); err != nil {
			c.Inconclusive("felix-config-error")
			return
		}
		c.Count("felix_shadowed_values", 1)
	}
	if fr.kind != rkAbsent {
		if _, err := cfg.UpdateFrom(map[string]string{key: fr.text}, src); err != nil {
			c.Violationf("felix-config-error", detail, "Felix config rejected ProgramClusterRoutes=%q from %v: %v (the parameter is not die-on-fail)", fr.text, src, err)
			return
		}
	}
	c.Count("felix_config_parses", 1)
	fIPIP, fNoEncap := cfg.ProgramIPIPClusterRoutes(), cfg.ProgramNoEncapClusterRoutes()

	// startup path: calculator over v3 pools
	calcA := calc.NewEncapsulationCalculator(cfg, &model.KVPairList{KVPairs: v3kvs})
	encA := config.Encapsulation{IPIPEnabled: calcA.IPIPEnabled(), VXLANEnabled: calcA.VXLANEnabled(),
		VXLANEnabledV6: calcA.VXLANEnabledV6(), NoEncapNeeded: calcA.NoEncapNeeded()}
	// syncer path: resolver over v1 pools, in PRNG order, in-sync at a PRNG point
	cb := &encapCB{}
	res := calc.NewEncapsulationResolver(cfg, cb)
	order := c.R.Perm(len(v1kvs))
	syncAt := c.R.Intn(len(order) + 1)
	for n, i := range order {
		if n == syncAt {
			res.OnStatusUpdate(api.InSync)
		}
		res.OnPoolUpdate(api.Update{KVPair: *v1kvs[i], UpdateType: api.UpdateTypeKVNew})
	}
	if syncAt == len(order) {
		res.OnStatusUpdate(api.InSync)
	}
	if cb.n == 0 {
		c.Inconclusive("resolver-never-reported")
		return
	}
	encB := cb.last
	c.Count("encap_calculations", 2)

	// ---- BIRD side
	var bgpCfg *apiv3.BGPConfiguration
	if br.kind != rkAbsentResource {
		bgpCfg = apiv3.NewBGPConfiguration()
		bgpCfg.ObjectMeta = metav1.ObjectMeta{Name: "default"}
		if br.kind != rkAbsent {
			s := br.text
			bgpCfg.Spec.ProgramClusterRoutes = &s
		}
	}
	bIPIP, bNoEncap := confdcalico.VerifClusterRoutePolicy(bgpCfg)
	birdStmts := map[int][]string{}
	for _, ver := range []int{4, 6} {
		var kvs []*model.KVPair
		for i, ps := range specs {
			if ps.ipver == ver {
				kvs = append(kvs, v1kvs[i])
			}
		}
		bc, err := confdcalico.VerifProcessIPPools("verif-node", kvs, "192.168.7.0/24", bgpCfg, ver)
		if err != nil {
			c.Inconclusive("processIPPools-error")
			return
		}
		birdStmts[ver] = bc.KernelFilterForIPPools
		c.Count("bird_filter_statements", int64(len(bc.KernelFilterForIPPools)))
	}

	judgeState(c, &observed{fr: fr, br: br, specs: specs, v3pools: v3pools, pd: pd, fIPIP: fIPIP, fNoEncap: fNoEncap,
		encA: encA, encB: encB, bIPIP: bIPIP, bNoEncap: bNoEncap, birdStmts: birdStmts, detail: detail})
}

// observed is everything the oracle looks at for one (current) state.
type observed struct {
	fr, br          rawVal
	specs           []poolSpec
	v3pools         []*apiv3.IPPool
	pd              []string
	fIPIP, fNoEncap bool
	encA, encB      config.Encapsulation
	bIPIP, bNoEncap bool
	birdStmts       map[int][]string
	detail          map[string]any
}

// judgeState applies the oracle to one observed (current) state.  It returns false when a violation or
// an inconclusive verdict has been recorded.
func judgeState(c *harness.Case, o *observed) bool {
	fr, br, specs, v3pools, pd := o.fr, o.br, o.specs, o.v3pools, o.pd
	fIPIP, fNoEncap, bIPIP, bNoEncap := o.fIPIP, o.fNoEncap, o.bIPIP, o.bNoEncap
	encA, encB, birdStmts, detail := o.encA, o.encB, o.birdStmts, o.detail
	felixPrograms := func(enc config.Encapsulation, ps poolSpec) bool {
		switch ps.class {
		case "vxlan":
			if ps.ipver == 6 {
				return enc.VXLANEnabledV6
			}
			return enc.VXLANEnabled
		case "ipip":
			return enc.IPIPEnabled && fIPIP
		default:
			return fNoEncap && enc.NoEncapNeeded
		}
	}

	// ---- effective values by the statement
	eff := func(r rawVal, def string) (string, bool) {
		switch r.kind {
		case rkExact:
			return r.canon, true
		case rkAbsent, rkAbsentResource, rkUnrecognised:
			return def, true
		}
		return "", false // wrong case: not judged pairwise
	}
	fEff, fOK := eff(fr, felixDefault)
	bEff, bOK := eff(br, birdDefault)
	detail["felix_effective"], detail["bgp_effective"] = fEff, bEff
	detail["felix_programs_ipip"], detail["felix_programs_noencap"] = fIPIP, fNoEncap
	detail["bird_policy_ipip"], detail["bird_policy_noencap"] = bIPIP, bNoEncap

	// side sanity for wrong-case spellings: canonical or default
	if fr.kind == rkWrongCase {
		c.Count("wrong_case_felix", 1)
		asCanon := fIPIP == includes(fr.canon, "ipip") && fNoEncap == includes(fr.canon, "noencap")
		asDef := fIPIP == includes(felixDefault, "ipip") && fNoEncap == includes(felixDefault, "noencap")
		if !asCanon && !asDef {
			c.Violationf("felix-wrong-case-neither-canonical-nor-default", detail, "Felix value %q: programs ipip=%v noencap=%v is neither %s nor the default", fr.text, fIPIP, fNoEncap, fr.canon)
			return false
		}
	}
	if br.kind == rkWrongCase {
		c.Count("wrong_case_bgp", 1)
		asCanon := bIPIP == includes(br.canon, "ipip") && bNoEncap == includes(br.canon, "noencap")
		asDef := bIPIP == includes(birdDefault, "ipip") && bNoEncap == includes(birdDefault, "noencap")
		if !asCanon && !asDef {
			c.Violationf("bgp-wrong-case-neither-canonical-nor-default", detail, "BGP value %q: policy ipip=%v noencap=%v is neither %s nor the default", br.text, bIPIP, bNoEncap, br.canon)
			return false
		}
	}
	pairJudged := fOK && bOK && supported[[2]string{fEff, bEff}]
	if fOK && bOK {
		if pairJudged {
			c.Count("supported_pairings", 1)
			c.Distinct("supported_pairing_forms", fr.String(), br.String())
		} else {
			c.Count("unsupported_pairings_observed", 1)
		}
	}

	// ---- judge every pool
	for i, ps := range specs {
		_, cidr, _ := net.ParseCIDR(v3pools[i].Spec.CIDR)
		// a remote block inside the pool
		blockIP := append(net.IP(nil), cidr.IP...)
		bits := 26
		if ps.ipver == 4 {
			blockIP[len(blockIP)-2] = byte(1 + c.R.Intn(200))
			blockIP[len(blockIP)-1] = byte(64 * c.R.Intn(4))
		} else {
			bits = 122
			blockIP[len(blockIP)-1] = byte(64 * c.R.Intn(4))
			blockIP[len(blockIP)-2] = byte(c.R.Intn(256))
		}
		route := &net.IPNet{IP: blockIP, Mask: net.CIDRMask(bits, len(blockIP)*8)}
		bird, matched, err := birdKernelVerdict(birdStmts[ps.ipver], route)
		if err != nil {
			detail["unparsed"] = err.Error()
			c.Inconclusive("unparsed-bird-statement")
			return false
		}
		fA, fB := felixPrograms(encA, ps), felixPrograms(encB, ps)
		pdz := map[string]any{}
		for k, v := range detail {
			pdz[k] = v
		}
		pdz["pool"] = pd[i]
		pdz["route"] = route.String()
		pdz["bird_statement"] = matched
		pdz["bird_programs"] = bird
		pdz["felix_programs_startup_path"] = fA
		pdz["felix_programs_syncer_path"] = fB
		c.Count("pools_judged", 1)
		c.Count("pools_"+ps.class, 1)
		if ps.class == "vxlan" {
			c.Count("vxlan_clause_checks", 1)
			if !fA || !fB || bird {
				c.Violationf("vxlan-pool-not-felix-only", pdz, "VXLAN pool %s under Felix=%s BGP=%s: Felix programs (startup=%v, syncer=%v), BIRD accepts=%v (%s); must be Felix only",
					v3pools[i].Spec.CIDR, fr, br, fA, fB, bird, matched)
				return false
			}
			continue
		}
		if !pairJudged {
			if fOK && bOK {
				switch {
				case fA && bird:
					c.Count("observed_double_programmed", 1)
				case !fA && !bird:
					c.Count("observed_unprogrammed", 1)
				}
			}
			continue
		}
		c.Count("exactly_one_checks", 1)
		wantFelix := includes(fEff, ps.class)
		wantBird := includes(bEff, ps.class) // == !wantFelix for supported pairings
		switch {
		case fA != fB:
			c.Violationf("felix-paths-disagree", pdz, "%s pool %s: Felix startup path says %v, syncer path says %v", ps.class, v3pools[i].Spec.CIDR, fA, fB)
			return false
		case fA && bird:
			c.Violationf("double-programmed", pdz, "%s pool %s under supported pairing Felix=%s(%s) BGP=%s(%s): BOTH Felix and BIRD program its cluster routes (%s)",
				ps.class, v3pools[i].Spec.CIDR, fr, fEff, br, bEff, matched)
			return false
		case !fA && !bird:
			c.Violationf("unprogrammed", pdz, "%s pool %s under supported pairing Felix=%s(%s) BGP=%s(%s): NEITHER Felix nor BIRD programs its cluster routes (%s)",
				ps.class, v3pools[i].Spec.CIDR, fr, fEff, br, bEff, matched)
			return false
		case fA != wantFelix || bird != wantBird:
			c.Violationf("wrong-owner", pdz, "%s pool %s under Felix=%s(%s) BGP=%s(%s): programmed by Felix=%v BIRD=%v, the pairing assigns Felix=%v BIRD=%v",
				ps.class, v3pools[i].Spec.CIDR, fr, fEff, br, bEff, fA, bird, wantFelix, wantBird)
			return false
		}
	}
	return true
}

// ---------------------------------------------------------------- histories on long-lived objects

// A form is how one side's setting is expressed at one moment.
type form struct {
	kind rawKind
	val  string // enum value for rkExact
}

type formPair struct{ felix, bgp form }

func (f form) raw(c *harness.Case) rawVal {
	switch f.kind {
	case rkExact:
		return rawVal{rkExact, f.val, f.val}
	case rkUnrecognised:
		return rawVal{rkUnrecognised, unrecognised[c.R.Intn(len(unrecognised))], ""}
	}
	return rawVal{kind: f.kind}
}

func (f form) eff(def string) string {
	if f.kind == rkExact {
		return f.val
	}
	return def
}

// supportedForms: every (Felix form, BGP form) whose effective pairing is one of the four supported ones:
// the four explicit pairings plus every way of spelling the default pairing with absent (Felix value
// absent; BGP field absent or resource absent) and unrecognised values.  allForms: the full 6 x 7 square.
var supportedForms, allForms []formPair

func init() {
	var ff, bf []form
	for _, v := range enum {
		ff = append(ff, form{rkExact, v})
		bf = append(bf, form{rkExact, v})
	}
	ff = append(ff, form{kind: rkAbsent}, form{kind: rkUnrecognised})
	bf = append(bf, form{kind: rkAbsent}, form{kind: rkAbsentResource}, form{kind: rkUnrecognised})
	for _, f := range ff {
		for _, b := range bf {
			fp := formPair{f, b}
			allForms = append(allForms, fp)
			if supported[[2]string{f.eff(felixDefault), b.eff(birdDefault)}] {
				supportedForms = append(supportedForms, fp)
			}
		}
	}
}

func nHistoryPairs() int { return len(supportedForms) * len(supportedForms) }

// runHistory drives ONE confd client (through onUpdates) and ONE Felix Config (through UpdateFrom) through a
// history of setting changes - set, change, delete of the default BGPConfiguration; Felix value set in a
// source and later removed from it; pools removed and re-added - and judges the CURRENT state after every
// step with the same oracle as the single-shot cases.  History h enumerates the ordered pair
// (previous supported form pair -> current supported form pair) = h mod 15*15; repetitions add PRNG steps.
func runHistory(c *harness.Case, h int) {
	nS := len(supportedForms)
	pair := h % (nS * nS)
	rep := h / (nS * nS)
	steps := []formPair{supportedForms[pair/nS], supportedForms[pair%nS]}
	if rep > 0 {
		// a PRNG prefix (any pairing, also unsupported ones) and sometimes a return to the first state
		for n := 1 + c.R.Intn(2); n > 0; n-- {
			steps = append([]formPair{allForms[c.R.Intn(len(allForms))]}, steps...)
		}
		if c.R.Intn(2) == 0 {
			steps = append(steps, supportedForms[c.R.Intn(nS)])
		}
	}
	c.NonTrivial("history", pair, rep)
	c.Count("history_cases", 1)

	client := confdcalico.VerifNewClient("verif-node", "192.168.7.0/24")
	cfg := config.New()
	proc := updateprocessors.NewIPPoolUpdateProcessor()

	type livePool struct {
		spec    poolSpec
		v3      *apiv3.IPPool
		v1      *model.KVPair
		present bool
	}
	var pools []*livePool
	for i, ps := range poolSpecs {
		p := makeV3Pool(i, ps, c)
		out, err := proc.Process(&model.KVPair{Key: model.ResourceKey{Kind: apiv3.KindIPPool, Name: p.Name}, Value: p, Revision: "1"})
		if err != nil || len(out) != 1 || out[0].Value == nil {
			c.Inconclusive("pool-conversion-failed")
			return
		}
		pools = append(pools, &livePool{spec: ps, v3: p, v1: out[0], present: true})
		client.OnUpdates([]api.Update{{KVPair: *out[0], UpdateType: api.UpdateTypeKVNew}})
	}

	bgpKey := model.ResourceKey{Kind: apiv3.KindBGPConfiguration, Name: "default"}
	bgpPresent := false
	var felixSrc config.Source
	felixSet := false
	var log []string

	for si, st := range steps {
		fr, br := st.felix.raw(c), st.bgp.raw(c)
		// ---- Felix: the value disappears from the source that carried it, and (maybe) appears in a source
		if felixSet && (fr.kind == rkAbsent || c.R.Intn(2) == 0) {
			if _, err := cfg.UpdateFrom(map[string]string{}, felixSrc); err != nil {
				c.Inconclusive("felix-config-error")
				return
			}
			felixSet = false
			c.Count("felix_value_removals", 1)
		}
		if fr.kind != rkAbsent {
			src := felixSrc
			if !felixSet {
				src = felixSources[c.R.Intn(len(felixSources))]
			}
			key := "ProgramClusterRoutes"
			if src == config.EnvironmentVariable {
				key = strings.ToLower(key)
			}
			if _, err := cfg.UpdateFrom(map[string]string{key: fr.text}, src); err != nil {
				c.Violationf("felix-config-error", map[string]any{"history": log}, "Felix config rejected ProgramClusterRoutes=%q from %v: %v", fr.text, src, err)
				return
			}
			felixSrc, felixSet = src, true
		}
		// ---- confd: set / change / delete the default BGPConfiguration on the same client
		if br.kind == rkAbsentResource {
			if bgpPresent {
				client.OnUpdates([]api.Update{{KVPair: model.KVPair{Key: bgpKey}, UpdateType: api.UpdateTypeKVDeleted}})
				bgpPresent = false
				c.Count("bgp_resource_deletions", 1)
			}
		} else {
			b := apiv3.NewBGPConfiguration()
			b.ObjectMeta = metav1.ObjectMeta{Name: "default"}
			if br.kind != rkAbsent {
				v := br.text
				b.Spec.ProgramClusterRoutes = &v
			}
			ut := api.UpdateTypeKVNew
			if bgpPresent {
				ut = api.UpdateTypeKVUpdated
			}
			client.OnUpdates([]api.Update{{KVPair: model.KVPair{Key: bgpKey, Value: b, Revision: fmt.Sprint(si + 2)}, UpdateType: ut}})
			bgpPresent = true
			c.Count("bgp_resource_writes", 1)
		}
		// ---- pool churn
		if c.R.Intn(3) == 0 {
			lp := pools[c.R.Intn(len(pools))]
			if lp.present {
				client.OnUpdates([]api.Update{{KVPair: model.KVPair{Key: lp.v1.Key}, UpdateType: api.UpdateTypeKVDeleted}})
				lp.present = false
			} else {
				client.OnUpdates([]api.Update{{KVPair: *lp.v1, UpdateType: api.UpdateTypeKVNew}})
				lp.present = true
			}
			c.Count("pool_changes", 1)
		}
		log = append(log, fmt.Sprintf("step %d: Felix=%s (source %v, set=%v)  BGP=%s", si, fr, felixSrc, felixSet, br))

		// ---- observe the current state
		o := &observed{fr: fr, br: br, birdStmts: map[int][]string{}}
		var v3kvs []*model.KVPair
		cb := &encapCB{}
		res := calc.NewEncapsulationResolver(cfg, cb) // Felix restarts on such a change; the Config object persists
		for _, lp := range pools {
			if !lp.present {
				continue
			}
			o.specs = append(o.specs, lp.spec)
			o.v3pools = append(o.v3pools, lp.v3)
			o.pd = append(o.pd, fmt.Sprintf("%s ipip=%q vxlan=%q", lp.v3.Spec.CIDR, lp.v3.Spec.IPIPMode, lp.v3.Spec.VXLANMode))
			v3kvs = append(v3kvs, &model.KVPair{Value: lp.v3.DeepCopy()})
			res.OnPoolUpdate(api.Update{KVPair: *lp.v1, UpdateType: api.UpdateTypeKVNew})
		}
		res.OnStatusUpdate(api.InSync)
		if cb.n == 0 {
			c.Inconclusive("resolver-never-reported")
			return
		}
		o.encB = cb.last
		calcA := calc.NewEncapsulationCalculator(cfg, &model.KVPairList{KVPairs: v3kvs})
		o.encA = config.Encapsulation{IPIPEnabled: calcA.IPIPEnabled(), VXLANEnabled: calcA.VXLANEnabled(),
			VXLANEnabledV6: calcA.VXLANEnabledV6(), NoEncapNeeded: calcA.NoEncapNeeded()}
		o.fIPIP, o.fNoEncap = cfg.ProgramIPIPClusterRoutes(), cfg.ProgramNoEncapClusterRoutes()
		o.bIPIP, o.bNoEncap = client.ClusterRoutePolicy()
		for _, ver := range []int{4, 6} {
			bc, err := client.ProcessIPPools(ver)
			if err != nil {
				c.Inconclusive("processIPPools-error")
				return
			}
			o.birdStmts[ver] = bc.KernelFilterForIPPools
			c.Count("bird_filter_statements", int64(len(bc.KernelFilterForIPPools)))
		}
		o.detail = map[string]any{"history": append([]string(nil), log...), "felix_value": fr.String(), "bgp_value": br.String(), "pools": o.pd,
			"judged_step": si}
		c.Count("history_steps_judged", 1)
		if !judgeState(c, o) {
			return
		}
	}
	if h < 2 {
		c.Sample(map[string]any{"history": log})
	}
}

func checkTemplates() error {
	repo := os.Getenv("VERIF_REPO")
	if repo == "" {
		repo = "/repo"
	}
	re := regexp.MustCompile(`(?s)filter calico_kernel_programming \{.*range \$line := \$config\.KernelFilterForIPPools \}\}\s*\{\{ \$line \}\}\s*\{\{- end\}\}\s*accept;`)
	for _, f := range []string{"bird_ipam.cfg.template", "bird6_ipam.cfg.template"} {
		b, err := os.ReadFile(filepath.Join(repo, "node/filesystem/etc/calico/confd/templates", f))
		if err != nil {
			return fmt.Errorf("cannot read BIRD template %s: %v", f, err)
		}
		if !re.Match(b) {
			return fmt.Errorf("BIRD template %s no longer has the shape `KernelFilterForIPPools statements; accept;` that the filter evaluator assumes", f)
		}
	}
	return nil
}

func main() {
	logrus.SetOutput(io.Discard)
	logrus.SetLevel(logrus.PanicLevel)
	harness.Main(harness.Check{
		ID:         "C28",
		Level:      "exploration",
		Exhaustive: true,
		Rule: "case i enumerates (Felix raw value: 4 enum values, absent, unrecognised, wrong-case) x (Felix source: 6) x (BGP raw value: 4, field absent, resource absent, unrecognised, wrong-case) x " +
			"(pool: v4 VXLAN Always/CrossSubnet, IPIP Always/CrossSubnet, none; v6 VXLAN Always/CrossSubnet, none) = 2688 combinations; 0-3 further PRNG pools may surround the enumerated one " +
			"(always in the thorough repetitions); every case is non-trivial, distinct by the tuple and its repetition. " +
			"After these single-shot cases come HISTORY cases on one long-lived confd client (onUpdates) and one Felix Config (UpdateFrom): every ordered pair (previous -> current) of the 15 supported form pairs " +
			"(4 explicit pairings + the default pairing spelled with Felix absent/unrecognised and BGP field absent/resource deleted/unrecognised) = 225 two-step histories, repeated with PRNG prefixes of arbitrary pairings, " +
			"Felix value removed from or moved between sources, BGPConfiguration set / changed / deleted, pools removed and re-added; the current state is judged after every step",
		Assumptions: []string{
			"Felix side = felix/config + felix/calc (EncapsulationCalculator and EncapsulationResolver) combined by the gate expressions of felix/dataplane/driver.go, int_dataplane.go:842 and ipip_mgr.go; the route managers of felix/dataplane/linux are not executed (CGO-off package)",
			"BIRD side = real processIPPools output evaluated by a first-match evaluator of `if (net ~ CIDR) then { ...; accept|reject; }` with the template's trailing `accept;` (template shape verified at start-up); BIRD itself is not run",
			"the node's own IPv4 subnet is known to confd; pools are valid per API validation (no IPIP on IPv6, not both encapsulations)",
			"defaults per design/cluster-route-programming/DESIGN.md: Felix EnabledIPIPOnly, BGP EnabledNoEncapOnly",
		},
		Setup: func(string) error { return checkTemplates() },
		Cases: func(tier string) int {
			if tier == "thorough" {
				return nSingle(tier) + nHistoryPairs()*40
			}
			return nSingle(tier) + nHistoryPairs()*2
		},
		Run: run,
		Floors: map[string]int64{"pools_judged": 2000, "exactly_one_checks": 200, "vxlan_clause_checks": 800, "supported_pairings": 300,
			"bird_filter_statements": 1500, "encap_calculations": 4000, "wrong_case_felix": 100, "wrong_case_bgp": 100,
			"history_cases": 200, "history_steps_judged": 500, "bgp_resource_deletions": 50, "felix_value_removals": 50},
	})
}

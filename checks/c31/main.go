// C31 — per-workload policy sync streams are complete, minimal and ordered.
//
// The real policysync.Processor (its own goroutine, fed through an unbuffered channel exactly as
// felix/daemon wires it) receives the REAL calculation graph's output for a generated datastore
// history (verif/internal/calcgen: ValidationFilter -> CalcGraph -> EventSequencer), every message,
// in order, plus injected ServiceAccount/Namespace updates.  JoinRequests / LeaveRequests for three
// real local workloads and one that never exists are interleaved between (and inside) flushes:
// re-joins with a new UID, joins before the endpoint exists, stale leaves.  One reader goroutine per
// join channel folds what it receives into a per-stream shadow dataplane (verif/internal/shadowdp).
//
// Oracle, per join stream:
//   - ordered: no message references a policy / profile / IP set the stream has not been given, and
//     nothing still referenced is removed (shadowdp reference rules);
//   - its own endpoint only;
//   - complete + minimal: at every barrier (a sentinel ServiceAccount update pushed through the
//     Processor and observed on every live stream) the folded stream equals
//     {own endpoint} ∪ latest versions of exactly the policies, profiles and IP sets the endpoint
//     references (as folded from the main stream) ∪ all service accounts and namespaces;
//   - nothing after it left: a stream that left, was superseded by a re-join or whose endpoint was
//     removed never sees a later sentinel.
//
// Deliberately not checked:
//   - cases in which the calculation graph's own output breaks the ordering contract (that is C02's
//     subject): the case ends "inconclusive: input-contract-broken" at the offending message, which is
//     never forwarded;
//   - removes of things a stream never had, redundant IP set delta entries (harmless to the folded
//     state; counted only); InSync delivery; gRPC message splitting (sets are far below the limit);
//   - the textual form of IP set members (compared after canonicalising "a.b.c.d" = "a.b.c.d/32");
//   - which of a join and a concurrently sent dataplane update the Processor's select picks first:
//     lazily synchronised joins leave that open, but every judgement is made at a point where all
//     outstanding joins have been processed (an endpoint's own update/remove and every barrier wait
//     for the join channel to drain first);
//   - that the channel of a departed stream is actually closed (the statement only forbids sending).
package main

import (
	"fmt"
	"math/rand"
	"net/netip"
	"runtime"
	"sort"
	"strings"
	"sync"
	"time"

	googleproto "google.golang.org/protobuf/proto"

	"github.com/projectcalico/calico/felix/policysync"
	"github.com/projectcalico/calico/felix/proto"
	"github.com/projectcalico/calico/felix/types"

	"verif/internal/calcgen"
	"verif/internal/harness"
	"verif/internal/shadowdp"
)

const barrierNS = "verif-barrier"

// ---------------------------------------------------------------------------------------------
// member canonicalisation

func canonMember(s string) string {
	if i := strings.IndexByte(s, ','); i >= 0 {
		if a, err := netip.ParseAddr(s[:i]); err == nil {
			return a.String() + strings.ToLower(s[i:])
		}
		return strings.ToLower(s)
	}
	if strings.Contains(s, "/") {
		if p, err := netip.ParsePrefix(s); err == nil {
			if p.Bits() == p.Addr().BitLen() {
				return p.Addr().String()
			}
			return p.Masked().String()
		}
		return s
	}
	if a, err := netip.ParseAddr(s); err == nil {
		return a.String()
	}
	return s
}

func canonMembers(in []string) []string {
	out := make([]string, len(in))
	for i, m := range in {
		out[i] = canonMember(m)
	}
	return out
}

// canonIPSetMsg returns msg, or a copy with canonical members if it is an IP set message.
func canonIPSetMsg(msg any) any {
	switch m := msg.(type) {
	case *proto.IPSetUpdate:
		return &proto.IPSetUpdate{Id: m.Id, Type: m.Type, Members: canonMembers(m.Members)}
	case *proto.IPSetDeltaUpdate:
		return &proto.IPSetDeltaUpdate{Id: m.Id, AddedMembers: canonMembers(m.AddedMembers), RemovedMembers: canonMembers(m.RemovedMembers)}
	}
	return msg
}

// ---------------------------------------------------------------------------------------------
// one join stream

type stream struct {
	workload string
	uid      uint64
	ch       chan *proto.ToDataplane

	mu         sync.Mutex
	cond       *sync.Cond
	shadow     *shadowdp.Shadow
	nMsgs      int
	lastBar    int // highest barrier number seen
	closed     bool
	foreign    string // first endpoint id that is not the stream's own
	log        []string
	deadAtBar  int // 0 = alive; otherwise: departed before barrier number deadAtBar was injected
	joinedAtOp int
}

func unwrap(m *proto.ToDataplane) any {
	switch p := m.Payload.(type) {
	case *proto.ToDataplane_InSync:
		return p.InSync
	case *proto.ToDataplane_IpsetUpdate:
		return p.IpsetUpdate
	case *proto.ToDataplane_IpsetDeltaUpdate:
		return p.IpsetDeltaUpdate
	case *proto.ToDataplane_IpsetRemove:
		return p.IpsetRemove
	case *proto.ToDataplane_ActiveProfileUpdate:
		return p.ActiveProfileUpdate
	case *proto.ToDataplane_ActiveProfileRemove:
		return p.ActiveProfileRemove
	case *proto.ToDataplane_ActivePolicyUpdate:
		return p.ActivePolicyUpdate
	case *proto.ToDataplane_ActivePolicyRemove:
		return p.ActivePolicyRemove
	case *proto.ToDataplane_WorkloadEndpointUpdate:
		return p.WorkloadEndpointUpdate
	case *proto.ToDataplane_WorkloadEndpointRemove:
		return p.WorkloadEndpointRemove
	case *proto.ToDataplane_ServiceAccountUpdate:
		return p.ServiceAccountUpdate
	case *proto.ToDataplane_ServiceAccountRemove:
		return p.ServiceAccountRemove
	case *proto.ToDataplane_NamespaceUpdate:
		return p.NamespaceUpdate
	case *proto.ToDataplane_NamespaceRemove:
		return p.NamespaceRemove
	}
	return nil
}

func describe(msg any) string {
	switch m := msg.(type) {
	case *proto.IPSetUpdate:
		return "IPSetUpdate " + m.Id
	case *proto.IPSetDeltaUpdate:
		return "IPSetDeltaUpdate " + m.Id
	case *proto.IPSetRemove:
		return "IPSetRemove " + m.Id
	case *proto.ActivePolicyUpdate:
		return "ActivePolicyUpdate " + shadowdp.PolicyKey(m.Id)
	case *proto.ActivePolicyRemove:
		return "ActivePolicyRemove " + shadowdp.PolicyKey(m.Id)
	case *proto.ActiveProfileUpdate:
		return "ActiveProfileUpdate " + m.Id.GetName()
	case *proto.ActiveProfileRemove:
		return "ActiveProfileRemove " + m.Id.GetName()
	case *proto.WorkloadEndpointUpdate:
		return "WorkloadEndpointUpdate " + m.Id.GetWorkloadId()
	case *proto.WorkloadEndpointRemove:
		return "WorkloadEndpointRemove " + m.Id.GetWorkloadId()
	case *proto.ServiceAccountUpdate:
		return "ServiceAccountUpdate " + m.Id.GetNamespace() + "/" + m.Id.GetName()
	case *proto.ServiceAccountRemove:
		return "ServiceAccountRemove " + m.Id.GetNamespace() + "/" + m.Id.GetName()
	case *proto.NamespaceUpdate:
		return "NamespaceUpdate " + m.Id.GetName()
	case *proto.NamespaceRemove:
		return "NamespaceRemove " + m.Id.GetName()
	case *proto.InSync:
		return "InSync"
	}
	return fmt.Sprintf("%T", msg)
}

// read is the stream's reader goroutine.
func (s *stream) read() {
	for m := range s.ch {
		inner := unwrap(m)
		s.mu.Lock()
		s.nMsgs++
		if inner == nil {
			s.log = append(s.log, fmt.Sprintf("unexpected payload %T", m.Payload))
			s.mu.Unlock()
			continue
		}
		if len(s.log) < 400 {
			s.log = append(s.log, describe(inner))
		}
		switch x := inner.(type) {
		case *proto.WorkloadEndpointUpdate:
			if x.Id.GetWorkloadId() != s.workload && s.foreign == "" {
				s.foreign = x.Id.GetWorkloadId()
			}
		case *proto.WorkloadEndpointRemove:
			if x.Id.GetWorkloadId() != s.workload && s.foreign == "" {
				s.foreign = x.Id.GetWorkloadId()
			}
		case *proto.ServiceAccountUpdate:
			if x.Id.GetNamespace() == barrierNS {
				var n int
				fmt.Sscanf(x.Id.GetName(), "b%d", &n)
				if n > s.lastBar {
					s.lastBar = n
				}
			}
		}
		s.shadow.OnMessage(canonIPSetMsg(inner))
		s.cond.Broadcast()
		s.mu.Unlock()
	}
	s.mu.Lock()
	s.closed = true
	s.cond.Broadcast()
	s.mu.Unlock()
}

// ---------------------------------------------------------------------------------------------
// the case

var judgedShadowKeys = map[string]bool{
	"rules-reference-missing-ipset":       true,
	"endpoint-references-missing-policy":  true,
	"endpoint-references-missing-profile": true,
	"ipset-delta-unknown-set":             true,
	"policy-remove-while-referenced":      true,
	"profile-remove-while-referenced":     true,
	"ipset-remove-while-referenced":       true,
	"nil-message":                         true,
}

type tcase struct {
	c    *harness.Case
	sc   *calcgen.Scenario
	proc *policysync.Processor
	upd  chan any

	main    *shadowdp.Shadow // fold of everything forwarded to the Processor
	sas     map[string]*proto.ServiceAccountUpdate
	nss     map[string]*proto.NamespaceUpdate
	live    map[string]*stream // workload -> current stream
	all     []*stream
	nextUID uint64
	barrier int
	opIdx   int
	events  []string // harness-side event log (joins, leaves, barriers) for the witness
	aborted string   // inconclusive reason
	failed  bool
	// rr is re-seeded from c.R before every op: the calculation graph emits the messages of one flush
	// in map order, so the number of per-message draws varies between runs of the same seed; deriving a
	// fresh generator per op keeps that variation from shifting every later decision.
	rr *rand.Rand
}

var workloads = []string{"ns1/w1", "ns1/w2", "ns1/w3", "ns1/ghost"}

func epID(w string) types.WorkloadEndpointID {
	return types.WorkloadEndpointID{OrchestratorId: policysync.OrchestratorId, WorkloadId: w, EndpointId: policysync.EndpointId}
}

func (t *tcase) note(format string, args ...any) {
	if len(t.events) < 600 {
		t.events = append(t.events, fmt.Sprintf("[msg %d] ", t.main.NumMessages)+fmt.Sprintf(format, args...))
	}
}

// drainJoins waits until the Processor has RECEIVED every join/leave sent so far.  The next send on
// the unbuffered update channel is then received only after the last of them has been processed.
func (t *tcase) drainJoins() bool {
	deadline := time.Now().Add(20 * time.Second)
	for len(t.proc.JoinUpdates) > 0 {
		runtime.Gosched()
		if time.Now().After(deadline) {
			t.aborted = "watchdog-join-channel"
			return false
		}
	}
	return true
}

func (t *tcase) send(msg any) bool {
	select {
	case t.upd <- msg:
		return true
	case <-time.After(20 * time.Second):
		t.aborted = "watchdog-update-channel"
		return false
	}
}

func (t *tcase) markDead(s *stream, why string) {
	s.mu.Lock()
	if s.deadAtBar == 0 {
		s.deadAtBar = t.barrier + 1
	}
	s.mu.Unlock()
	t.note("stream %s#%d departs: %s", s.workload, s.uid, why)
}

func (t *tcase) join(w string, lazy bool) {
	t.nextUID++
	buf := 0
	if t.rr.Intn(2) == 0 {
		buf = policysync.OutputQueueLen
	}
	s := &stream{workload: w, uid: t.nextUID, ch: make(chan *proto.ToDataplane, buf), shadow: shadowdp.New(), joinedAtOp: t.opIdx}
	s.cond = sync.NewCond(&s.mu)
	s.shadow.NoteInSyncDelivered()
	go s.read()
	if old := t.live[w]; old != nil {
		t.markDead(old, "superseded by a new join")
		t.c.Count("rejoins", 1)
	}
	t.live[w] = s
	t.all = append(t.all, s)
	t.note("JoinRequest %s uid=%d (buffer %d, lazy=%v)", w, s.uid, buf, lazy)
	t.proc.JoinUpdates <- policysync.JoinRequest{JoinMetadata: policysync.JoinMetadata{EndpointID: epID(w), JoinUID: s.uid}, C: s.ch}
	t.c.Count("joins", 1)
	if _, ok := t.main.State.WEPs[shadowdp.WEPKey(&proto.WorkloadEndpointID{OrchestratorId: "k8s", WorkloadId: w, EndpointId: "eth0"})]; !ok {
		t.c.Count("joins_before_endpoint_exists", 1)
	}
	if !lazy {
		t.drainJoins()
	}
}

func (t *tcase) leave(w string, uid uint64) {
	t.note("LeaveRequest %s uid=%d", w, uid)
	if cur := t.live[w]; cur != nil && cur.uid == uid {
		t.markDead(cur, "left")
		delete(t.live, w)
		t.c.Count("leaves_matching", 1)
	} else {
		t.c.Count("leaves_stale", 1)
	}
	t.proc.JoinUpdates <- policysync.LeaveRequest{JoinMetadata: policysync.JoinMetadata{EndpointID: epID(w), JoinUID: uid}}
	t.drainJoins()
}

func (t *tcase) randomJoinLeave() {
	r := t.rr
	w := workloads[r.Intn(len(workloads))]
	if r.Intn(10) < 6 { // prefer a workload whose endpoint exists right now
		var have []string
		for _, x := range workloads[:3] {
			if _, ok := t.main.State.WEPs[shadowdp.WEPKey(&proto.WorkloadEndpointID{OrchestratorId: "k8s", WorkloadId: x, EndpointId: "eth0"})]; ok {
				have = append(have, x)
			}
		}
		if len(have) > 0 {
			w = have[r.Intn(len(have))]
		}
	}
	switch q := r.Intn(10); {
	case q < 6:
		t.join(w, r.Intn(10) < 3)
	case q < 9:
		if cur := t.live[w]; cur != nil {
			t.leave(w, cur.uid)
		} else {
			t.join(w, false)
		}
	default: // a leave carrying a UID that is not the current one
		uid := uint64(1 + r.Intn(int(t.nextUID)+1))
		t.leave(w, uid)
	}
}

func (t *tcase) injectSANS() {
	r := t.rr
	name := fmt.Sprintf("x%d", r.Intn(3))
	if r.Intn(2) == 0 {
		k := "ns1/" + name
		if _, ok := t.sas[k]; ok && r.Intn(3) == 0 {
			delete(t.sas, k)
			t.forward(&proto.ServiceAccountRemove{Id: &proto.ServiceAccountID{Namespace: "ns1", Name: name}})
			return
		}
		u := &proto.ServiceAccountUpdate{Id: &proto.ServiceAccountID{Namespace: "ns1", Name: name}, Labels: map[string]string{"v": fmt.Sprint(r.Intn(4))}}
		t.sas[k] = u
		t.forward(u)
		return
	}
	if _, ok := t.nss[name]; ok && r.Intn(3) == 0 {
		delete(t.nss, name)
		t.forward(&proto.NamespaceRemove{Id: &proto.NamespaceID{Name: name}})
		return
	}
	u := &proto.NamespaceUpdate{Id: &proto.NamespaceID{Name: name}, Labels: map[string]string{"v": fmt.Sprint(r.Intn(4))}}
	t.nss[name] = u
	t.forward(u)
}

// forward hands one message of the main stream to the Processor (after folding it into the main
// shadow, which also guards the input contract).
func (t *tcase) forward(msg any) {
	if t.aborted != "" || t.failed {
		return
	}
	// An endpoint's own update/remove is ordered after any outstanding join for it.
	switch msg.(type) {
	case *proto.WorkloadEndpointUpdate, *proto.WorkloadEndpointRemove:
		if !t.drainJoins() {
			return
		}
	}
	if vs := t.main.OnMessage(calcgen.CloneMsg(canonIPSetMsg(msg))); len(vs) > 0 {
		// The input itself breaks the output contract of the calculation graph (C02's subject): stop
		// before the Processor sees the offending message.
		t.aborted = "input-contract-broken"
		t.note("input contract broken: %s", vs[0].String())
		t.c.Count("input_contract_broken", 1)
		return
	}
	if rm, ok := msg.(*proto.WorkloadEndpointRemove); ok {
		w := rm.Id.GetWorkloadId()
		if cur := t.live[w]; cur != nil {
			t.markDead(cur, "endpoint removed")
			delete(t.live, w)
			t.c.Count("streams_ended_by_endpoint_remove", 1)
		}
	}
	if !t.send(msg) {
		return
	}
	t.c.Count("messages_forwarded", 1)
}

type wantState struct {
	WEPs     map[string]*proto.WorkloadEndpoint
	Policies map[string]*proto.Policy
	Profiles map[string]*proto.Profile
	IPSets   map[string]*shadowdp.IPSet
}

func (t *tcase) want(w string) wantState {
	ws := wantState{WEPs: map[string]*proto.WorkloadEndpoint{}, Policies: map[string]*proto.Policy{}, Profiles: map[string]*proto.Profile{}, IPSets: map[string]*shadowdp.IPSet{}}
	m := t.main.State
	k := shadowdp.WEPKey(&proto.WorkloadEndpointID{OrchestratorId: "k8s", WorkloadId: w, EndpointId: "eth0"})
	ep, ok := m.WEPs[k]
	if !ok {
		return ws
	}
	ws.WEPs[k] = ep
	addRefs := func(rules ...[]*proto.Rule) {
		for _, id := range shadowdp.RulesIPSetIDs(rules...) {
			if s, ok := m.IPSets[id]; ok {
				ws.IPSets[id] = s
			}
		}
	}
	for _, tier := range ep.Tiers {
		for _, id := range append(append([]*proto.PolicyID{}, tier.IngressPolicies...), tier.EgressPolicies...) {
			pk := shadowdp.PolicyKey(id)
			if p, ok := m.Policies[pk]; ok {
				ws.Policies[pk] = p
				addRefs(p.InboundRules, p.OutboundRules)
			}
		}
	}
	for _, name := range ep.ProfileIds {
		if p, ok := m.Profiles[name]; ok {
			ws.Profiles[name] = p
			addRefs(p.InboundRules, p.OutboundRules)
		}
	}
	return ws
}

func keysOf[V any](m map[string]V) []string {
	out := make([]string, 0, len(m))
	for k := range m {
		out = append(out, k)
	}
	sort.Strings(out)
	return out
}

func diffKeys[A any, B any](class string, got map[string]A, want map[string]B) (missing, extra []string) {
	for k := range want {
		if _, ok := got[k]; !ok {
			missing = append(missing, class+" "+k)
		}
	}
	for k := range got {
		if _, ok := want[k]; !ok {
			extra = append(extra, class+" "+k)
		}
	}
	sort.Strings(missing)
	sort.Strings(extra)
	return
}

func (t *tcase) violate(key string, s *stream, format string, args ...any) {
	if t.failed {
		return
	}
	t.failed = true
	msg := fmt.Sprintf(format, args...)
	d := t.sc.Witness()
	hist := t.sc.U.DescribeOps(t.sc.H.Ops)
	if len(hist) > 300 {
		hist = hist[:300]
	}
	d["history"] = hist
	d["harness_events"] = t.events
	if s != nil {
		s.mu.Lock()
		d["stream"] = fmt.Sprintf("%s uid=%d", s.workload, s.uid)
		d["stream_log"] = append([]string{}, s.log...)
		s.mu.Unlock()
	}
	t.c.Violationf(key, d, "%s", msg)
}

// doBarrier pushes a sentinel through the Processor, waits for every live stream to see it and
// judges every stream.
func (t *tcase) doBarrier() {
	if t.aborted != "" || t.failed {
		return
	}
	if !t.drainJoins() {
		return
	}
	t.barrier++
	n := t.barrier
	if n > 1 { // retire the previous sentinel (exercises ServiceAccountRemove fan-out)
		prev := fmt.Sprintf("b%d", n-1)
		delete(t.sas, barrierNS+"/"+prev)
		t.forward(&proto.ServiceAccountRemove{Id: &proto.ServiceAccountID{Namespace: barrierNS, Name: prev}})
	}
	name := fmt.Sprintf("b%d", n)
	u := &proto.ServiceAccountUpdate{Id: &proto.ServiceAccountID{Namespace: barrierNS, Name: name}}
	t.sas[barrierNS+"/"+name] = u
	t.note("barrier %d", n)
	t.forward(u)
	if t.aborted != "" {
		return
	}
	t.c.Count("barriers", 1)
	// wait for the live streams
	for _, w := range keysOf(t.live) {
		s := t.live[w]
		timedOut := false
		timer := time.AfterFunc(20*time.Second, func() {
			s.mu.Lock()
			timedOut = true
			s.cond.Broadcast()
			s.mu.Unlock()
		})
		s.mu.Lock()
		for s.lastBar < n && !s.closed && !timedOut {
			s.cond.Wait()
		}
		closed, saw := s.closed, s.lastBar >= n
		s.mu.Unlock()
		timer.Stop()
		if !saw && !closed {
			t.aborted = "watchdog-barrier"
			return
		}
		if !saw && closed {
			t.violate("live-stream-closed", s, "stream of %s (uid %d) is the current join of a workload whose endpoint has not been removed, yet the Processor closed it before barrier %d", s.workload, s.uid, n)
			return
		}
	}
	t.judge(n)
}

func (t *tcase) judge(n int) {
	for _, s := range t.all {
		s.mu.Lock()
		dead, lastBar, foreign := s.deadAtBar, s.lastBar, s.foreign
		var shadowV []shadowdp.Violation
		shadowV = append(shadowV, s.shadow.Violations...)
		s.mu.Unlock()
		if foreign != "" {
			t.violate("foreign-endpoint-on-stream", s, "stream of %s received an endpoint message for %s", s.workload, foreign)
			return
		}
		for _, v := range shadowV {
			if judgedShadowKeys[v.Key] {
				t.violate("stream:"+v.Key, s, "stream of %s (uid %d), message %d: %s", s.workload, s.uid, v.Index, v.Msg)
				return
			}
		}
		if dead != 0 && lastBar >= dead {
			t.violate("message-after-departure", s, "stream of %s (uid %d) departed before barrier %d was injected but received sentinel %d", s.workload, s.uid, dead, lastBar)
			return
		}
	}
	for _, w := range keysOf(t.live) {
		s := t.live[w]
		ws := t.want(w)
		s.mu.Lock()
		got := s.shadow.State
		var problems []string
		for _, pair := range [][2][]string{
			func() [2][]string { a, b := diffKeys("endpoint", got.WEPs, ws.WEPs); return [2][]string{a, b} }(),
			func() [2][]string { a, b := diffKeys("policy", got.Policies, ws.Policies); return [2][]string{a, b} }(),
			func() [2][]string { a, b := diffKeys("profile", got.Profiles, ws.Profiles); return [2][]string{a, b} }(),
			func() [2][]string { a, b := diffKeys("ipset", got.IPSets, ws.IPSets); return [2][]string{a, b} }(),
			func() [2][]string {
				a, b := diffKeys("serviceaccount", got.ServiceAccounts, t.main.State.ServiceAccounts)
				return [2][]string{a, b}
			}(),
			func() [2][]string { a, b := diffKeys("namespace", got.Namespaces, t.main.State.Namespaces); return [2][]string{a, b} }(),
		} {
			for _, m := range pair[0] {
				problems = append(problems, "missing "+m)
			}
			for _, e := range pair[1] {
				problems = append(problems, "superfluous "+e)
			}
		}
		key := ""
		if len(problems) > 0 {
			key = "stream-incomplete"
			if strings.HasPrefix(problems[0], "superfluous") {
				key = "stream-not-minimal"
			}
			for _, p := range problems {
				if strings.HasPrefix(p, "missing") {
					key = "stream-incomplete"
				}
			}
		} else {
			// contents: latest versions
			for k, wv := range ws.WEPs {
				if !googleproto.Equal(got.WEPs[k], wv) {
					problems = append(problems, "endpoint "+k+" is not the latest version")
				}
			}
			for k, wv := range ws.Policies {
				if !googleproto.Equal(got.Policies[k], wv) {
					problems = append(problems, "policy "+k+" is not the latest version")
				}
			}
			for k, wv := range ws.Profiles {
				if !googleproto.Equal(got.Profiles[k], wv) {
					problems = append(problems, "profile "+k+" is not the latest version")
				}
			}
			for k, wv := range ws.IPSets {
				g := got.IPSets[k]
				if g.Type != wv.Type || len(g.Members) != len(wv.Members) {
					problems = append(problems, fmt.Sprintf("ipset %s differs: stream has %d members type %v, dataplane has %d type %v", k, len(g.Members), g.Type, len(wv.Members), wv.Type))
					continue
				}
				for m := range wv.Members {
					if _, ok := g.Members[m]; !ok {
						problems = append(problems, fmt.Sprintf("ipset %s lacks member %s", k, m))
						break
					}
				}
			}
			for k, wv := range t.main.State.ServiceAccounts {
				if !googleproto.Equal(got.ServiceAccounts[k], wv) {
					problems = append(problems, "serviceaccount "+k+" is not the latest version")
				}
			}
			for k, wv := range t.main.State.Namespaces {
				if !googleproto.Equal(got.Namespaces[k], wv) {
					problems = append(problems, "namespace "+k+" is not the latest version")
				}
			}
			if len(problems) > 0 {
				key = "stream-stale-version"
			}
		}
		nRefs := len(ws.Policies) + len(ws.Profiles) + len(ws.IPSets)
		s.mu.Unlock()
		t.c.Count("stream_state_comparisons", 1)
		if len(ws.WEPs) > 0 {
			t.c.Count("comparisons_with_endpoint", 1)
		}
		if len(ws.IPSets) > 0 {
			t.c.Count("comparisons_with_ipsets", 1)
		}
		t.c.Count("referenced_objects_compared", int64(nRefs))
		if key != "" {
			if len(problems) > 12 {
				problems = problems[:12]
			}
			t.violate(key, s, "at barrier %d the stream of %s (uid %d) is not {own endpoint} ∪ referenced policies/profiles/IP sets ∪ service accounts ∪ namespaces: %s", n, s.workload, s.uid, strings.Join(problems, "; "))
			return
		}
	}
}

func run(c *harness.Case) {
	size := calcgen.Size{Routes: false, Extra: c.Thorough() && c.Index%2 == 0}
	sc := calcgen.NewScenario(c.R, calcgen.ScenarioOptions{Size: size, MinSteps: 40, MaxSteps: c.Pick(120, 200),
		History: calcgen.HistoryOptions{Focus: []string{calcgen.ClassWEP, calcgen.ClassPolicy, calcgen.ClassProfileRules, calcgen.ClassNetSet}}})
	if err := sc.U.SelfCheck(); err != nil {
		c.Inconclusive("generator-tag-mismatch")
		return
	}
	t := &tcase{c: c, sc: sc, upd: make(chan any), main: shadowdp.New(), sas: map[string]*proto.ServiceAccountUpdate{},
		nss: map[string]*proto.NamespaceUpdate{}, live: map[string]*stream{}}
	t.proc = policysync.NewProcessor(t.upd)
	t.proc.Start()

	pJoinMid := 2 + c.R.Intn(6)   // % chance of a join/leave before any single message
	pSAMid := 1 + c.R.Intn(4)     // % chance of a service account / namespace event before a message
	pBarrierOp := 10 + c.R.Intn(25) // % chance of a barrier after an op

	out := func(msg any) {
		if t.aborted != "" || t.failed {
			return
		}
		if t.rr.Intn(100) < pJoinMid {
			t.randomJoinLeave()
		}
		if t.rr.Intn(100) < pSAMid {
			t.injectSANS()
		}
		t.forward(msg)
	}
	hooks := calcgen.Hooks{
		BeforeOp: func(i int, op calcgen.Op) {
			t.opIdx = i
			t.rr = rand.New(rand.NewSource(c.R.Int63()))
			if op.Kind == calcgen.OpInSync {
				t.main.NoteInSyncDelivered()
			}
			if t.aborted != "" || t.failed {
				return
			}
			if t.rr.Intn(100) < 12 {
				t.randomJoinLeave()
			}
		},
		AfterOp: func(i int, op calcgen.Op, d *calcgen.Driver) {
			if t.aborted != "" || t.failed {
				return
			}
			if op.Kind == calcgen.OpFlush {
				t.main.EndFlush()
				if t.rr.Intn(100) < pBarrierOp {
					t.doBarrier()
				}
			}
		},
	}
	// make sure every real workload is joined at least once early or late
	t.rr = rand.New(rand.NewSource(c.R.Int63()))
	t.join(workloads[t.rr.Intn(3)], false)
	calcgen.RunSync(sc.U, sc.Graph, sc.H.Ops, out, hooks)
	if t.aborted == "" && !t.failed {
		// late joins against the final state, then the closing barrier
		t.rr = rand.New(rand.NewSource(c.R.Int63()))
		for _, w := range workloads[:3] {
			if t.live[w] == nil && t.rr.Intn(2) == 0 {
				t.join(w, t.rr.Intn(3) == 0)
			}
		}
		t.doBarrier()
	}
	// let the reader goroutines end: leave every live stream
	for _, w := range keysOf(t.live) {
		s := t.live[w]
		select {
		case t.proc.JoinUpdates <- policysync.LeaveRequest{JoinMetadata: policysync.JoinMetadata{EndpointID: epID(w), JoinUID: s.uid}}:
		case <-time.After(5 * time.Second):
		}
	}
	var msgs int64
	for _, s := range t.all {
		s.mu.Lock()
		msgs += int64(s.nMsgs)
		for k, n := range s.shadow.Checks {
			c.Count("stream_chk_"+k, n)
		}
		for _, v := range s.shadow.Violations {
			if !judgedShadowKeys[v.Key] {
				c.Count("soft_"+v.Key, 1)
			}
		}
		s.mu.Unlock()
	}
	c.Count("stream_messages", msgs)
	c.Count("streams", int64(len(t.all)))
	if t.aborted != "" && !t.failed {
		c.Inconclusive(t.aborted)
		return
	}
	if len(t.all) >= 2 && msgs > 20 {
		c.NonTrivial(fmt.Sprint(sc.H.Final), strings.Join(t.events, "|"))
	}
	c.Distinct("final_main_states", t.main.State.Summary())
	if c.Index < 3 {
		ev := t.events
		if len(ev) > 12 {
			ev = ev[:12]
		}
		c.Sample(map[string]any{"ops": len(sc.H.Ops), "main_messages": t.main.NumMessages, "streams": len(t.all), "stream_messages": msgs, "barriers": t.barrier, "first_events": ev})
	}
}

func main() {
	calcgen.Quiet()
	harness.Main(harness.Check{
		ID:    "C31",
		Level: "exploration",
		Rule: "each case is a calcgen scenario (universe of policies/profiles/tiers/endpoints/network sets, random-walk history of 40-120 (thorough 200) steps biased towards endpoints, policies, profiles and network sets, with coalescing, duplicates, reverts and random flush strategy) run through the real calculation graph; " +
			"its output plus injected service-account/namespace events feeds the real Processor; joins/leaves (3 real local workloads + 1 that never exists; re-joins, stale leaves, joins before the endpoint exists, buffered and unbuffered client channels, eagerly or lazily synchronised) " +
			"are interleaved before ops and between messages with per-case probabilities; barriers after 10-35% of the flushes and at the end; non-trivial = at least 2 streams and more than 20 stream messages; distinct by final datastore state and join/leave schedule",
		Assumptions: []string{
			"input = real calc-graph output (verif/internal/calcgen); a case whose input breaks the ordering contract ends inconclusive before the offending message reaches the Processor",
			"per-stream observer = verif/internal/shadowdp (reference rules), IP set members canonicalised before comparison",
			"the Processor is driven through its exported channels only; cross-channel select order is left to the Go runtime but every judgement waits for the join channel to drain",
			"the Processor goroutine of a finished case is left blocked on its channels (Felix never stops it)",
		},
		Cases: func(tier string) int {
			if tier == "thorough" {
				return 6000
			}
			return 300
		},
		Run:         run,
		CaseTimeout: 180 * time.Second,
		Floors: map[string]int64{"messages_forwarded": 5000, "stream_messages": 3000, "joins": 300, "rejoins": 30, "joins_before_endpoint_exists": 20,
			"leaves_matching": 50, "barriers": 300, "stream_state_comparisons": 300, "comparisons_with_endpoint": 100, "comparisons_with_ipsets": 30,
			"streams_ended_by_endpoint_remove": 10},
	})
}

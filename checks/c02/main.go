// C02 — Felix's output stream never references something the dataplane lacks.
//
// Real code driven: the same assembled calculation graph as C01 (verif/internal/calcgen), fed the
// same kind of generated distorted histories; every history is run under ALL THREE flush strategies
// (flush after every update batch / after PRNG batches / only at the end), the two fresh runs are
// judged too, and every 8th case also goes through calc.NewAsyncCalcGraph (real goroutines, the
// graph's own flush timer) under the race detector.
//
// Oracle (online, at each message passed to EventSequencer.Callback): verif/internal/shadowdp —
//   - IPSetUpdate members unique; IPSetDeltaUpdate: set exists, added members absent, removed
//     members present; IPSetRemove: set exists and no active policy/profile rule names it;
//   - ActivePolicyUpdate / ActiveProfileUpdate: every IP set id in every rule exists;
//   - ActivePolicyRemove / ActiveProfileRemove: exists, no endpoint lists it;
//   - Workload/HostEndpointUpdate: every listed policy and profile exists;
//   - every *Remove names an existing object;
//   - per flush and node: VTEP added before a newly added VXLAN route to it, route removed before
//     the VTEP (synchronous runs, where flush boundaries are known);
//   - async: proto.InSync is never read before the harness handed api.InSync to the graph, and
//     (histories whose last input is in-sync) no message other than the harness's sentinel is read
//     after proto.InSync, i.e. in-sync came after the flush that follows it, not before.
//
// Deliberately not checked:
//   - "a route never exists without its VTEP" as a global invariant (the L3 resolver legitimately
//     emits routes for nodes with no VTEP yet; only the order within a flush is fixed);
//   - the final state (that is C01);
//   - per-flush VTEP/route order in async runs (flush boundaries are not observable there).
package main

import (
	"fmt"
	"time"

	"github.com/projectcalico/calico/felix/proto"

	"verif/internal/calcgen"
	"verif/internal/harness"
	"verif/internal/shadowdp"
)

const asyncEvery = 8

func report(c *harness.Case, sc *calcgen.Scenario, what string, ops []calcgen.Op, sh *shadowdp.Shadow) {
	seen := map[string]bool{}
	for _, v := range sh.Violations {
		if seen[v.Key] {
			continue
		}
		seen[v.Key] = true
		w := sc.Witness()
		w["run"] = what
		if ops != nil {
			d := sc.U.DescribeOps(ops)
			if len(d) > 400 {
				d = d[:400]
			}
			w["history"] = d
		}
		var all []string
		for _, x := range sh.Violations {
			if len(all) < 10 {
				all = append(all, x.String())
			}
		}
		w["breaches"] = all
		c.Violationf(v.Key, w, "%s run: message %d breaks the output contract: %s", what, v.Index, v.Msg)
	}
}

func count(c *harness.Case, sh *shadowdp.Shadow) {
	c.Count("messages_judged", int64(sh.NumMessages))
	for k, n := range sh.Checks {
		c.Count("chk_"+k, n)
	}
}

func run(c *harness.Case) {
	size := calcgen.Size{Routes: c.Index%3 != 0, Extra: c.Thorough() && c.Index%2 == 0}
	sc := calcgen.NewScenario(c.R, calcgen.ScenarioOptions{Size: size, MinSteps: 30, MaxSteps: c.Pick(120, 200)})
	if err := sc.U.SelfCheck(); err != nil {
		calcgen.Debugf("case %d: %v", c.Index, err)
		c.Inconclusive("generator-tag-mismatch")
		c.Count("generator_tag_mismatch", 1)
		return
	}
	c.Count("histories", 1)
	c.Count("updates_delivered", int64(sc.H.NumUpdates))
	for tag, n := range sc.H.Distortions {
		c.Count("batches_"+tag, int64(n))
	}
	var last *shadowdp.Shadow
	for _, strat := range []string{calcgen.FlushEveryUpdate, calcgen.FlushBatches, calcgen.FlushAtEnd} {
		ops := sc.H.Ops
		if strat != sc.H.FlushStrategy {
			ops = calcgen.Reflush(c.R, sc.H.Ops, strat)
		}
		run := calcgen.RunOps(sc.U, sc.Graph, ops, nil)
		c.Count("runs_"+strat, 1)
		c.Count("flushes", int64(run.Flushes))
		count(c, run.Shadow)
		report(c, sc, "history/"+strat, ops, run.Shadow)
		last = run.Shadow
	}
	perm := c.R.Perm(len(sc.U.Keys))
	fresh := sc.RunFresh(sc.H.Final, perm, c.R.Intn(2) == 0)
	count(c, fresh.Shadow)
	report(c, sc, "fresh", nil, fresh.Shadow)

	st := last.State
	if sc.H.HasDistortion() && len(st.Policies)+len(st.Profiles) > 0 && len(st.WEPs)+len(st.HEPs) > 0 {
		c.NonTrivial(st.Summary(), fmt.Sprint(sc.H.Final), sc.H.NumUpdates)
	}
	c.Distinct("final_states", st.Summary(), fmt.Sprint(sc.H.Final))
	if c.Index < 3 {
		c.Sample(map[string]any{"graph": fmt.Sprintf("%+v", sc.Graph), "ops": len(sc.H.Ops), "distortions": sc.H.Distortions,
			"messages_last_run": last.NumMessages, "final": st.Summary()})
	}

	if c.Index%asyncEvery == 0 {
		ops := sc.H.Ops
		inSyncLast := (c.Index/asyncEvery)%2 == 0
		if inSyncLast {
			ops = calcgen.InSyncLast(ops)
		}
		ash := shadowdp.New()
		sawInSync := false
		var afterInSync []string
		res := calcgen.RunAsync(sc.U, sc.Graph, ops, 60*time.Second, func(msg any, inSyncDelivered bool) {
			if inSyncDelivered {
				ash.NoteInSyncDelivered()
			}
			if sawInSync && len(afterInSync) < 10 {
				afterInSync = append(afterInSync, fmt.Sprintf("%T %v", msg, msg))
			}
			if _, ok := msg.(*proto.InSync); ok {
				sawInSync = true
			}
			ash.OnMessage(msg)
		})
		if res.TimedOut {
			c.Inconclusive("async-watchdog")
			return
		}
		c.Count("async_runs", 1)
		c.Count("async_messages", int64(ash.NumMessages))
		count(c, ash)
		report(c, sc, "async", ops, ash)
		if inSyncLast {
			// Everything was delivered before api.InSync, and in-sync must be reported only after the
			// flush that follows it: nothing but the harness's sentinel may come after proto.InSync.
			c.Count("async_insync_last_checks", 1)
			if len(afterInSync) > 0 {
				w := sc.Witness()
				w["messages_after_insync"] = afterInSync
				c.Violationf("insync-before-flush", w, "proto.InSync was emitted before the flush that follows api.InSync: %d+ messages describing state delivered before in-sync came after it, first: %s", len(afterInSync), afterInSync[0])
			}
		}
	}
}

func main() {
	harness.Main(harness.Check{
		ID:    "C02",
		Level: "exploration",
		Rule: "same generator as C01 (universe of profiles, tiers, policies of 5 kinds, endpoints, network sets, and in 2 of 3 cases pools/blocks/nodes/VXLAN host config; 30-120 step distorted histories); " +
			"each history is run under all three flush strategies plus a permuted fresh run, every 8th also through AsyncCalcGraph; " +
			"non-trivial = >=1 distortion and a final state with >=1 active policy/profile and >=1 local endpoint; distinct by final state and history length",
		Assumptions: []string{
			"shadowdp (verif/internal/shadowdp) is the judge; it applies a message even when it breaches the contract so that later messages are judged against a sensible state",
			"generated values pass/fail the repo's validators as tagged (Universe.SelfCheck per case)",
			"async: message-vs-in-sync order is judged with a flag set BEFORE api.InSync is handed to the graph, so a reported breach is certain; 60 s watchdog => inconclusive",
		},
		Cases: func(tier string) int {
			if tier == "thorough" {
				return 5120
			}
			return 256
		},
		Run: run,
		Floors: map[string]int64{"histories": 30, "messages_judged": 4000, "chk_rule_ipset_exists": 500, "chk_endpoint_policy_exists": 200,
			"chk_endpoint_profile_exists": 200, "chk_ipset_delta_add_absent": 100, "chk_ipset_delta_remove_present": 100,
			"chk_remove_exists": 500, "chk_ipset_remove_unreferenced": 50, "chk_policy_remove_unreferenced": 50,
			"chk_profile_remove_unreferenced": 20, "chk_vtep_before_route": 5, "chk_insync_order": 2, "async_runs": 3, "async_insync_last_checks": 1},
		CaseTimeout: 180 * time.Second,
	})
}

package main

// BPF leg of C12 (added by b-bpf through extraLegs): the same endpoint policy state compiled by the
// real felix/bpf/polprog builder and executed by verif/internal/polexec -- in the real kernel through
// bpf(2) (verifier, LPM-trie IP sets, BPF_PROG_TEST_RUN) when the process may use it, otherwise in the
// interpreter verif/internal/bpfvm.
//
// The endpoint state is turned into polprog.Rules exactly as bpf_ep_mgr.extractRules does for a workload
// endpoint: per direction, tiers that list at least one policy for that direction; staged policies
// contribute no rules; the tier ends with deny unless all its listed policies are staged or its default
// action is Pass; then the profiles; one program per (direction, IP family).
//
// Deliberately not modelled / not checked here:
//   - the leg is the policy program: the packet state is filled in as the TC programs would for TCP/UDP
//     and, for SCTP, with the packet's ports (the TC parser itself does not extract SCTP ports);
//   - no NAT (pre-NAT == post-NAT destination), traffic is neither from nor to the host.
//
// Half of the states are compiled with a lowered split threshold (12-150 jumps) so that the policy runs as
// a chain of tail-called sub-programs, as a very large policy does in production.
//
// Needs CGO_ENABLED=0 (felix/bpf/polprog pulls in the libbpf stubs): the C12 binary must be built with
// "cgo": false once this file is present.

import (
	"errors"
	"fmt"
	"strings"

	"github.com/projectcalico/calico/felix/bpf/asm"

	"github.com/projectcalico/calico/felix/bpf/polprog"
	"github.com/projectcalico/calico/felix/proto"

	"verif/internal/bpfsys"
	"verif/internal/harness"
	"verif/internal/polexec"
	"verif/internal/refpolicy"
	"verif/internal/rulegen"
)

func init() {
	extraLegs = append(extraLegs, newBPFLeg)
}

type bpfProg struct {
	k    *polexec.Kernel
	vm   *polexec.VM
	opts polexec.Options
}

type bpfLeg struct {
	c     *harness.Case
	progs map[[2]int]*bpfProg // (direction, ip version)
}

func (l *bpfLeg) Name() string { return "bpf" }

func bpfRules(l *rulegen.Layout, dir refpolicy.Direction) polprog.Rules {
	id := uint64(0)
	next := func() uint64 { id++; return id }
	wrap := func(rs []*proto.Rule) []polprog.Rule {
		out := make([]polprog.Rule, len(rs))
		for i, r := range rs {
			out[i] = polprog.Rule{Rule: r, MatchID: next()}
		}
		return out
	}
	var r polprog.Rules
	for _, t := range l.Tiers {
		groups := t.IngressGroups
		if dir == refpolicy.Egress {
			groups = t.EgressGroups
		}
		var pols []*rulegen.LPolicy
		for _, g := range groups {
			pols = append(pols, g...)
		}
		if len(pols) == 0 {
			continue
		}
		pt := polprog.Tier{Name: t.Name, EndRuleID: next()}
		stagedOnly := true
		for _, p := range pols {
			if p.Staged {
				pt.Policies = append(pt.Policies, polprog.Policy{}) // bpf_ep_mgr leaves an empty slot
				continue
			}
			stagedOnly = false
			rs := p.Inbound
			if dir == refpolicy.Egress {
				rs = p.Outbound
			}
			pt.Policies = append(pt.Policies, polprog.Policy{Kind: p.Kind, Namespace: p.Namespace, Name: p.Name, Rules: wrap(rs)})
		}
		if !stagedOnly && !strings.EqualFold(t.DefaultAction, "Pass") {
			pt.EndAction = polprog.TierEndDeny
		} else {
			pt.EndAction = polprog.TierEndPass
		}
		r.Tiers = append(r.Tiers, pt)
	}
	for _, p := range l.Profiles {
		rs := p.Inbound
		if dir == refpolicy.Egress {
			rs = p.Outbound
		}
		r.Profiles = append(r.Profiles, polprog.Profile{Kind: "Profile", Name: p.Name, Rules: wrap(rs)})
	}
	r.NoProfileMatchID = next()
	return r
}

// previousBPFLeg: cases run one after another inside a worker; the kernel objects of the previous
// state are released when the next one is prepared.
var previousBPFLeg *bpfLeg

func newBPFLeg(c *harness.Case, st *State) (Leg, error) {
	if previousBPFLeg != nil {
		previousBPFLeg.Close()
	}
	l := &bpfLeg{c: c, progs: map[[2]int]*bpfProg{}}
	previousBPFLeg = l
	ids := polexec.IDs{}
	n := uint64(0x100)
	for _, name := range sortedSetNames(st.Sets) {
		n++
		ids[name] = n
	}
	useKernel := bpfsys.Available() == nil
	if useKernel {
		c.Count("bpf_leg_kernel_states", 1)
	} else {
		c.Count("bpf_leg_interpreter_only_states", 1)
	}
	lowered := c.R.Intn(2) == 0
	for _, dir := range []refpolicy.Direction{refpolicy.Ingress, refpolicy.Egress} {
		rules := bpfRules(st.Layout, dir)
		for _, ipv := range []int{4, 6} {
			o := polexec.Options{IPv6: ipv == 6, AllowDenyJumps: true, AllowIdx: 1, DenyIdx: 2, EntryIdx: 0, Stride: 4, FlowLogs: c.R.Intn(2) == 0}
			if lowered {
				// chained sub-programs: lower the split threshold (hook polprog.VerifWithMaxJumpsPerProgram)
				o.MaxJumps = []int{12, 25, 60, 150}[c.R.Intn(4)]
			}
			p := &bpfProg{opts: o}
			fds := polexec.FDs{IPSets: 3, State: 4, Static: 5, PolJump: 6}
			if useKernel {
				k, err := polexec.NewKernel(o)
				if err != nil {
					l.Close()
					return nil, err
				}
				p.k = k
				fds = k.FDs()
			}
			l.progs[[2]int{int(dir), ipv}] = p
			var progs []asm.Insns
			for attempt := 0; ; attempt++ {
				var err error
				progs, err = polexec.Compile(rules, ids, p.opts, fds)
				if err != nil {
					l.Close()
					return nil, fmt.Errorf("polprog compile: %w", err)
				}
				if len(progs) > 24 && p.opts.MaxJumps > 0 && attempt < 10 {
					p.opts.MaxJumps *= 2 // more than jump.MaxSubPrograms: raise the threshold
					continue
				}
				if p.k == nil {
					break
				}
				err = p.k.Load(progs, p.opts)
				if err == nil {
					break
				}
				var le *polexec.LoadError
				if errors.As(err, &le) && strings.Contains(le.VerifierLog, "unreachable insn") && p.opts.MaxJumps > 0 && attempt < 10 {
					// C11's known finding (split inside dead code): not this check's business; move the split point
					c.Count("bpf_leg_split_point_moved", 1)
					p.opts.MaxJumps = p.opts.MaxJumps*2 + 7
					continue
				}
				l.Close()
				return nil, fmt.Errorf("kernel load: %w", err)
			}
			if len(progs) > 1 {
				c.Count("bpf_leg_split_programs", 1)
				c.Count("bpf_leg_sub_programs", int64(len(progs)))
			}
			p.vm = polexec.NewVM(p.opts, fds)
			p.vm.Load(progs, p.opts)
			for _, name := range sortedSetNames(st.Sets) {
				for _, key := range polexec.IPSetEntries(ids[name], st.Sets[name], ipv == 6) {
					if p.k != nil {
						if err := p.k.AddIPSetEntry(key); err != nil {
							l.Close()
							return nil, err
						}
					}
					if err := p.vm.AddIPSetEntry(key); err != nil {
						l.Close()
						return nil, err
					}
				}
			}
		}
	}
	return l, nil
}

func sortedSetNames(m map[string][]string) []string {
	var out []string
	for k := range m {
		out = append(out, k)
	}
	for i := 1; i < len(out); i++ {
		for j := i; j > 0 && out[j] < out[j-1]; j-- {
			out[j], out[j-1] = out[j-1], out[j]
		}
	}
	return out
}

// Close releases the kernel objects.
func (l *bpfLeg) Close() {
	for _, p := range l.progs {
		if p.k != nil {
			p.k.Close()
			p.k = nil
		}
	}
}

func (l *bpfLeg) Verdict(dir refpolicy.Direction, p *refpolicy.Packet) (refpolicy.Verdict, string, error) {
	prog := l.progs[[2]int{int(dir), int(p.IPVersion)}]
	if prog == nil {
		return refpolicy.NoVerdict, "", fmt.Errorf("no BPF program for %s v%d", dir, p.IPVersion)
	}
	ps := polexec.PacketState{Src: p.Src, Dst: p.Dst, PreNATDst: p.Dst, PostNATDst: p.Dst, Proto: p.Proto}
	if refpolicy.HasPorts(p.Proto) {
		ps.SrcPort, ps.DstPort, ps.PreNATDstPort, ps.PostNATDstPort = p.SrcPort, p.DstPort, p.DstPort, p.DstPort
	} else if p.IsICMP() {
		ps.DstPort = uint16(p.ICMPType) | uint16(p.ICMPCode)<<8
		ps.PostNATDstPort = ps.DstPort
	}
	var res polexec.Result
	if prog.k != nil {
		r, err := prog.k.Run(ps, prog.opts)
		if err != nil {
			return refpolicy.NoVerdict, "", err
		}
		res = r
	} else {
		r, fault := prog.vm.Run(ps, prog.opts)
		if fault != nil {
			return refpolicy.NoVerdict, "", fault
		}
		res = r
	}
	tr := fmt.Sprintf("%s pol_rc=%d rule_ids=%v", res.Verdict, res.PolRC, res.RuleIDs)
	switch res.Verdict {
	case "allow":
		return refpolicy.Allowed, tr, nil
	case "deny":
		return refpolicy.Denied, tr, nil
	}
	return refpolicy.NoVerdict, tr, fmt.Errorf("BPF policy program ended without a verdict: %s", tr)
}

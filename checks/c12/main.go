// C12 — all dataplanes agree on the policy verdict (iptables, nftables and the application
// layer policy checker; the BPF leg is added by the BPF builder through extraLegs).
//
// Real code driven, for one generated workload-endpoint policy state per case:
//
//   - iptables and nftables: rules.NewRenderer(cfg, nft) -> WorkloadEndpointToIptablesChains,
//     PolicyToIptablesChains, ProfileToIptablesChains, PolicyGroupToIptablesChains, rendered to
//     text by the real renderers (for IPv4 and for IPv6) and walked by internal/nfsim from the
//     endpoint chain with a NEW packet;
//   - application-layer checker: the same policies, profiles and IP sets loaded into a
//     policystore.PolicyStore, the endpoint as a proto.WorkloadEndpoint, and
//     checker.Evaluate(EnforcedOnly, dir, store, ep, flow); the verdict is "allowed" iff the
//     returned trace ends in an allow rule (every other exit of checkTiers is a denial).
//
// Oracle: the verdicts (allowed / denied) of all legs are equal for every probe packet and both
// directions.  On disagreement internal/refpolicy.Endpoint is evaluated too and the witness
// names the odd one out.
//
// Restricted to what all implementations support (the statement: "for rules all of them
// support") -
// Deliberately not checked:
//   - named ports (the L7 checker cannot match them), ICMP type/code and the icmp protocols,
//     HTTP and service-account matches, service (ip,port) sets;
//   - rule-level corner cases (C08): rulegen.SimpleRule only, i.e. <= 2 positive match blocks,
//     never protocol+notProtocol, action never "" (Felix never sends an empty action);
//   - pass-action rules inside profiles (refpolicy.Decision.Ambiguous and C09's known finding):
//     they are stripped from the generated profiles;
//   - probe packets are TCP, UDP or SCTP packets of a NEW connection (the L7 checker only ever
//     sees such flows); VXLAN-port / IPIP packets are skipped for egress when the from-workload
//     encapsulation drop is configured;
//   - the end-to-end effect of DROP vs REJECT: both count as denied.
package main

import (
	"errors"
	"fmt"
	"io"
	"net"
	"os"
	"sort"
	"strings"

	"github.com/sirupsen/logrus"
	googleproto "google.golang.org/protobuf/proto"

	"github.com/projectcalico/calico/app-policy/checker"
	"github.com/projectcalico/calico/app-policy/policystore"
	"github.com/projectcalico/calico/felix/generictables"
	"github.com/projectcalico/calico/felix/ipsets"
	"github.com/projectcalico/calico/felix/nftables"
	"github.com/projectcalico/calico/felix/proto"
	"github.com/projectcalico/calico/felix/rules"
	"github.com/projectcalico/calico/felix/types"

	"verif/internal/harness"
	"verif/internal/nfsim"
	"verif/internal/refpolicy"
	"verif/internal/rulegen"
)

const okCounter = "cases_without_harness_error"

func harnessError(c *harness.Case, err error) {
	c.Count(okCounter, -1)
	c.Count("harness_errors", 1)
	fmt.Fprintf(os.Stderr, "HARNESS-ERROR case %d: %v\n", c.Index, err)
	c.Inconclusive("harness-error: nfsim could not parse a rendered rule")
}

// State is the generated endpoint policy state handed to every leg.
type State struct {
	Layout  *rulegen.Layout
	Sets    map[string][]string // id -> members (CIDRs)
	RefSets refpolicy.IPSets
}

// Leg is one implementation: it is prepared once per state and then asked for verdicts.
type Leg interface {
	Name() string
	// Verdict returns Allowed or Denied.  An error that nfsim.IsUnparsed is a harness error;
	// any other error is reported as a violation of that leg.
	Verdict(dir refpolicy.Direction, p *refpolicy.Packet) (refpolicy.Verdict, string, error)
}

// extraLegs lets another builder add implementations (the BPF dataplane) without touching the
// comparison logic: each factory gets the case and the state and returns a prepared Leg (or nil
// to sit this state out).
var extraLegs []func(c *harness.Case, st *State) (Leg, error)

func polID(p *rulegen.LPolicy) *types.PolicyID {
	return &types.PolicyID{Name: p.Name, Namespace: p.Namespace, Kind: p.Kind}
}

func tierGroups(l *rulegen.Layout) []rules.TierPolicyGroups {
	var out []rules.TierPolicyGroups
	sel := 0
	mk := func(groups [][]*rulegen.LPolicy, dir rules.PolicyDirection) []*rules.PolicyGroup {
		var gs []*rules.PolicyGroup
		for _, g := range groups {
			sel++
			pg := &rules.PolicyGroup{Direction: dir, Selector: fmt.Sprintf("sel == '%d'", sel)}
			for _, p := range g {
				pg.Policies = append(pg.Policies, polID(p))
			}
			gs = append(gs, pg)
		}
		return gs
	}
	for _, t := range l.Tiers {
		out = append(out, rules.TierPolicyGroups{Name: t.Name, DefaultAction: t.DefaultAction,
			IngressPolicies: mk(t.IngressGroups, rules.PolicyDirectionInbound),
			EgressPolicies:  mk(t.EgressGroups, rules.PolicyDirectionOutbound)})
	}
	return out
}

// ---- netfilter legs

type nfLeg struct {
	flavor   nfsim.Flavor
	rs       map[uint8]*nfsim.Ruleset
	chains   map[uint8][2]string // [to-endpoint (ingress), from-endpoint (egress)]
	accept   uint32
	drop     uint32
	c        *harness.Case
	encapCfg rules.Config
}

func (l *nfLeg) Name() string { return l.flavor.String() }

func newNFLeg(c *harness.Case, st *State, flavor nfsim.Flavor, cfg rules.Config) (*nfLeg, error) {
	l := &nfLeg{flavor: flavor, rs: map[uint8]*nfsim.Ruleset{}, chains: map[uint8][2]string{}, accept: cfg.MarkAccept, drop: cfg.MarkDrop, c: c, encapCfg: cfg}
	renderer := rules.NewRenderer(cfg, flavor == nfsim.NFT)
	for _, ipv := range []uint8{4, 6} {
		rs := nfsim.NewRuleset(flavor, ipv)
		ipc := cfg.IPSetConfigV4
		if ipv == 6 {
			ipc = cfg.IPSetConfigV6
		}
		for sid, s := range st.RefSets {
			name := ipc.NameForMainIPSet(sid)
			if flavor == nfsim.NFT {
				name = nftables.LegalizeSetName(name)
			}
			rs.AddSet(name, s, false)
		}
		n := 0
		add := func(chains ...*generictables.Chain) {
			for _, ch := range chains {
				if ch != nil {
					n += len(ch.Rules)
					_ = rs.AddChain(ch)
				}
			}
		}
		var profIDs []string
		for _, t := range st.Layout.Tiers {
			for _, p := range t.Policies {
				add(renderer.PolicyToIptablesChains(polID(p), &proto.Policy{Namespace: p.Namespace, Tier: t.Name, InboundRules: p.Inbound, OutboundRules: p.Outbound}, ipv)...)
			}
		}
		tg := tierGroups(st.Layout)
		for _, t := range tg {
			for _, pg := range append(append([]*rules.PolicyGroup(nil), t.IngressPolicies...), t.EgressPolicies...) {
				if !pg.ShouldBeInlined() {
					add(renderer.PolicyGroupToIptablesChains(pg)...)
				}
			}
		}
		for _, p := range st.Layout.Profiles {
			in, out := renderer.ProfileToIptablesChains(&types.ProfileID{Name: p.Name}, &proto.Profile{InboundRules: p.Inbound, OutboundRules: p.Outbound}, ipv)
			add(in, out)
			profIDs = append(profIDs, p.Name)
		}
		eps := renderer.WorkloadEndpointToIptablesChains("cali12345ab", nil, true, tg, profIDs, nil)
		add(eps...)
		c.Count("rules_rendered_"+flavor.String(), int64(n))
		if err := rs.Err(); err != nil {
			return nil, err
		}
		l.rs[ipv] = rs
		l.chains[ipv] = [2]string{eps[0].Name, eps[1].Name}
	}
	return l, nil
}

func (l *nfLeg) Verdict(dir refpolicy.Direction, p *refpolicy.Packet) (refpolicy.Verdict, string, error) {
	chain := l.chains[p.IPVersion][0]
	if dir == refpolicy.Egress {
		chain = l.chains[p.IPVersion][1]
	}
	pkt := &nfsim.Packet{Packet: *p, CTState: nfsim.CTNew, InIface: "cali12345ab", OutIface: "eth0", TCPSyn: true}
	pkt.Mark = l.c.R.Uint32() &^ l.drop
	res, err := l.rs[p.IPVersion].Run(chain, pkt)
	if err != nil {
		return 0, "", err
	}
	switch {
	case res.Verdict == nfsim.Drop || res.Verdict == nfsim.Reject:
		return refpolicy.Denied, res.TraceString(), nil
	case res.Verdict == nfsim.Accept || res.Mark&l.accept != 0:
		return refpolicy.Allowed, res.TraceString(), nil
	}
	// fell back to the caller without the accept mark: not allowed by this endpoint
	return refpolicy.NoVerdict, res.TraceString(), nil
}

// ---- application-layer checker leg

type flow struct {
	src, dst     net.IP
	sport, dport int
	proto        int
}

func (f *flow) GetSourceIP() net.IP                { return f.src }
func (f *flow) GetDestIP() net.IP                  { return f.dst }
func (f *flow) GetSourcePort() int                 { return f.sport }
func (f *flow) GetDestPort() int                   { return f.dport }
func (f *flow) GetProtocol() int                   { return f.proto }
func (f *flow) GetHttpMethod() *string             { return nil }
func (f *flow) GetHttpPath() *string               { return nil }
func (f *flow) GetSourcePrincipal() *string        { return nil }
func (f *flow) GetDestPrincipal() *string          { return nil }
func (f *flow) GetSourceLabels() map[string]string { return nil }
func (f *flow) GetDestLabels() map[string]string   { return nil }

type alpLeg struct {
	store *policystore.PolicyStore
	ep    *proto.WorkloadEndpoint
}

func (l *alpLeg) Name() string { return "app-policy-checker" }

func newALPLeg(st *State) *alpLeg {
	store := policystore.NewPolicyStore()
	ep := &proto.WorkloadEndpoint{Name: "cali12345ab", State: "active"}
	for _, t := range st.Layout.Tiers {
		ti := &proto.TierInfo{Name: t.Name, DefaultAction: t.DefaultAction}
		for _, p := range t.Policies {
			id := polID(p)
			store.PolicyByID[*id] = &proto.Policy{Namespace: p.Namespace, Tier: t.Name, InboundRules: p.Inbound, OutboundRules: p.Outbound}
			pid := types.PolicyIDToProto(*id)
			if p.Ingress {
				ti.IngressPolicies = append(ti.IngressPolicies, pid)
			}
			if p.Egress {
				ti.EgressPolicies = append(ti.EgressPolicies, pid)
			}
		}
		ep.Tiers = append(ep.Tiers, ti)
	}
	for _, p := range st.Layout.Profiles {
		store.ProfileByID[types.ProfileID{Name: p.Name}] = &proto.Profile{InboundRules: p.Inbound, OutboundRules: p.Outbound}
		ep.ProfileIds = append(ep.ProfileIds, p.Name)
	}
	for id, ms := range st.Sets {
		s := policystore.NewIPSet(proto.IPSetUpdate_NET)
		for _, m := range ms {
			s.AddString(m)
		}
		store.IPSetByID[id] = s
	}
	store.Endpoint = ep
	return &alpLeg{store: store, ep: ep}
}

func (l *alpLeg) Verdict(dir refpolicy.Direction, p *refpolicy.Packet) (refpolicy.Verdict, string, error) {
	rd := rules.RuleDirIngress
	if dir == refpolicy.Egress {
		rd = rules.RuleDirEgress
	}
	f := &flow{src: net.IP(p.Src.AsSlice()), dst: net.IP(p.Dst.AsSlice()), sport: int(p.SrcPort), dport: int(p.DstPort), proto: int(p.Proto)}
	trace, err := checker.Evaluate(checker.EnforcedOnly, rd, l.store, l.ep, f)
	if err != nil {
		return 0, "", fmt.Errorf("checker.Evaluate: %w", err)
	}
	var b strings.Builder
	for _, r := range trace {
		fmt.Fprintf(&b, "%s/%s/%s idx=%d %s\n", r.Tier, r.Kind, r.Name, r.Index, r.Action)
	}
	if n := len(trace); n > 0 && trace[n-1].Action == rules.RuleActionAllow {
		return refpolicy.Allowed, b.String(), nil
	}
	return refpolicy.Denied, b.String(), nil
}

// ---- known-finding model: the L7 checker ignores Rule.IpVersion (and, as a consequence of
// matching CIDRs one by one, treats a negated CIDR list that has no entry of the packet's
// family as "passes" where Felix's renderers drop the whole rule for that family).

const keyALPIPVersion = "app-policy-checker:rule-ip-version-not-applied"

var knownEmitted = map[string]int{}

func emitKnown(key string) bool {
	knownEmitted[key]++
	return knownEmitted[key] <= 4
}

func versionBlind(rs []*proto.Rule, ipv uint8) []*proto.Rule {
	var out []*proto.Rule
	for _, r := range rs {
		cp := googleproto.Clone(r).(*proto.Rule)
		cp.IpVersion = proto.IPVersion_ANY
		keep := func(nets []string) []string {
			var o []string
			for _, n := range nets {
				if strings.Contains(n, ":") == (ipv == 6) {
					o = append(o, n)
				}
			}
			return o
		}
		cp.NotSrcNet, cp.NotDstNet = keep(cp.NotSrcNet), keep(cp.NotDstNet)
		out = append(out, cp)
	}
	return out
}

func versionBlindRef(ep *refpolicy.EndpointPolicy, ipv uint8) *refpolicy.EndpointPolicy {
	out := &refpolicy.EndpointPolicy{}
	seen := map[*refpolicy.Policy]*refpolicy.Policy{}
	conv := func(p *refpolicy.Policy) *refpolicy.Policy {
		if q, ok := seen[p]; ok {
			return q
		}
		q := &refpolicy.Policy{Name: p.Name, Staged: p.Staged, Inbound: versionBlind(p.Inbound, ipv), Outbound: versionBlind(p.Outbound, ipv)}
		seen[p] = q
		return q
	}
	for _, t := range ep.Tiers {
		nt := &refpolicy.Tier{Name: t.Name, DefaultAction: t.DefaultAction}
		for _, p := range t.Ingress {
			nt.Ingress = append(nt.Ingress, conv(p))
		}
		for _, p := range t.Egress {
			nt.Egress = append(nt.Egress, conv(p))
		}
		out.Tiers = append(out.Tiers, nt)
	}
	for _, p := range ep.Profiles {
		out.Profiles = append(out.Profiles, &refpolicy.Profile{Name: p.Name, Inbound: versionBlind(p.Inbound, ipv), Outbound: versionBlind(p.Outbound, ipv)})
	}
	return out
}

func stripProfilePass(l *rulegen.Layout) {
	f := func(rs []*proto.Rule) []*proto.Rule {
		var out []*proto.Rule
		for _, r := range rs {
			if a, _ := refpolicy.ActionOf(r); a != refpolicy.Pass {
				out = append(out, r)
			}
		}
		return out
	}
	for _, p := range l.Profiles {
		p.Inbound, p.Outbound = f(p.Inbound), f(p.Outbound)
	}
}

func run(c *harness.Case) {
	c.Count(okCounter, 1)
	ipv := uint8(4)
	if c.R.Intn(3) == 0 {
		ipv = 6
	}
	g := rulegen.New(c.R, rulegen.Config{NoNamedPorts: true, NoICMP: true})
	layout := g.Layout(rulegen.LayoutConfig{IPVersion: ipv, ComplexRulePct: -1, MaxGroup: 8})
	stripProfilePass(layout)
	st := &State{Layout: layout, Sets: g.SetMembers(), RefSets: g.IPSets()}
	ref := layout.Ref()

	perm := c.R.Perm(32)
	bit := func(i int) uint32 { return 1 << uint(perm[i]) }
	cfg := rules.Config{
		IPSetConfigV4:         ipsets.NewIPVersionConfig(ipsets.IPFamilyV4, "cali", nil, nil),
		IPSetConfigV6:         ipsets.NewIPVersionConfig(ipsets.IPFamilyV6, "cali", nil, nil),
		WorkloadIfacePrefixes: []string{"cali"},
		MarkAccept:            bit(0), MarkPass: bit(1), MarkDrop: bit(2), MarkScratch0: bit(3), MarkScratch1: bit(4),
		MarkEndpoint: bit(5) | bit(6), MarkNonCaliEndpoint: bit(5),
		FlowLogsEnabled:                c.R.Intn(2) == 0,
		AllowVXLANPacketsFromWorkloads: true,
		AllowIPIPPacketsFromWorkloads:  true,
		VXLANPort:                      4789,
	}
	if c.R.Intn(4) == 0 {
		cfg.FilterDenyAction = "REJECT"
	}

	var legs []Leg
	for _, fl := range []nfsim.Flavor{nfsim.Iptables, nfsim.NFT} {
		l, err := newNFLeg(c, st, fl, cfg)
		if err != nil {
			if nfsim.IsRejected(err) {
				class := "unknown"
				var ne *nfsim.Error
				if errors.As(err, &ne) && ne.Class != "" {
					class = ne.Class
				}
				c.Violationf("rejected:"+class+":"+fl.String(), map[string]any{"error": err.Error(), "layout": layout.Summary()}, "%s: the rendered chains would be refused at load time: %v", fl, err)
				return
			}
			harnessError(c, err)
			return
		}
		legs = append(legs, l)
	}
	legs = append(legs, newALPLeg(st))
	for _, f := range extraLegs {
		l, err := f(c, st)
		if err != nil {
			c.Inconclusive("extra leg could not be prepared: " + err.Error())
			return
		}
		if l != nil {
			legs = append(legs, l)
		}
	}

	// probes: mostly the case's family, some of the other family (an endpoint sees both)
	var pkts []refpolicy.Packet
	addPkt := func(p refpolicy.Packet) {
		if refpolicy.HasPorts(p.Proto) {
			pkts = append(pkts, p)
		}
	}
	for i, n := 0, c.Pick(30, 40); i < n; i++ {
		addPkt(g.UniversePacket(ipv))
	}
	all := layout.AllRules()
	for i := 0; i < 3 && len(all) > 0; i++ {
		for _, p := range g.Packets(all[c.R.Intn(len(all))], ipv, 3) {
			addPkt(p)
		}
	}
	for i := 0; i < 8; i++ {
		addPkt(g.UniversePacket(10 - ipv))
	}

	nontrivial := false
	for _, dir := range []refpolicy.Direction{refpolicy.Ingress, refpolicy.Egress} {
		for _, p := range pkts {
			p := p
			d := refpolicy.Endpoint(ref, dir, refpolicy.KindNormal, &p, st.RefSets)
			if d.Ambiguous {
				continue
			}
			verdicts := make([]refpolicy.Verdict, len(legs))
			traces := make([]string, len(legs))
			for i, l := range legs {
				v, tr, err := l.Verdict(dir, &p)
				if err != nil {
					if nfsim.IsUnparsed(err) {
						harnessError(c, err)
						return
					}
					c.Violationf("leg-error:"+l.Name(), map[string]any{"error": err.Error(), "packet": p.String(), "layout": layout.Summary()}, "%s could not evaluate %s: %v", l.Name(), p, err)
					return
				}
				verdicts[i], traces[i] = v, tr
				c.Count("verdicts_"+l.Name(), 1)
				c.Count("verdict_"+v.String()+"_"+l.Name(), 1)
			}
			c.Count("probes", 1)
			if p.IPVersion != ipv {
				c.Count("probes_other_family", 1)
			}
			if d.Why == "policy" || d.Why == "profile" || d.Why == "end-of-tier" {
				nontrivial = true
			}
			agree := true
			for _, v := range verdicts[1:] {
				if v != verdicts[0] {
					agree = false
				}
			}
			if agree {
				if verdicts[0] != d.Verdict {
					c.Count("all_agree_but_differ_from_reference", 1)
				}
				continue
			}
			// disagreement: name the odd one(s) out with the reference
			var odd []string
			obs := map[string]string{}
			for i, l := range legs {
				obs[l.Name()] = verdicts[i].String()
				if verdicts[i] != d.Verdict {
					odd = append(odd, l.Name())
				}
			}
			sort.Strings(odd)
			// known-finding candidate: only the L7 checker differs and it behaves exactly like
			// the reference with IpVersion ignored
			if len(odd) == 1 && odd[0] == "app-policy-checker" {
				vb := refpolicy.Endpoint(versionBlindRef(ref, p.IPVersion), dir, refpolicy.KindNormal, &p, st.RefSets)
				if vb.Verdict == verdicts[2] && vb.Verdict != d.Verdict {
					c.Count("finding_alp_ip_version", 1)
					if emitKnown(keyALPIPVersion) {
						c.Violationf(keyALPIPVersion, map[string]any{"direction": dir.String(), "packet": p.String(), "reference": d.String(), "verdicts": obs,
							"reference_ignoring_ip_version": vb.String(), "layout": layout.Summary(), "checker_trace": traces[2], "iptables_trace": traces[0]},
							"%s %s: iptables, nftables and the reference say %s, the application-layer checker says %s - exactly what the reference gives when Rule.IpVersion (and the per-family CIDR filtering) is ignored: %s",
							dir, p, d.Verdict, verdicts[2], vb)
					}
					continue
				}
			}
			tr := map[string]string{}
			for i, l := range legs {
				tr[l.Name()] = traces[i]
			}
			c.Violationf("disagree:odd="+strings.Join(odd, "+"), map[string]any{"direction": dir.String(), "packet": p.String(), "reference": d.String(), "verdicts": obs,
				"odd_ones_out": odd, "layout": layout.Summary(), "ipsets": st.Sets, "traces": tr},
				"%s %s: implementations disagree: %v; reference: %s; odd one(s) out: %v", dir, p, obs, d, odd)
			return
		}
	}
	if nontrivial {
		c.NonTrivial(fmt.Sprint(layout.Summary()), ipv)
	}
	if c.Index < 4 {
		c.Sample(map[string]any{"layout": layout.Summary(), "ipVersion": ipv, "legs": len(legs)})
	}
}

func tierFromArgs() string {
	for i, a := range os.Args {
		for _, p := range []string{"-tier=", "--tier="} {
			if strings.HasPrefix(a, p) {
				return a[len(p):]
			}
		}
		if (a == "-tier" || a == "--tier") && i+1 < len(os.Args) {
			return os.Args[i+1]
		}
	}
	return "quick"
}

func cases(tier string) int {
	if tier == "thorough" {
		return 3000 // the BPF leg loads four programs per state into the kernel (the verifier is serialised system-wide)
	}
	return 300
}

func main() {
	logrus.SetOutput(io.Discard)
	logrus.SetLevel(logrus.PanicLevel)
	harness.Main(harness.Check{
		ID:    "C12",
		Level: "exploration",
		Rule: "one workload-endpoint policy state per case (0-4 tiers, enforced and staged policies in inline and own-chain groups, default actions Deny/Pass, 0-3 profiles, simple rules over a small packet universe restricted to protocol / CIDR / numeric port / selector-IP-set criteria, IpVersion set or unset); " +
			"evaluated by the iptables renderer + nfsim, the nftables renderer + nfsim and app-policy checker.Evaluate over a policystore and the BPF policy program built by felix/bpf/polprog run in the kernel (bpfleg.go, via extraLegs), both directions, ~40 TCP/UDP/SCTP probes of the case's family plus 8 of the other family; " +
			"non-trivial = some probe was decided by a policy rule, a profile rule or an end-of-tier default; distinct by layout",
		Assumptions: []string{
			"internal/nfsim is the trusted interpreter of the rendered iptables/nftables text",
			"BPF leg (bpfleg.go): the state converted as bpf_ep_mgr.extractRules does, compiled by the real polprog builder, one program per direction and family, executed in the real kernel via bpf(2) (verifier, LPM-trie IP sets, BPF_PROG_TEST_RUN; counter bpf_leg_kernel_states) or, where bpf() is refused, in verif/internal/bpfvm (bpf_leg_interpreter_only_states); it is the policy program only: no NAT, not to/from host, SCTP ports filled in although the TC parser does not extract them; CGO off, no race detector",
			"the application-layer checker's verdict is read from checker.Evaluate's trace: allowed iff the last trace entry is an allow rule (checkTiers returns OK only on those paths)",
			"restricted to features all implementations support: no named ports, ICMP, HTTP, service accounts, services; no pass-action rules in profiles; simple rules only (C08/C09 known findings cannot surface)",
			"candidate finding app-policy-checker:rule-ip-version-not-applied is emitted only when the L7 checker alone differs and its verdict equals the reference evaluated with Rule.IpVersion and the per-family CIDR filtering ignored",
		},
		Cases: cases,
		Run:   run,
		Floors: map[string]int64{
			okCounter:                     int64(cases(tierFromArgs())),
			"probes":                      3000,
			"verdicts_iptables":           3000,
			"verdicts_nft":                3000,
			"verdicts_app-policy-checker": 3000,
			"verdicts_bpf":                3000,
			"bpf_leg_split_programs":      40,
			"verdict_allowed_iptables":    300,
			"verdict_denied_iptables":     300,
			"rules_rendered_iptables":     5000,
			"rules_rendered_nft":          5000,
		},
	})
}

// C18 — desired-versus-actual tracking always reports the exact difference.
//
// Real code driven: felix/deltatracker.DeltaTracker (Desired/Dataplane Set/Get/Delete/DeleteAll/Iter/Len,
// ReplaceAllMap, ReplaceAllIter with and without iterator error, PendingUpdates/PendingDeletions
// Iter with every IterAction, IterBatched with partial success, InSync), deltatracker.SetDeltaTracker
// and felix/cachingmap.CachingMap over a failing fake dataplane map (plain and batched).
//
// Oracle: two plain Go maps (desired, dataplane) updated by the obvious meaning of each operation;
// after EVERY operation the four views are read back completely (Iter, Len, Get on every key of the
// domain) and must equal: desired; dataplane; pending updates = {k:desired[k] | k not in dataplane or
// value differs}; pending deletions = keys(dataplane) \ keys(desired).  Equality of values is the
// equality the tracker was configured with (DeepEqual over pointer values in mode "deep", a custom
// function comparing only the Val field in mode "valonly").  Values are fresh pointers on every
// store and are never mutated (documented contract), so a stale alias shows up as a value that is
// not equal to what that side should hold.
//
// Deliberately not checked
//   - which of two *equal* pointers a view returns (the tracker documents that it aliases equal
//     desired/dataplane values);
//   - that iteration stops after IterActionNoOpStopIteration: in the code under test the `break`
//     leaves the switch, not the loop, so iteration continues.  Every production caller keeps
//     answering "stop", and so does this harness; the state stays exact.  The number of callbacks
//     made after a stop request is recorded (counter calls_after_stop) and reported, not judged,
//     because the property statement is about the tracked state, not about early termination;
//   - the order of any iteration;
//   - a replacement iterator that reports the same key twice (it does not describe a map).  Observed
//     while building this check: Desired{k:A}; ReplaceAllIter yielding (k,A),(k,B) leaves k in BOTH
//     internal dataplane partitions: Dataplane().Iter yields k twice, Dataplane().Len()==2 and k is
//     listed in PendingDeletions although it is desired (after the first pair clears the pending
//     update, Desired().Get consults the old inDataplaneAndDesired map from which k was just removed).
//     Recorded by probeDuplicateKey in counters dupkey_probe / dupkey_probe_inconsistent, not judged;
//   - mutation from inside a pending-updates/deletions callback (not offered by the API contract);
//     nested mutation is limited to deleting the *current* key from inside Desired().Iter /
//     Dataplane().Iter, which is what DesiredView.DeleteAll itself does;
//   - CachingMap: keys changed behind its back (out-of-band) are not judged until the next
//     LoadCacheFromDataplane; error return values are not judged, only convergence when nil is returned.
package main

import (
	"errors"
	"fmt"
	"io"
	"sort"

	"github.com/sirupsen/logrus"

	"github.com/projectcalico/calico/felix/cachingmap"
	dt "github.com/projectcalico/calico/felix/deltatracker"

	"verif/internal/harness"
)

type val struct {
	Val int
	Tag int
}

type fatal struct{}

// run context shared by the sub-runs
type ctx struct {
	c    *harness.Case
	ops  []string
	mode string
}

func (x *ctx) op(format string, a ...any) { x.ops = append(x.ops, fmt.Sprintf(format, a...)) }

func (x *ctx) fail(key string, extra map[string]any, format string, a ...any) {
	ops := x.ops
	if len(ops) > 100 {
		ops = ops[len(ops)-100:]
	}
	d := map[string]any{"mode": x.mode, "ops": ops}
	for k, v := range extra {
		d[k] = v
	}
	x.c.Violationf(key, d, format, a...)
	panic(fatal{})
}

func guard(f func()) {
	defer func() {
		if r := recover(); r != nil {
			if _, ok := r.(fatal); ok {
				return
			}
			panic(r)
		}
	}()
	f()
}

// ---------------------------------------------------------------------------- map tracker

type mapRun struct {
	*ctx
	t       *dt.DeltaTracker[int, *val]
	eq      func(a, b *val) bool
	desired map[int]*val
	dp      map[int]*val
	keys    []int
	serial  int
}

func show(m map[int]*val) string {
	ks := make([]int, 0, len(m))
	for k := range m {
		ks = append(ks, k)
	}
	sort.Ints(ks)
	s := "{"
	for _, k := range ks {
		s += fmt.Sprintf("%d:%d/%d ", k, m[k].Val, m[k].Tag)
	}
	return s + "}"
}

func (r *mapRun) extra() map[string]any {
	return map[string]any{"model_desired": show(r.desired), "model_dataplane": show(r.dp)}
}

func (r *mapRun) newVal() *val {
	r.serial++
	v := &val{Val: 1 + r.c.R.Intn(3)}
	if r.mode == "valonly" {
		v.Tag = r.serial // distinguishes every stored pointer; ignored by the equality
	} else if r.c.R.Intn(6) == 0 {
		v.Tag = 1 // significant under DeepEqual
	}
	return v
}

func (r *mapRun) expPendingUpdates() map[int]*val {
	m := map[int]*val{}
	for k, v := range r.desired {
		if d, ok := r.dp[k]; !ok || !r.eq(v, d) {
			m[k] = v
		}
	}
	return m
}

func (r *mapRun) expPendingDeletions() map[int]*val {
	m := map[int]*val{}
	for k, v := range r.dp {
		if _, ok := r.desired[k]; !ok {
			m[k] = v
		}
	}
	return m
}

// compareView reads a view completely and compares it with want.
func (r *mapRun) compareView(name string, want map[int]*val, iter func(func(k int, v *val)), length int, get func(k int) (*val, bool)) {
	seen := map[int]bool{}
	iter(func(k int, v *val) {
		if seen[k] {
			r.fail(name+"-iter-duplicate", r.extra(), "%s view: key %d produced twice by one iteration", name, k)
		}
		seen[k] = true
		w, ok := want[k]
		if !ok {
			r.fail(name+"-extra-key", r.extra(), "%s view: iteration produced key %d (%+v) which should not be there", name, k, v)
		}
		if v == nil || !r.eq(v, w) {
			r.fail(name+"-wrong-value", r.extra(), "%s view: key %d has %+v, want %+v", name, k, v, w)
		}
	})
	for k := range want {
		if !seen[k] {
			r.fail(name+"-missing-key", r.extra(), "%s view: key %d (%+v) missing from iteration", name, k, want[k])
		}
	}
	if length >= 0 && length != len(want) {
		r.fail(name+"-len", r.extra(), "%s view: Len()=%d want %d", name, length, len(want))
	}
	for _, k := range r.keys {
		v, ok := get(k)
		w, wok := want[k]
		if ok != wok || (ok && (v == nil || !r.eq(v, w))) {
			r.fail(name+"-get", r.extra(), "%s view: Get(%d)=%+v,%v want %+v,%v", name, k, v, ok, w, wok)
		}
	}
	r.c.Count("view_comparisons", 1)
}

func (r *mapRun) verify() {
	t := r.t
	r.compareView("desired", r.desired, t.Desired().Iter, t.Desired().Len(), t.Desired().Get)
	r.compareView("dataplane", r.dp, t.Dataplane().Iter, t.Dataplane().Len(), t.Dataplane().Get)
	pu := r.expPendingUpdates()
	r.compareView("pending-updates", pu, func(f func(int, *val)) {
		t.PendingUpdates().Iter(func(k int, v *val) dt.IterAction { f(k, v); return dt.IterActionNoOp })
	}, t.PendingUpdates().Len(), t.PendingUpdates().Get)
	pd := r.expPendingDeletions()
	r.compareView("pending-deletions", pd, func(f func(int, *val)) {
		t.PendingDeletions().Iter(func(k int) dt.IterAction {
			v, _ := t.PendingDeletions().Get(k)
			f(k, v)
			return dt.IterActionNoOp
		})
	}, t.PendingDeletions().Len(), t.PendingDeletions().Get)
	if got, want := t.InSync(), len(pu) == 0 && len(pd) == 0; got != want {
		r.fail("insync", r.extra(), "InSync()=%v want %v", got, want)
	}
	if len(pu) > 0 {
		r.c.Count("states_with_pending_updates", 1)
	}
	if len(pd) > 0 {
		r.c.Count("states_with_pending_deletions", 1)
	}
}

func (r *mapRun) key() int { return r.keys[r.c.R.Intn(len(r.keys))] }

func (r *mapRun) step() {
	R := r.c.R
	t := r.t
	switch op := R.Intn(100); {
	case op < 20:
		k, v := r.key(), r.newVal()
		r.op("desired.set %d=%d/%d", k, v.Val, v.Tag)
		t.Desired().Set(k, v)
		r.desired[k] = v
	case op < 30:
		k := r.key()
		r.op("desired.delete %d", k)
		t.Desired().Delete(k)
		delete(r.desired, k)
	case op < 33:
		r.op("desired.deleteall")
		t.Desired().DeleteAll()
		r.desired = map[int]*val{}
	case op < 48:
		k, v := r.key(), r.newVal()
		if d, ok := r.desired[k]; ok && R.Intn(2) == 0 {
			v = &val{Val: d.Val, Tag: v.Tag} // make the dataplane agree by value, with a different pointer
		}
		r.op("dataplane.set %d=%d/%d", k, v.Val, v.Tag)
		t.Dataplane().Set(k, v)
		r.dp[k] = v
	case op < 56:
		k := r.key()
		r.op("dataplane.delete %d", k)
		t.Dataplane().Delete(k)
		delete(r.dp, k)
	case op < 58:
		r.op("dataplane.deleteall")
		t.Dataplane().DeleteAll()
		r.dp = map[int]*val{}
	case op < 68: // full replacement
		type kv struct {
			k int
			v *val
		}
		var seq []kv
		for _, k := range r.keys {
			if R.Intn(2) == 0 {
				v := r.newVal()
				if d, ok := r.desired[k]; ok && R.Intn(2) == 0 {
					v = &val{Val: d.Val, Tag: v.Tag}
				}
				seq = append(seq, kv{k, v})
			}
		}
		R.Shuffle(len(seq), func(i, j int) { seq[i], seq[j] = seq[j], seq[i] })
		kind := R.Intn(4)
		switch kind {
		case 0: // ReplaceAllMap
			m := map[int]*val{}
			for _, e := range seq {
				m[e.k] = e.v
			}
			r.op("dataplane.replaceallmap %s", show(m))
			t.Dataplane().ReplaceAllMap(m)
			r.dp = map[int]*val{}
			for k, v := range m {
				r.dp[k] = v
			}
			if len(m) != len(seq) {
				r.fail("harness", nil, "harness bug")
			}
		case 1, 2: // ReplaceAllIter success
			r.op("dataplane.replacealliter %v items", len(seq))
			err := t.Dataplane().ReplaceAllIter(func(f func(int, *val)) error {
				for _, e := range seq {
					f(e.k, e.v)
				}
				return nil
			})
			if err != nil {
				r.fail("replace-error", r.extra(), "ReplaceAllIter returned %v though the iterator succeeded", err)
			}
			r.dp = map[int]*val{}
			for _, e := range seq {
				r.dp[e.k] = e.v
			}
		case 3: // iterator fails after n items: the items seen are applied on top of the old state
			n := 0
			if len(seq) > 0 {
				n = R.Intn(len(seq) + 1)
			}
			r.op("dataplane.replacealliter fails after %d of %d", n, len(seq))
			err := t.Dataplane().ReplaceAllIter(func(f func(int, *val)) error {
				for _, e := range seq[:n] {
					f(e.k, e.v)
				}
				return errors.New("injected iterator failure")
			})
			if err == nil {
				r.fail("replace-error-swallowed", r.extra(), "ReplaceAllIter returned nil though the iterator failed")
			}
			for _, e := range seq[:n] {
				r.dp[e.k] = e.v
			}
			r.c.Count("replace_iter_failed", 1)
		}
		r.c.Count("replace_all", 1)
	case op < 78: // pending updates with actions
		exp := r.expPendingUpdates()
		stopped := false
		seen := map[int]bool{}
		r.op("pendingupdates.iter")
		t.PendingUpdates().Iter(func(k int, v *val) dt.IterAction {
			if stopped {
				r.c.Count("calls_after_stop", 1)
				return dt.IterActionNoOpStopIteration
			}
			w, ok := exp[k]
			if !ok || seen[k] || v == nil || !r.eq(v, w) {
				r.fail("pending-updates-callback", r.extra(), "PendingUpdates().Iter offered %d=%+v; expected pending value %+v (present %v, already seen %v)", k, v, w, ok, seen[k])
			}
			seen[k] = true
			if g, ok := t.PendingUpdates().Get(k); !ok || !r.eq(g, v) {
				r.fail("pending-updates-get-in-callback", r.extra(), "Get(%d) inside the callback = %+v,%v", k, g, ok)
			}
			if g, ok := t.Dataplane().Get(k); ok != (r.dp[k] != nil) || (ok && !r.eq(g, r.dp[k])) {
				r.fail("dataplane-get-in-callback", r.extra(), "Dataplane().Get(%d) inside the callback = %+v,%v want %+v", k, g, ok, r.dp[k])
			}
			switch a := R.Intn(10); {
			case a < 5:
				r.op("  update-dataplane %d", k)
				r.dp[k] = v
				r.c.Count("iter_action_update", 1)
				return dt.IterActionUpdateDataplane
			case a < 9:
				r.c.Count("iter_action_noop", 1)
				return dt.IterActionNoOp
			}
			stopped = true
			r.op("  stop at %d", k)
			r.c.Count("iter_action_stop", 1)
			return dt.IterActionNoOpStopIteration
		})
		if !stopped && len(seen) != len(exp) {
			r.fail("pending-updates-incomplete", r.extra(), "PendingUpdates().Iter offered %d of %d pending keys", len(seen), len(exp))
		}
	case op < 86: // pending deletions with actions
		exp := r.expPendingDeletions()
		stopped := false
		seen := map[int]bool{}
		r.op("pendingdeletions.iter")
		t.PendingDeletions().Iter(func(k int) dt.IterAction {
			if stopped {
				r.c.Count("calls_after_stop", 1)
				return dt.IterActionNoOpStopIteration
			}
			if _, ok := exp[k]; !ok || seen[k] {
				r.fail("pending-deletions-callback", r.extra(), "PendingDeletions().Iter offered %d (expected %v, already seen %v)", k, ok, seen[k])
			}
			seen[k] = true
			if g, ok := t.Dataplane().Get(k); !ok || !r.eq(g, r.dp[k]) {
				r.fail("dataplane-get-in-callback", r.extra(), "Dataplane().Get(%d) inside the deletion callback = %+v,%v", k, g, ok)
			}
			switch a := R.Intn(10); {
			case a < 5:
				r.op("  deleted-from-dataplane %d", k)
				delete(r.dp, k)
				r.c.Count("iter_action_update", 1)
				return dt.IterActionUpdateDataplane
			case a < 9:
				r.c.Count("iter_action_noop", 1)
				return dt.IterActionNoOp
			}
			stopped = true
			r.op("  stop at %d", k)
			r.c.Count("iter_action_stop", 1)
			return dt.IterActionNoOpStopIteration
		})
		if !stopped && len(seen) != len(exp) {
			r.fail("pending-deletions-incomplete", r.extra(), "PendingDeletions().Iter offered %d of %d pending keys", len(seen), len(exp))
		}
	case op < 90: // batched updates, partial success
		exp := r.expPendingUpdates()
		offered := map[int]bool{}
		r.op("pendingupdates.iterbatched")
		t.PendingUpdates().IterBatched(func(ks []int, vs []*val) (int, error) {
			if len(ks) != len(vs) || len(ks) == 0 {
				r.fail("batched-shape", r.extra(), "IterBatched offered %d keys and %d values", len(ks), len(vs))
			}
			for i, k := range ks {
				if w, ok := exp[k]; !ok || !r.eq(vs[i], w) {
					r.fail("batched-updates-callback", r.extra(), "IterBatched offered %d=%+v, expected pending %+v (%v)", k, vs[i], w, ok)
				}
				offered[k] = true
			}
			n := R.Intn(len(ks) + 1)
			var err error
			if n < len(ks) {
				err = errors.New("injected batch failure")
			}
			for i := 0; i < n; i++ {
				r.dp[ks[i]] = vs[i]
			}
			r.op("  batch of %d: applied %d", len(ks), n)
			r.c.Count("batch_calls", 1)
			return n, err
		})
		if len(offered) != len(exp) {
			r.fail("batched-updates-incomplete", r.extra(), "IterBatched offered %d of %d pending keys", len(offered), len(exp))
		}
	case op < 94: // batched deletions
		exp := r.expPendingDeletions()
		offered := map[int]bool{}
		r.op("pendingdeletions.iterbatched")
		t.PendingDeletions().IterBatched(func(ks []int) (int, error) {
			for _, k := range ks {
				if _, ok := exp[k]; !ok {
					r.fail("batched-deletions-callback", r.extra(), "IterBatched offered %d which is not pending deletion", k)
				}
				offered[k] = true
			}
			n := R.Intn(len(ks) + 1)
			var err error
			if n < len(ks) {
				err = errors.New("injected batch failure")
			}
			for i := 0; i < n; i++ {
				delete(r.dp, ks[i])
			}
			r.op("  batch of %d: deleted %d", len(ks), n)
			r.c.Count("batch_calls", 1)
			return n, err
		})
		if len(offered) != len(exp) {
			r.fail("batched-deletions-incomplete", r.extra(), "IterBatched offered %d of %d pending keys", len(offered), len(exp))
		}
	case op < 97: // Desired().Iter deleting the current key (what DeleteAll does), for a subset
		before := len(r.desired)
		visited := map[int]int{}
		r.op("desired.iter+delete-current")
		t.Desired().Iter(func(k int, v *val) {
			visited[k]++
			if R.Intn(2) == 0 {
				r.op("  desired.delete %d", k)
				t.Desired().Delete(k)
				delete(r.desired, k)
			}
		})
		for k, n := range visited {
			if n != 1 {
				r.fail("desired-iter-duplicate", r.extra(), "Desired().Iter with deletion of the current key visited %d %d times", k, n)
			}
		}
		if len(visited) != before {
			r.fail("desired-iter-incomplete", r.extra(), "Desired().Iter with deletion of the current key visited %d of %d keys", len(visited), before)
		}
		r.c.Count("nested_mutation_iters", 1)
	default: // Dataplane().Iter deleting the current key
		before := len(r.dp)
		visited := map[int]int{}
		r.op("dataplane.iter+delete-current")
		t.Dataplane().Iter(func(k int, v *val) {
			visited[k]++
			if R.Intn(2) == 0 {
				r.op("  dataplane.delete %d", k)
				t.Dataplane().Delete(k)
				delete(r.dp, k)
			}
		})
		for k, n := range visited {
			if n != 1 {
				r.fail("dataplane-iter-duplicate", r.extra(), "Dataplane().Iter with deletion of the current key visited %d %d times", k, n)
			}
		}
		if len(visited) != before {
			r.fail("dataplane-iter-incomplete", r.extra(), "Dataplane().Iter with deletion of the current key visited %d of %d keys", len(visited), before)
		}
		r.c.Count("nested_mutation_iters", 1)
	}
	r.c.Count("ops", 1)
}

func runMap(c *harness.Case, mode string) {
	x := &ctx{c: c, mode: mode}
	r := &mapRun{ctx: x, desired: map[int]*val{}, dp: map[int]*val{}, keys: []int{1, 2, 3, 4}}
	if mode == "valonly" {
		r.eq = func(a, b *val) bool { return a.Val == b.Val }
		r.t = dt.New[int, *val](dt.WithValuesEqualFn[int, *val](func(a, b *val) bool { return a.Val == b.Val }))
	} else {
		r.eq = func(a, b *val) bool { return *a == *b }
		r.t = dt.New[int, *val]() // reflect.DeepEqual over the pointers
	}
	guard(func() {
		r.verify()
		n := c.Pick(60, 100)
		for i := 0; i < n; i++ {
			r.step()
			r.verify()
		}
	})
	first := x.ops
	if len(first) > 12 {
		first = first[:12]
	}
	if len(x.ops) >= 40 {
		c.NonTrivial(mode, fmt.Sprint(first))
	}
	if c.Index < 5 {
		c.Sample(map[string]any{"kind": "map/" + mode, "first_ops": first})
	}
}

// ---------------------------------------------------------------------------- set tracker

func runSet(c *harness.Case) {
	x := &ctx{c: c, mode: "set"}
	R := c.R
	t := dt.NewSetDeltaTracker[string]()
	keys := []string{"a", "b", "c", "d", "e"}
	desired, dp := map[string]bool{}, map[string]bool{}
	ex := func() map[string]any {
		return map[string]any{"model_desired": fmt.Sprint(setKeys(desired)), "model_dataplane": fmt.Sprint(setKeys(dp))}
	}
	cmp := func(name string, want map[string]bool, iter func(func(string)), contains func(string) bool, length int) {
		seen := map[string]bool{}
		iter(func(k string) {
			if seen[k] || !want[k] {
				x.fail("set-"+name+"-iter", ex(), "%s set: iteration produced %q (duplicate %v, expected %v)", name, k, seen[k], want[k])
			}
			seen[k] = true
		})
		if len(seen) != len(want) {
			x.fail("set-"+name+"-missing", ex(), "%s set: iteration produced %d of %d members", name, len(seen), len(want))
		}
		for _, k := range keys {
			if contains(k) != want[k] {
				x.fail("set-"+name+"-contains", ex(), "%s set: Contains(%q)=%v want %v", name, k, contains(k), want[k])
			}
		}
		if length >= 0 && length != len(want) {
			x.fail("set-"+name+"-len", ex(), "%s set: Len()=%d want %d", name, length, len(want))
		}
		c.Count("view_comparisons", 1)
	}
	diff := func(a, b map[string]bool) map[string]bool {
		m := map[string]bool{}
		for k := range a {
			if !b[k] {
				m[k] = true
			}
		}
		return m
	}
	verify := func() {
		cmp("desired", desired, t.Desired().Iter, t.Desired().Contains, -1)
		if ub := t.Desired().LenUpperBound(); ub < len(desired) {
			x.fail("set-len-upper-bound", ex(), "LenUpperBound()=%d below the real size %d", ub, len(desired))
		}
		cmp("dataplane", dp, t.Dataplane().Iter, t.Dataplane().Contains, -1)
		pu, pd := diff(desired, dp), diff(dp, desired)
		cmp("pending-updates", pu, func(f func(string)) {
			t.PendingUpdates().Iter(func(k string) dt.IterAction { f(k); return dt.IterActionNoOp })
		}, t.PendingUpdates().Contains, t.PendingUpdates().Len())
		cmp("pending-deletions", pd, func(f func(string)) {
			t.PendingDeletions().Iter(func(k string) dt.IterAction { f(k); return dt.IterActionNoOp })
		}, t.PendingDeletions().Contains, t.PendingDeletions().Len())
		if t.InSync() != (len(pu) == 0 && len(pd) == 0) {
			x.fail("set-insync", ex(), "InSync()=%v", t.InSync())
		}
	}
	guard(func() {
		verify()
		n := c.Pick(60, 100)
		for i := 0; i < n; i++ {
			k := keys[R.Intn(len(keys))]
			switch op := R.Intn(100); {
			case op < 22:
				x.op("desired.add %s", k)
				t.Desired().Add(k)
				desired[k] = true
			case op < 34:
				x.op("desired.delete %s", k)
				t.Desired().Delete(k)
				delete(desired, k)
			case op < 37:
				x.op("desired.deleteall")
				t.Desired().DeleteAll()
				desired = map[string]bool{}
			case op < 52:
				x.op("dataplane.add %s", k)
				t.Dataplane().Add(k)
				dp[k] = true
			case op < 62:
				x.op("dataplane.delete %s", k)
				t.Dataplane().Delete(k)
				delete(dp, k)
			case op < 65:
				x.op("dataplane.deleteall")
				t.Dataplane().DeleteAll()
				dp = map[string]bool{}
			case op < 76:
				var seq []string
				for _, kk := range keys {
					if R.Intn(2) == 0 {
						seq = append(seq, kk)
					}
				}
				R.Shuffle(len(seq), func(i, j int) { seq[i], seq[j] = seq[j], seq[i] })
				failAt := -1
				if R.Intn(3) == 0 {
					failAt = R.Intn(len(seq) + 1)
				}
				x.op("dataplane.replacefromiter %v failAt=%d", seq, failAt)
				err := t.Dataplane().ReplaceFromIter(func(f func(string)) error {
					for i, kk := range seq {
						if i == failAt {
							return errors.New("injected")
						}
						f(kk)
					}
					if failAt == len(seq) {
						return errors.New("injected")
					}
					return nil
				})
				if (err != nil) != (failAt >= 0) {
					x.fail("set-replace-error", ex(), "ReplaceFromIter err=%v, injected failure=%v", err, failAt >= 0)
				}
				if failAt < 0 {
					dp = map[string]bool{}
					for _, kk := range seq {
						dp[kk] = true
					}
				} else {
					for _, kk := range seq[:failAt] {
						dp[kk] = true
					}
					c.Count("replace_iter_failed", 1)
				}
				c.Count("replace_all", 1)
			case op < 88:
				exp := diff(desired, dp)
				stopped := false
				x.op("pendingupdates.iter")
				t.PendingUpdates().Iter(func(kk string) dt.IterAction {
					if stopped {
						c.Count("calls_after_stop", 1)
						return dt.IterActionNoOpStopIteration
					}
					if !exp[kk] {
						x.fail("set-pending-updates-callback", ex(), "offered %q which is not pending", kk)
					}
					delete(exp, kk)
					switch a := R.Intn(10); {
					case a < 5:
						x.op("  added-to-dataplane %s", kk)
						dp[kk] = true
						c.Count("iter_action_update", 1)
						return dt.IterActionUpdateDataplane
					case a < 9:
						c.Count("iter_action_noop", 1)
						return dt.IterActionNoOp
					}
					stopped = true
					c.Count("iter_action_stop", 1)
					return dt.IterActionNoOpStopIteration
				})
				if !stopped && len(exp) != 0 {
					x.fail("set-pending-updates-incomplete", ex(), "%d pending members never offered", len(exp))
				}
			default:
				exp := diff(dp, desired)
				stopped := false
				x.op("pendingdeletions.iter")
				t.PendingDeletions().Iter(func(kk string) dt.IterAction {
					if stopped {
						c.Count("calls_after_stop", 1)
						return dt.IterActionNoOpStopIteration
					}
					if !exp[kk] {
						x.fail("set-pending-deletions-callback", ex(), "offered %q which is not pending deletion", kk)
					}
					delete(exp, kk)
					switch a := R.Intn(10); {
					case a < 5:
						x.op("  deleted-from-dataplane %s", kk)
						delete(dp, kk)
						c.Count("iter_action_update", 1)
						return dt.IterActionUpdateDataplane
					case a < 9:
						c.Count("iter_action_noop", 1)
						return dt.IterActionNoOp
					}
					stopped = true
					c.Count("iter_action_stop", 1)
					return dt.IterActionNoOpStopIteration
				})
				if !stopped && len(exp) != 0 {
					x.fail("set-pending-deletions-incomplete", ex(), "%d pending members never offered", len(exp))
				}
			}
			c.Count("ops", 1)
			verify()
		}
	})
	first := x.ops
	if len(first) > 12 {
		first = first[:12]
	}
	if len(x.ops) >= 40 {
		c.NonTrivial("set", fmt.Sprint(first))
	}
}

func setKeys(m map[string]bool) []string {
	l := []string{}
	for k := range m {
		l = append(l, k)
	}
	sort.Strings(l)
	return l
}

// ---------------------------------------------------------------------------- big domain, batched

// runBig drives the 128-item batching paths of IterBatched, which a 4-key domain never reaches.
func runBig(c *harness.Case) {
	x := &ctx{c: c, mode: "big"}
	R := c.R
	t := dt.New[int, int]()
	desired, dp := map[int]int{}, map[int]int{}
	nkeys := 130 + R.Intn(300)
	for k := 0; k < nkeys; k++ {
		if R.Intn(10) < 8 {
			v := R.Intn(3)
			t.Desired().Set(k, v)
			desired[k] = v
		}
		if R.Intn(10) < 4 {
			v := R.Intn(3)
			t.Dataplane().Set(k, v)
			dp[k] = v
		}
	}
	x.op("filled %d keys: %d desired, %d in dataplane", nkeys, len(desired), len(dp))
	verify := func() {
		pu, pd := map[int]int{}, map[int]bool{}
		for k, v := range desired {
			if d, ok := dp[k]; !ok || d != v {
				pu[k] = v
			}
		}
		for k := range dp {
			if _, ok := desired[k]; !ok {
				pd[k] = true
			}
		}
		got := map[int]int{}
		t.PendingUpdates().Iter(func(k, v int) dt.IterAction { got[k] = v; return dt.IterActionNoOp })
		if len(got) != len(pu) || t.PendingUpdates().Len() != len(pu) {
			x.fail("big-pending-updates", nil, "pending updates has %d entries (Len %d), want %d", len(got), t.PendingUpdates().Len(), len(pu))
		}
		for k, v := range pu {
			if g, ok := got[k]; !ok || g != v {
				x.fail("big-pending-updates", nil, "pending update %d=%d missing or wrong (%d,%v)", k, v, g, ok)
			}
		}
		gd := map[int]bool{}
		t.PendingDeletions().Iter(func(k int) dt.IterAction { gd[k] = true; return dt.IterActionNoOp })
		if len(gd) != len(pd) || t.PendingDeletions().Len() != len(pd) {
			x.fail("big-pending-deletions", nil, "pending deletions has %d entries, want %d", len(gd), len(pd))
		}
		for k := range pd {
			if !gd[k] {
				x.fail("big-pending-deletions", nil, "pending deletion %d missing", k)
			}
		}
		gdp := map[int]int{}
		t.Dataplane().Iter(func(k, v int) { gdp[k] = v })
		if len(gdp) != len(dp) || t.Dataplane().Len() != len(dp) {
			x.fail("big-dataplane", nil, "dataplane view has %d entries, want %d", len(gdp), len(dp))
		}
		for k, v := range dp {
			if g, ok := gdp[k]; !ok || g != v {
				x.fail("big-dataplane", nil, "dataplane view %d=%d,%v want %d", k, g, ok, v)
			}
		}
		gde := map[int]int{}
		t.Desired().Iter(func(k, v int) { gde[k] = v })
		if len(gde) != len(desired) || t.Desired().Len() != len(desired) {
			x.fail("big-desired", nil, "desired view has %d entries (Len %d), want %d", len(gde), t.Desired().Len(), len(desired))
		}
		c.Count("view_comparisons", 4)
	}
	guard(func() {
		verify()
		for round := 0; round < 3; round++ {
			// failure probability per batch call
			pfail := []int{0, 30, 70}[R.Intn(3)]
			pending := t.PendingUpdates().Len()
			offered := map[int]bool{}
			x.op("pendingupdates.iterbatched pfail=%d pending=%d", pfail, pending)
			t.PendingUpdates().IterBatched(func(ks []int, vs []int) (int, error) {
				if len(ks) == 0 || len(ks) != len(vs) || len(ks) > 128 {
					x.fail("big-batch-shape", nil, "batch of %d keys / %d values", len(ks), len(vs))
				}
				n := len(ks)
				var err error
				if R.Intn(100) < pfail {
					n = R.Intn(len(ks))
					err = errors.New("injected")
				}
				for i, k := range ks {
					if v, ok := desired[k]; !ok || v != vs[i] {
						x.fail("big-batch-offer", nil, "batch offered %d=%d, desired %d,%v", k, vs[i], v, ok)
					}
					offered[k] = true
				}
				for i := 0; i < n; i++ {
					dp[ks[i]] = vs[i]
				}
				x.op("  batch %d applied %d", len(ks), n)
				c.Count("batch_calls", 1)
				if len(ks) == 128 {
					c.Count("full_batches", 1)
				}
				return n, err
			})
			if len(offered) != pending {
				x.fail("big-batch-incomplete", nil, "IterBatched offered %d of %d pending updates", len(offered), pending)
			}
			verify()
			pendingD := t.PendingDeletions().Len()
			offeredD := map[int]bool{}
			x.op("pendingdeletions.iterbatched pfail=%d pending=%d", pfail, pendingD)
			t.PendingDeletions().IterBatched(func(ks []int) (int, error) {
				n := len(ks)
				var err error
				if R.Intn(100) < pfail {
					n = R.Intn(len(ks))
					err = errors.New("injected")
				}
				for _, k := range ks {
					if _, ok := desired[k]; ok {
						x.fail("big-batch-offer", nil, "deletion batch offered desired key %d", k)
					}
					offeredD[k] = true
				}
				for i := 0; i < n; i++ {
					delete(dp, ks[i])
				}
				x.op("  batch %d deleted %d", len(ks), n)
				c.Count("batch_calls", 1)
				if len(ks) == 128 {
					c.Count("full_batches", 1)
				}
				return n, err
			})
			if len(offeredD) != pendingD {
				x.fail("big-batch-incomplete", nil, "IterBatched offered %d of %d pending deletions", len(offeredD), pendingD)
			}
			verify()
			// churn for the next round
			for i := 0; i < nkeys/2; i++ {
				k := R.Intn(nkeys)
				switch R.Intn(4) {
				case 0:
					v := R.Intn(3)
					t.Desired().Set(k, v)
					desired[k] = v
				case 1:
					t.Desired().Delete(k)
					delete(desired, k)
				case 2:
					v := R.Intn(3)
					t.Dataplane().Set(k, v)
					dp[k] = v
				default:
					t.Dataplane().Delete(k)
					delete(dp, k)
				}
			}
			x.op("churn")
			verify()
		}
	})
	c.NonTrivial("big", nkeys, len(x.ops))
}

// ---------------------------------------------------------------------------- caching map

var errNotExists = errors.New("fake: key does not exist")

type fakeMap struct {
	x        *ctx
	content  map[int]int
	pfail    int // % of operations that fail cleanly (no effect)
	calls    []string
	failures int
	loadsOK  int
	// recorded effective writes of the current Apply call
	updated map[int]int
	deleted map[int]bool
}

func (f *fakeMap) roll() bool {
	if f.x.c.R.Intn(100) < f.pfail {
		f.failures++
		f.x.c.Count("fake_failures", 1)
		return true
	}
	return false
}

func (f *fakeMap) Update(k, v int) error {
	f.x.c.Count("fake_updates", 1)
	if f.roll() {
		f.x.op("  fake.update %d=%d FAILS", k, v)
		return errors.New("injected update failure")
	}
	f.x.op("  fake.update %d=%d", k, v)
	f.content[k] = v
	f.updated[k] = v
	return nil
}

func (f *fakeMap) Delete(k int) error {
	f.x.c.Count("fake_deletes", 1)
	if _, ok := f.content[k]; !ok {
		f.x.op("  fake.delete %d ENOENT", k)
		f.x.c.Count("fake_enoent", 1)
		return errNotExists
	}
	if f.roll() {
		f.x.op("  fake.delete %d FAILS", k)
		return errors.New("injected delete failure")
	}
	f.x.op("  fake.delete %d", k)
	delete(f.content, k)
	f.deleted[k] = true
	return nil
}

func (f *fakeMap) Load() (map[int]int, error) {
	if f.roll() {
		f.x.op("  fake.load FAILS")
		return nil, errors.New("injected load failure")
	}
	m := map[int]int{}
	for k, v := range f.content {
		m[k] = v
	}
	f.x.op("  fake.load %d entries", len(m))
	f.loadsOK++
	return m, nil
}

func (f *fakeMap) ErrIsNotExists(err error) bool { return errors.Is(err, errNotExists) }

type fakeBatchedMap struct{ *fakeMap }

func (f fakeBatchedMap) BatchUpdate(ks []int, vs []int) (int, error) {
	for i := range ks {
		if err := f.Update(ks[i], vs[i]); err != nil {
			return i, err
		}
	}
	return len(ks), nil
}

func (f fakeBatchedMap) BatchDelete(ks []int) (int, error) {
	for i := range ks {
		if err := f.Delete(ks[i]); err != nil {
			return i, err
		}
	}
	return len(ks), nil
}

func runCachingMap(c *harness.Case) {
	x := &ctx{c: c, mode: "cachingmap"}
	R := c.R
	fake := &fakeMap{x: x, content: map[int]int{}, pfail: []int{0, 15, 40}[R.Intn(3)], updated: map[int]int{}, deleted: map[int]bool{}}
	var dpm cachingmap.DataplaneMap[int, int] = fake
	batched := R.Intn(2) == 0
	if batched {
		dpm = fakeBatchedMap{fake}
		x.mode = "cachingmap-batched"
	}
	cm := cachingmap.New[int, int]("verif", dpm)
	keys := []int{1, 2, 3, 4, 5}
	// pre-existing dataplane content
	for _, k := range keys {
		if R.Intn(2) == 0 {
			fake.content[k] = 1 + R.Intn(3)
		}
	}
	x.op("initial dataplane %v", fake.content)
	desired := map[int]int{}
	oob := map[int]bool{} // keys changed behind the caching map's back since the last successful load
	loaded := false
	ex := func() map[string]any {
		return map[string]any{"model_desired": fmt.Sprint(desired), "real_dataplane": fmt.Sprint(fake.content), "out_of_band": fmt.Sprint(oob), "loaded": loaded}
	}
	cacheView := func() map[int]int {
		m := map[int]int{}
		cm.Dataplane().Iter(func(k, v int) { m[k] = v })
		return m
	}
	checkDesired := func() {
		got := map[int]int{}
		cm.Desired().Iter(func(k, v int) { got[k] = v })
		if len(got) != len(desired) {
			x.fail("cm-desired", ex(), "Desired() has %d entries want %d", len(got), len(desired))
		}
		for k, v := range desired {
			if g, ok := got[k]; !ok || g != v {
				x.fail("cm-desired", ex(), "Desired()[%d]=%d,%v want %d", k, g, ok, v)
			}
			if g, ok := cm.Desired().Get(k); !ok || g != v {
				x.fail("cm-desired", ex(), "Desired().Get(%d)=%d,%v want %d", k, g, ok, v)
			}
		}
	}
	checkCache := func() {
		if !loaded {
			return
		}
		cv := cacheView()
		for _, k := range keys {
			if oob[k] {
				continue
			}
			rv, rok := fake.content[k]
			gv, gok := cv[k]
			if rok != gok || rv != gv {
				x.fail("cm-cache-diverged", ex(), "dataplane cache says %d=%d,%v but the real map has %d,%v (no out-of-band change to that key)", k, gv, gok, rv, rok)
			}
		}
		c.Count("cache_comparisons", 1)
	}
	apply := func(name string, f func() error, wantUpdates, wantDeletes bool) {
		before := map[int]int{}
		if loaded {
			before = cacheView()
		}
		realBefore := map[int]int{}
		for k, v := range fake.content {
			realBefore[k] = v
		}
		fake.updated, fake.deleted = map[int]int{}, map[int]bool{}
		fails0, loads0 := fake.failures, fake.loadsOK
		x.op("%s", name)
		err := f()
		c.Count("applies", 1)
		if fake.loadsOK > loads0 {
			// the first Apply loaded the cache (before writing anything): from then on nothing is out of band
			loaded = true
			oob = map[int]bool{}
			before = realBefore
			c.Count("loads", 1)
		}
		if !loaded {
			before = nil
		}
		// minimality: every effective write is one the difference called for
		for k, v := range fake.updated {
			if d, ok := desired[k]; !ok || d != v {
				x.fail("cm-spurious-update", ex(), "%s wrote %d=%d but desired has %d,%v", name, k, v, d, ok)
			}
			if before != nil {
				if b, ok := before[k]; ok && b == v {
					x.fail("cm-redundant-update", ex(), "%s rewrote %d=%d although the dataplane cache already had that value", name, k, v)
				}
			}
			if !wantUpdates {
				x.fail("cm-update-in-deletions-only", ex(), "%s wrote %d=%d", name, k, v)
			}
		}
		for k := range fake.deleted {
			if _, ok := desired[k]; ok {
				x.fail("cm-spurious-delete", ex(), "%s deleted %d which is desired", name, k)
			}
			if !wantDeletes {
				x.fail("cm-delete-in-updates-only", ex(), "%s deleted %d", name, k)
			}
		}
		if err == nil {
			if fake.failures != fails0 {
				c.Count("applies_nil_despite_failure", 1) // recorded, convergence below decides
			}
			for _, k := range keys {
				if oob[k] {
					continue
				}
				rv, rok := fake.content[k]
				dv, dok := desired[k]
				if wantUpdates && dok && (!rok || rv != dv) {
					x.fail("cm-not-converged", ex(), "%s returned nil but real map has %d=%d,%v, desired %d", name, k, rv, rok, dv)
				}
				if wantDeletes && !dok && rok {
					x.fail("cm-not-converged", ex(), "%s returned nil but real map still has undesired %d=%d", name, k, rv)
				}
			}
			c.Count("applies_converged", 1)
		}
	}
	guard(func() {
		n := c.Pick(50, 80)
		for i := 0; i < n; i++ {
			k := keys[R.Intn(len(keys))]
			switch op := R.Intn(100); {
			case op < 25:
				v := 1 + R.Intn(3)
				x.op("desired.set %d=%d", k, v)
				cm.Desired().Set(k, v)
				desired[k] = v
			case op < 37:
				x.op("desired.delete %d", k)
				cm.Desired().Delete(k)
				delete(desired, k)
			case op < 40:
				x.op("desired.deleteall")
				cm.Desired().DeleteAll()
				desired = map[int]int{}
			case op < 48: // change behind its back
				if R.Intn(2) == 0 {
					v := 1 + R.Intn(3)
					x.op("out-of-band set %d=%d", k, v)
					fake.content[k] = v
				} else {
					x.op("out-of-band delete %d", k)
					delete(fake.content, k)
				}
				oob[k] = true
				c.Count("out_of_band", 1)
			case op < 55: // caller updates dataplane and tells the caching map (documented use of Dataplane())
				if loaded {
					if R.Intn(2) == 0 {
						v := 1 + R.Intn(3)
						x.op("dataplane.set (both) %d=%d", k, v)
						fake.content[k] = v
						cm.Dataplane().Set(k, v)
					} else {
						x.op("dataplane.delete (both) %d", k)
						delete(fake.content, k)
						cm.Dataplane().Delete(k)
					}
					delete(oob, k)
				}
			case op < 63:
				x.op("load")
				l0 := fake.loadsOK
				_ = cm.LoadCacheFromDataplane()
				if fake.loadsOK > l0 {
					loaded = true
					oob = map[int]bool{}
					c.Count("loads", 1)
				}
			case op < 80:
				apply("apply-all", cm.ApplyAllChanges, true, true)
			case op < 90:
				apply("apply-updates", cm.ApplyUpdatesOnly, true, false)
			default:
				apply("apply-deletions", cm.ApplyDeletionsOnly, false, true)
			}
			c.Count("ops", 1)
			checkDesired()
			checkCache()
		}
	})
	first := x.ops
	if len(first) > 12 {
		first = first[:12]
	}
	if len(x.ops) >= 40 {
		c.NonTrivial(x.mode, fake.pfail, fmt.Sprint(first))
	}
	if c.Index < 8 {
		c.Sample(map[string]any{"kind": x.mode, "pfail": fake.pfail, "first_ops": first})
	}
}

// probeDuplicateKey: an iterator that reports the same key twice does not describe a map, so it is not
// part of the judged input domain.  What the tracker does with it is recorded only.
func probeDuplicateKey(c *harness.Case) {
	t := dt.New[string, string]()
	t.Desired().Set("k", "A")
	_ = t.Dataplane().ReplaceAllIter(func(f func(string, string)) error {
		f("k", "A") // equal to the desired value
		f("k", "B")
		return nil
	})
	n := 0
	t.Dataplane().Iter(func(k, v string) { n++ })
	_, pendingDel := t.PendingDeletions().Get("k")
	c.Count("dupkey_probe", 1)
	if n != 1 || pendingDel {
		c.Count("dupkey_probe_inconsistent", 1)
	}
}

func run(c *harness.Case) {
	if c.Index%500 == 0 {
		probeDuplicateKey(c)
	}
	switch c.Index % 6 {
	case 0, 1:
		runMap(c, "deep")
	case 2:
		runMap(c, "valonly")
	case 3:
		runSet(c)
	case 4:
		runCachingMap(c)
	default:
		if c.Index%12 == 5 {
			runBig(c)
		} else {
			runMap(c, "valonly")
		}
	}
}

func main() {
	logrus.SetOutput(io.Discard)
	logrus.SetLevel(logrus.PanicLevel)
	harness.Main(harness.Check{
		ID:    "C18",
		Level: "exploration",
		Rule: "case kinds by index: DeltaTracker[int,*val] with DeepEqual (2/6) or Val-only equality (2/6 minus big), SetDeltaTracker (1/6), CachingMap over a failing fake map, plain or batched (1/6), 130..430-key tracker for the 128-item batching path (1/12); " +
			"60 (thorough 100) PRNG operations over 4 keys x 3 values (5 for sets/caching map): desired/dataplane set/delete/delete-all, full replacement by map/iterator/failing iterator/duplicate key, pending iterations with every IterAction, batched iterations with partial success, iteration deleting the current key; " +
			"all four views are read back and compared with two plain maps after every operation. Non-trivial = at least 40 recorded operations; distinct by kind and first 12 operations",
		Assumptions: []string{
			"oracle = two plain Go maps and their set difference, equality = the equality function the tracker was given",
			"values are never mutated after being stored (documented contract); which of two equal pointers is returned is not judged",
			"continuing iteration after IterActionNoOpStopIteration is recorded (calls_after_stop), not judged",
			"fake dataplane map: failures are clean (no effect); batched fake applies a prefix and reports its length; out-of-band keys are exempt until the next load",
			"single goroutine (the trackers are not synchronised)",
		},
		Cases: func(tier string) int {
			if tier == "thorough" {
				return 150000
			}
			return 6000
		},
		Run: run,
		Floors: map[string]int64{"ops": 30000, "view_comparisons": 100000, "replace_all": 1500, "replace_iter_failed": 300, "iter_action_update": 3000,
			"iter_action_stop": 500, "batch_calls": 1500, "full_batches": 100, "nested_mutation_iters": 1000, "applies": 1500, "applies_converged": 500,
			"fake_failures": 300, "fake_enoent": 50, "cache_comparisons": 3000, "states_with_pending_updates": 20000, "states_with_pending_deletions": 20000},
	})
}

// C03 — each local endpoint gets exactly its matching policies, correctly ordered.
//
// Real code driven: the assembled calculation graph of C01 (ActiveRulesCalculator + labelindex
// InheritIndex decide the matches, PolicyResolver/PolicySorter build the per-endpoint lists,
// EventSequencer.tierInfoToProtoTierInfo splits them), fed generated distorted histories.
//
// Oracle (independent reference, verif/internal/calcgen/ref.go): after EVERY flush that follows
// in-sync, from the datastore state delivered so far (not from anything the graph computed):
// effective labels = own labels over labels inherited from the endpoint's profiles; a policy matches
// iff its selector (libcalico-go/lib/selector, trusted) matches them.  For each local endpoint the
// emitted lists must contain, per present tier, exactly the matching policies of that tier, ingress
// and egress split by the policy's types (no types = both); tiers non-decreasing in (order, unset
// last, name), policies inside a tier non-decreasing in (order, unset last, name); host endpoints'
// untracked / pre-DNAT / forward / normal lists likewise.  The set of active policies must contain
// every such listed policy and nothing but matching policies (or AssumeNeededOnEveryNode ones).
//
// Deliberately not checked:
//   - presence and position of tiers whose Tier resource is absent (only that what they list are
//     matching policies of that tier, in order);
//   - relative order of two policies (tiers) with equal order AND equal name (other kind/namespace);
//   - untracked / pre-DNAT policies on workload endpoints (they only have a meaning on host
//     endpoints; the statement does not say whether a workload endpoint lists them);
//   - tier default actions, profile id lists, endpoint data (C01 covers determinism of those);
//   - whether a policy that matches only through the AssumeNeededOnEveryNode hint is active;
//   - label conflicts between two profiles of one endpoint (never generated).
package main

import (
	"fmt"
	"sort"
	"time"

	"verif/internal/calcgen"
	"verif/internal/harness"
	"verif/internal/shadowdp"
)

type result struct {
	defects    []string
	keys       []string
	nontrivial bool
}

// judge compares the shadow's endpoints and active policies with the reference of state s.
func judge(c *harness.Case, u *calcgen.Universe, s calcgen.State, sh *shadowdp.Shadow) (res result, err error) {
	ref, err := calcgen.NewReference(u, s)
	if err != nil {
		return res, err
	}
	add := func(key string, ds []string) {
		if len(ds) > 0 {
			res.keys = append(res.keys, key)
			res.defects = append(res.defects, ds...)
		}
	}
	st := sh.State
	for id, ep := range ref.Endpoints {
		c.Count("endpoint_judgements", 1)
		c.Count("matching_pairs", int64(len(ep.Matching)))
		if ep.IsHost {
			h, ok := st.HEPs[id]
			if !ok {
				add("endpoint-missing", []string{fmt.Sprintf("local host endpoint %s exists in the datastore but was never emitted / was removed", id)})
				continue
			}
			add("hep-normal-tiers", ref.CheckTiers(ep, "tiers", h.Tiers, calcgen.WantNormal, true))
			add("hep-untracked-tiers", ref.CheckTiers(ep, "untracked_tiers", h.UntrackedTiers, calcgen.WantUntracked, true))
			add("hep-prednat-tiers", ref.CheckTiers(ep, "pre_dnat_tiers", h.PreDnatTiers, calcgen.WantPreDNAT, false))
			add("hep-forward-tiers", ref.CheckTiers(ep, "forward_tiers", h.ForwardTiers, calcgen.WantForward, true))
			for _, t := range h.Tiers {
				if len(h.Tiers) >= 2 || len(t.IngressPolicies) >= 2 || len(t.EgressPolicies) >= 2 {
					res.nontrivial = true
				}
			}
		} else {
			w, ok := st.WEPs[id]
			if !ok {
				add("endpoint-missing", []string{fmt.Sprintf("local workload endpoint %s exists in the datastore but was never emitted / was removed", id)})
				continue
			}
			add("wep-tiers", ref.CheckTiers(ep, "tiers", w.Tiers, calcgen.WantNormal, true))
			for _, t := range w.Tiers {
				if len(w.Tiers) >= 2 || len(t.IngressPolicies) >= 2 || len(t.EgressPolicies) >= 2 {
					res.nontrivial = true
				}
			}
		}
	}
	for id := range st.WEPs {
		if _, ok := ref.Endpoints[id]; !ok {
			add("endpoint-stale", []string{fmt.Sprintf("workload endpoint %s is in the dataplane but not (validly) in the datastore", id)})
		}
	}
	for id := range st.HEPs {
		if _, ok := ref.Endpoints[id]; !ok {
			add("endpoint-stale", []string{fmt.Sprintf("host endpoint %s is in the dataplane but not (validly) in the datastore", id)})
		}
	}
	must, may := ref.ActiveBounds()
	c.Count("active_policy_judgements", int64(len(st.Policies)+len(must)))
	var ds []string
	for id := range must {
		if _, ok := st.Policies[id]; !ok {
			ds = append(ds, fmt.Sprintf("policy %s applies to a local endpoint but is not active", id))
		}
	}
	sort.Strings(ds)
	add("matching-policy-not-active", ds)
	ds = nil
	for id := range st.Policies {
		if !may[id] {
			ds = append(ds, fmt.Sprintf("policy %s is active but matches no local endpoint", id))
		}
	}
	sort.Strings(ds)
	add("non-matching-policy-active", ds)
	return res, nil
}

func run(c *harness.Case) {
	size := calcgen.Size{Routes: c.Index%4 == 0, Extra: c.Thorough() && c.Index%2 == 0}
	sc := calcgen.NewScenario(c.R, calcgen.ScenarioOptions{Size: size, MinSteps: 30, MaxSteps: c.Pick(120, 200),
		History: calcgen.HistoryOptions{Focus: []string{calcgen.ClassPolicy, calcgen.ClassTier, calcgen.ClassWEP, calcgen.ClassHEP, calcgen.ClassProfileLabels}}})
	if err := sc.U.SelfCheck(); err != nil {
		calcgen.Debugf("case %d: %v", c.Index, err)
		c.Inconclusive("generator-tag-mismatch")
		c.Count("generator_tag_mismatch", 1)
		return
	}
	c.Count("histories", 1)
	reported := map[string]bool{}
	nontrivial := false
	refErr := false
	flushNo := 0
	run := sc.RunHistory(func(d *calcgen.Driver, sh *shadowdp.Shadow) {
		flushNo++
		if !d.InSync() || refErr {
			return
		}
		c.Count("flushes_judged", 1)
		res, err := judge(c, sc.U, d.Delivered(), sh)
		if err != nil {
			refErr = true
			return
		}
		nontrivial = nontrivial || res.nontrivial
		for _, k := range res.keys {
			if reported[k] {
				continue
			}
			reported[k] = true
			w := sc.Witness()
			w["flush_number"] = flushNo
			w["delivered_state_at_flush"] = sc.U.DescribeState(d.Delivered())
			ds := res.defects
			if len(ds) > 20 {
				ds = ds[:20]
			}
			w["defects"] = ds
			c.Violationf(k, w, "after flush %d the emitted endpoints disagree with the reference: %s", flushNo, res.defects[0])
		}
	})
	if refErr {
		c.Inconclusive("reference-error")
		return
	}
	c.Count("messages_folded", int64(run.Shadow.NumMessages))
	st := run.Shadow.State
	if nontrivial {
		c.NonTrivial(st.Summary(), fmt.Sprint(sc.H.Final))
	}
	c.Distinct("final_states", st.Summary(), fmt.Sprint(sc.H.Final))
	if c.Index < 3 {
		c.Sample(map[string]any{"graph": fmt.Sprintf("%+v", sc.Graph), "flush": sc.H.FlushStrategy, "ops": len(sc.H.Ops), "final": st.Summary()})
	}
}

func main() {
	harness.Main(harness.Check{
		ID:    "C03",
		Level: "exploration",
		Rule: "generator of C01 biased towards policy/tier/endpoint/profile-label churn (4 tiers with equal and unset orders, 6-9 policies of 5 kinds incl. same-name pairs, unset/equal orders, all types combinations, untracked/pre-DNAT/apply-on-forward host policies, selectors over own and inherited labels); " +
			"the reference is evaluated after every post-in-sync flush of a 30-120 step distorted history; non-trivial = some endpoint had >=2 tiers or >=2 policies in one tier at a judged flush; distinct by final state",
		Assumptions: []string{
			"reference matcher (verif/internal/calcgen/ref.go) written from the property statement; selector parsing/evaluation by libcalico-go/lib/selector is trusted",
			"shadowdp fold is the observer",
			"generated values pass/fail the repo's validators as tagged (Universe.SelfCheck per case)",
		},
		Cases: func(tier string) int {
			if tier == "thorough" {
				return 8000
			}
			return 400
		},
		Run: run,
		Floors: map[string]int64{"histories": 40, "flushes_judged": 300, "endpoint_judgements": 600, "matching_pairs": 1000,
			"active_policy_judgements": 500},
		CaseTimeout: 180 * time.Second,
	})
}

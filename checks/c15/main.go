// C15 — iptables/nftables sync converges and leaves other software's rules alone.
//
// Two sub-harnesses share this check (case index modulo 4 == 3 runs the nftables one, see nft.go):
//
//	iptables: the real felix/iptables.Table (NewTable with NewCmdOverride/SleepOverride/NowOverride/
//	          LookPathOverride) against verif/internal/fakeipt (iptables-save / iptables-restore --noflush
//	          over a fake kernel table; legacy and nft backend modes; insert and append mode).
//	nftables: the real felix/nftables table (NewTable) against knftables.Fake.
//
// Each iptables case = one generated scenario: a starting kernel table (foreign chains and rules with
// Felix look-alike names, stale Felix chains under historic prefixes, old-hash and un-hashed hook
// rules, and current Felix content with correct hashes but damaged/misplaced), and a history of
// UpdateChains / RemoveChains / InsertOrAppendRules / AppendRules / Apply / virtual-time advance /
// out-of-band edits (also between Felix's save and restore) / restarts / checkpoints.  The scenario runs
// fault-free, then once per fault point of that run (every save, every restore before parsing, every
// COMMIT of every restore, every restore end), then with bursts long enough to make Apply give up
// (treated as a process restart) and random multi-faults.
//
// Oracles:
//
//	F  after EVERY committed restore block: the projection of the table onto what Felix does not own
//	   (foreign chains entirely; in shared chains the ordered list of foreign rules; built-in policies)
//	   equals the baseline (the baseline moves only with the harness's own out-of-band edits).
//	C  after an Apply that returned normally, when Felix's last successful save is newer than the last
//	   out-of-band edit: every shared chain is exactly [inserts] foreign... [appends] (insert mode) or
//	   foreign... [inserts][appends] (append mode) with the desired hook rules in order; every
//	   Felix-prefixed chain in the kernel is desired; every desired chain reachable from a hook rule (or
//	   force-programmed) is present with exactly the desired rules in order.
//	N  a committed block must not touch (flush / edit) a non-empty Felix chain and leave it
//	   byte-identical (counters would be reset for nothing), when no out-of-band edit intervened
//	   since the save the write was computed from.
//	L  Apply must not give up in a call in which no fault was injected.
//
// Ownership (reference definition, as documented in table.go): a chain is Felix's iff its name starts
// with a historic prefix ("cali", "felix-"); a rule in another chain is Felix's iff it carries a
// comment starting with the hash prefix "cali:" or jumps (-j) to a Felix-prefixed chain.
//
// Deliberately not checked: rule hashes and their comments (stripped before comparing); how many
// commands/lines are used; desired chains that nothing references (Felix does not program them: absent
// or equal are both accepted); behaviour when other software's rules refer to Felix-prefixed chains or
// carry "cali:" comments (by the ownership rule they are Felix's); the nat table's extra historic regex.
package main

import (
	"fmt"
	"io"
	"math/rand"
	"os"
	"sort"
	"strings"
	"time"

	"github.com/sirupsen/logrus"

	"github.com/projectcalico/calico/felix/environment"
	"github.com/projectcalico/calico/felix/generictables"
	"github.com/projectcalico/calico/felix/iptables"

	"verif/internal/fakeipt"
	"verif/internal/harness"
)

// ---------------------------------------------------------------------------------------------
// Reference ownership

func chainOwned(name string) bool {
	return strings.HasPrefix(name, "cali") || strings.HasPrefix(name, "felix-")
}

func ruleOwned(rule string) bool {
	tok, err := fakeipt.Tokenise(rule)
	if err != nil {
		return false
	}
	for i := 0; i+1 < len(tok); i++ {
		if tok[i] == "--comment" && strings.HasPrefix(tok[i+1], "cali:") {
			return true
		}
		if tok[i] == "-j" && chainOwned(tok[i+1]) {
			return true
		}
	}
	return false
}

// stripHash removes a leading Felix hash comment from a kernel rule.
func stripHash(rule string) string {
	const p = `-m comment --comment "cali:`
	if strings.HasPrefix(rule, p) {
		if i := strings.Index(rule[len(p):], `"`); i >= 0 {
			return strings.TrimPrefix(rule[len(p)+i+1:], " ")
		}
	}
	return rule
}

// projection: chain -> "policy" + foreign rules, for chains Felix does not own.
func projection(t *fakeipt.Table) map[string][]string {
	out := map[string][]string{}
	for name, c := range t.Chains {
		if chainOwned(name) {
			continue
		}
		l := []string{"policy=" + c.Policy}
		for _, r := range c.Rules {
			if !ruleOwned(r) {
				l = append(l, r)
			}
		}
		out[name] = l
	}
	return out
}

func diffProjection(a, b map[string][]string) string {
	for n, la := range a {
		lb, ok := b[n]
		if !ok {
			return fmt.Sprintf("chain %s disappeared", n)
		}
		if strings.Join(la, "\n") != strings.Join(lb, "\n") {
			return fmt.Sprintf("chain %s: foreign content was %q, now %q", n, la, lb)
		}
	}
	for n := range b {
		if _, ok := a[n]; !ok {
			return fmt.Sprintf("chain %s appeared", n)
		}
	}
	return ""
}

// ---------------------------------------------------------------------------------------------
// Desired-state vocabulary

type drule struct {
	Comments []string `json:"c,omitempty"`
	Match    string   `json:"m,omitempty"`
	Act      string   `json:"a"`
	Target   string   `json:"t,omitempty"`
}

func buildMatch(key string, ipv int) generictables.MatchCriteria {
	m := iptables.Match()
	switch key {
	case "":
		return nil
	case "tcp":
		return m.Protocol("tcp")
	case "tcp80":
		return m.Protocol("tcp").DestPorts(80, 443)
	case "src":
		if ipv == 6 {
			return m.SourceNet("fd00::/8")
		}
		return m.SourceNet("10.0.0.0/8")
	case "dsthost":
		if ipv == 6 {
			return m.DestNet("fd00::1")
		}
		return m.DestNet("10.1.2.3")
	case "mark":
		return m.MarkSingleBitSet(0x10)
	case "iface":
		return m.InInterface("cali+")
	case "oface":
		return m.OutInterface("tunl0").NotProtocol("udp")
	case "ct":
		return m.ConntrackState("RELATED,ESTABLISHED")
	case "set":
		return m.SourceIPSet("cali40s:abcDEF")
	}
	panic("unknown match key " + key)
}

var matchKeys = []string{"", "", "tcp", "tcp80", "src", "dsthost", "mark", "iface", "oface", "ct", "set"}

func buildAction(d drule) generictables.Action {
	switch d.Act {
	case "accept":
		return iptables.AcceptAction{}
	case "drop":
		return iptables.DropAction{}
	case "return":
		return iptables.ReturnAction{}
	case "mark":
		return iptables.SetMarkAction{Mark: 0x40}
	case "log":
		return iptables.LogAction{Prefix: "calico-packet"}
	case "jump":
		return iptables.JumpAction{Target: d.Target}
	case "goto":
		return iptables.GotoAction{Target: d.Target}
	}
	panic("unknown action " + d.Act)
}

func (d drule) build(ipv int) generictables.Rule {
	return generictables.Rule{Match: buildMatch(d.Match, ipv), Action: buildAction(d), Comment: d.Comments}
}

var features = &environment.Features{}

// expected is the iptables-save spelling of the rule without Felix's hash comment.
func (d drule) expected(ipv int) string {
	var frags []string
	for _, c := range d.Comments {
		frags = append(frags, fmt.Sprintf(`-m comment --comment "%s"`, c))
	}
	if m := buildMatch(d.Match, ipv); m != nil {
		frags = append(frags, m.Render())
	}
	frags = append(frags, buildAction(d).ToFragment(features))
	s, err := fakeipt.NormaliseRule(strings.Join(frags, " "), ipv)
	if err != nil {
		panic(err)
	}
	return s
}

type dchain struct {
	Name  string  `json:"name"`
	Rules []drule `json:"rules"`
	Force bool    `json:"force,omitempty"`
}

type hooks struct {
	Inserts []drule
	Appends []drule
}

type desired struct {
	chains map[string]*dchain
	hooks  map[string]*hooks // by kernel chain
}

func newDesired() *desired { return &desired{chains: map[string]*dchain{}, hooks: map[string]*hooks{}} }

func (d *desired) hook(chain string) *hooks {
	h := d.hooks[chain]
	if h == nil {
		h = &hooks{}
		d.hooks[chain] = h
	}
	return h
}

// reachable returns the desired chains reachable from hook rules or force-programmed chains.
func (d *desired) reachable() map[string]bool {
	seen := map[string]bool{}
	var visit func(n string)
	visit = func(n string) {
		if seen[n] {
			return
		}
		c, ok := d.chains[n]
		if !ok {
			return
		}
		seen[n] = true
		for _, r := range c.Rules {
			if r.Target != "" {
				visit(r.Target)
			}
		}
	}
	for _, h := range d.hooks {
		for _, r := range append(append([]drule{}, h.Inserts...), h.Appends...) {
			if r.Target != "" {
				visit(r.Target)
			}
		}
	}
	for n, c := range d.chains {
		if c.Force {
			visit(n)
		}
	}
	return seen
}

// referrers reports whether any desired rule or hook targets name.
func (d *desired) referenced(name string) bool {
	for _, c := range d.chains {
		for _, r := range c.Rules {
			if r.Target == name {
				return true
			}
		}
	}
	for _, h := range d.hooks {
		for _, r := range h.Inserts {
			if r.Target == name {
				return true
			}
		}
		for _, r := range h.Appends {
			if r.Target == name {
				return true
			}
		}
	}
	return false
}

// ---------------------------------------------------------------------------------------------
// Scenario

type oobEdit struct {
	Kind  string   `json:"k"`
	Chain string   `json:"chain,omitempty"`
	Rule  string   `json:"rule,omitempty"`
	Pos   int      `json:"pos,omitempty"`
	Rules []string `json:"rules,omitempty"`
}

type op struct {
	Kind    string        `json:"k"`
	Chains  []dchain      `json:"chains,omitempty"`
	Names   []string      `json:"names,omitempty"`
	Chain   string        `json:"chain,omitempty"`
	Rules   []drule       `json:"rules,omitempty"`
	Advance time.Duration `json:"adv,omitempty"`
	OOB     *oobEdit      `json:"oob,omitempty"`
}

type scenario struct {
	ipv        int
	table      string
	mode       string // legacy | nft
	insertMode string
	refresh    time.Duration
	postWrite  time.Duration
	lockFeat   bool
	names      []string // Felix chain name universe, in topological order (jumps only go forward)
	start      *fakeipt.Table
	ops        []op
	kseed      int64
}

var foreignChainPool = []string{"KUBE-SERVICES", "KUBE-FORWARD", "DOCKER", "DOCKER-USER", "KUBE-cali-fw", "my-felix-chain", "xcali-foo",
	"CALI-UPPER", "f2b-sshd", "cal-ico", "felix", "Cali-x"}

func foreignRules(ipv int, chains []string, R *rand.Rand) []string {
	pool := []string{
		`-m comment --comment "xcali:abc" -j ACCEPT`,
		`-m comment --comment "kubernetes forwarding rules" -j ACCEPT`,
		`-p tcp -m tcp --dport 22 -j ACCEPT`,
		`-m conntrack --ctstate RELATED,ESTABLISHED -j ACCEPT`,
		`-i lo -j ACCEPT`,
		`-m comment --comment calico -j RETURN`,
		`-m mark --mark 0x4000/0x4000 -j DROP`,
		`-m comment --comment "not -jcali" -j LOG --log-prefix "fw: "`,
		`-p udp -m udp --dport 53 -j ACCEPT`,
		`-j REJECT --reject-with icmp-port-unreachable`,
	}
	if ipv == 4 {
		pool = append(pool, `-s 10.0.0.0/8 -j DROP`, `-d 192.168.1.1/32 -p tcp -j ACCEPT`)
	} else {
		pool = append(pool, `-s fd00::/8 -j DROP`, `-d fd00::1/128 -p tcp -j ACCEPT`)
	}
	for _, c := range chains {
		pool = append(pool, "-j "+c, `-m comment --comment "to `+c+`" -g `+c)
	}
	n := R.Intn(4)
	var out []string
	for i := 0; i < n; i++ {
		out = append(out, pool[R.Intn(len(pool))])
	}
	return out
}

var kernelChains = map[string][]string{
	"filter": {"INPUT", "FORWARD", "OUTPUT"},
	"nat":    {"PREROUTING", "INPUT", "OUTPUT", "POSTROUTING"},
	"mangle": {"PREROUTING", "INPUT", "FORWARD", "OUTPUT", "POSTROUTING"},
	"raw":    {"PREROUTING", "OUTPUT"},
}

const hashAlphabet = "abcdefghijklmnopqrstuvwxyzABCDEFGHIJKLMNOPQRSTUVWXYZ0123456789_-"

func randHash(R *rand.Rand) string {
	b := make([]byte, 16)
	for i := range b {
		b[i] = hashAlphabet[R.Intn(len(hashAlphabet))]
	}
	return string(b)
}

type gen struct {
	R  *rand.Rand
	sc *scenario
	d  *desired // model while generating
}

func (g *gen) randRule(from int) drule {
	R := g.R
	d := drule{Match: matchKeys[R.Intn(len(matchKeys))]}
	if R.Intn(5) == 0 {
		d.Comments = []string{[]string{"Policy default.allow-dns ingress", "Drop if no profile matched", "note cali:not-first", "x"}[R.Intn(4)]}
	}
	// candidates for jumps: desired chains later in the topological order
	var later []string
	for _, n := range g.sc.names[from:] {
		if _, ok := g.d.chains[n]; ok {
			later = append(later, n)
		}
	}
	switch x := R.Intn(10); {
	case x < 4 && len(later) > 0:
		d.Act, d.Target = "jump", later[R.Intn(len(later))]
		if R.Intn(5) == 0 {
			d.Act = "goto"
		}
	case x < 6:
		d.Act = "accept"
	case x < 7:
		d.Act = "drop"
	case x < 8:
		d.Act = "return"
	case x < 9:
		d.Act = "mark"
	default:
		d.Act = "log"
	}
	return d
}

func (g *gen) randChain(idx int) dchain {
	c := dchain{Name: g.sc.names[idx]}
	for i, n := 0, g.R.Intn(5); i < n; i++ {
		c.Rules = append(c.Rules, g.randRule(idx+1))
	}
	if g.R.Intn(12) == 0 {
		c.Force = true
	}
	return c
}

func (g *gen) emit(o op) {
	g.sc.ops = append(g.sc.ops, o)
	applyToModel(g.d, &g.sc.ops[len(g.sc.ops)-1])
}

func applyToModel(d *desired, o *op) {
	switch o.Kind {
	case "update-chains":
		for i := range o.Chains {
			c := o.Chains[i]
			d.chains[c.Name] = &c
		}
	case "remove-chains":
		for _, n := range o.Names {
			delete(d.chains, n)
		}
	case "insert-rules":
		d.hook(o.Chain).Inserts = o.Rules
	case "append-rules":
		d.hook(o.Chain).Appends = o.Rules
	}
}

func (g *gen) hookRules() []drule {
	var out []drule
	var have []string
	for _, n := range g.sc.names {
		if _, ok := g.d.chains[n]; ok {
			have = append(have, n)
		}
	}
	for i, n := 0, g.R.Intn(3); i < n; i++ {
		if len(have) > 0 && g.R.Intn(4) != 0 {
			out = append(out, drule{Act: "jump", Target: have[g.R.Intn(len(have))], Match: []string{"", "", "mark", "iface"}[g.R.Intn(4)]})
		} else {
			out = append(out, drule{Act: []string{"accept", "mark", "return"}[g.R.Intn(3)], Match: []string{"mark", "ct", "tcp"}[g.R.Intn(3)]})
		}
	}
	return out
}

// removeChain emits the ops that remove a chain and every desired reference to it.
func (g *gen) removeChain(name string) {
	strip := func(rs []drule) ([]drule, bool) {
		var out []drule
		ch := false
		for _, r := range rs {
			if r.Target == name {
				ch = true
				continue
			}
			out = append(out, r)
		}
		return out, ch
	}
	var upd []dchain
	for _, n := range g.sc.names {
		if c, ok := g.d.chains[n]; ok && n != name {
			if rs, ch := strip(c.Rules); ch {
				upd = append(upd, dchain{Name: n, Rules: rs, Force: c.Force})
			}
		}
	}
	if len(upd) > 0 {
		g.emit(op{Kind: "update-chains", Chains: upd})
	}
	for _, kc := range kernelChains[g.sc.table] {
		if h, ok := g.d.hooks[kc]; ok {
			if rs, ch := strip(h.Inserts); ch {
				g.emit(op{Kind: "insert-rules", Chain: kc, Rules: rs})
			}
			if rs, ch := strip(h.Appends); ch {
				g.emit(op{Kind: "append-rules", Chain: kc, Rules: rs})
			}
		}
	}
	g.emit(op{Kind: "remove-chains", Names: []string{name}})
}

func genScenario(R *rand.Rand, thorough bool) *scenario {
	sc := &scenario{ipv: 4, table: "filter", mode: "legacy", insertMode: "insert", kseed: R.Int63()}
	if R.Intn(5) == 0 {
		sc.ipv = 6
	}
	sc.table = []string{"filter", "filter", "filter", "mangle", "raw", "nat"}[R.Intn(6)]
	if R.Intn(2) == 0 {
		sc.mode = "nft"
	}
	if R.Intn(3) == 0 {
		sc.insertMode = "append"
	}
	sc.refresh = []time.Duration{0, 10 * time.Second, 90 * time.Second}[R.Intn(3)]
	sc.postWrite = []time.Duration{0, 50 * time.Millisecond, time.Second}[R.Intn(3)]
	sc.lockFeat = R.Intn(2) == 0
	namePool := []string{"cali-FORWARD", "cali-INPUT", "cali-from-wl-dispatch", "cali-to-wl-dispatch", "cali-fw-cali1234abcd", "cali-tw-cali1234abcd",
		"cali-pi-_abcDEF123", "cali-po-_abcDEF123", "califoo", "cali-cidr-block", "felix-new-style", "cali-pri-kns.default"}
	R.Shuffle(len(namePool), func(i, j int) { namePool[i], namePool[j] = namePool[j], namePool[i] })
	n := 3 + R.Intn(4)
	if thorough {
		n += R.Intn(4)
	}
	sc.names = namePool[:n]
	g := &gen{R: R, sc: sc, d: newDesired()}

	// Initial desired state (start of day: everything is sent before the first Apply).
	var init []dchain
	for i := len(sc.names) - 1; i >= 0; i-- { // build leaves first so that jumps have targets
		if R.Intn(5) == 0 {
			continue
		}
		c := g.randChain(i)
		g.d.chains[c.Name] = &c
		init = append(init, c)
	}
	g.d = newDesired()
	g.emit(op{Kind: "update-chains", Chains: init})
	kcs := kernelChains[sc.table]
	for _, kc := range kcs {
		if R.Intn(3) != 0 {
			g.emit(op{Kind: "insert-rules", Chain: kc, Rules: g.hookRules()})
		}
		if R.Intn(4) == 0 {
			g.emit(op{Kind: "append-rules", Chain: kc, Rules: g.hookRules()})
		}
	}
	initialOps := len(sc.ops)

	// Starting kernel state.
	k := fakeipt.New(sc.ipv, sc.mode, sc.kseed)
	st := k.Snapshot(sc.table)
	var fchains []string
	for i, m := 0, R.Intn(4); i < m; i++ {
		fchains = append(fchains, foreignChainPool[R.Intn(len(foreignChainPool))])
	}
	// No duplicates: the "jump only to chains later in the list" rule below keeps the foreign chain graph
	// acyclic only if every chain occurs once (a real kernel cannot hold a jump loop in the first place).
	fchains = dedupe(fchains)
	for _, fc := range fchains {
		st.AddChain(fc)
	}
	for i, fc := range fchains {
		// foreign chains may jump to foreign chains created later in the list (no loops)
		c := st.Chains[fc]
		if len(c.Rules) == 0 {
			var later []string
			for _, o := range fchains[i+1:] {
				if o != fc {
					later = append(later, o)
				}
			}
			c.Rules = foreignRules(sc.ipv, dedupe(later), R)
		}
	}
	for _, kc := range kcs {
		st.Chains[kc].Rules = foreignRules(sc.ipv, dedupe(fchains), R)
		if R.Intn(6) == 0 {
			st.Chains[kc].Policy = "DROP"
		}
	}
	// Stale Felix chains under historic prefixes.
	stalePool := []string{"cali-OLD-a", "cali-OLD-b", "felix-FORWARD", "felix-from-endpoint", "caliOLD", "cali-fw-gone", "felix-to-abc"}
	var stale []string
	for i, m := 0, R.Intn(4); i < m; i++ {
		stale = append(stale, stalePool[R.Intn(len(stalePool))])
	}
	stale = dedupe(stale)
	for _, s := range stale {
		st.AddChain(s)
	}
	for i, s := range stale {
		c := st.Chains[s]
		for j, m := 0, R.Intn(4); j < m; j++ {
			r := fmt.Sprintf(`-m comment --comment "cali:%s" `, randHash(R))
			if R.Intn(3) == 0 {
				r = ""
			}
			if i+1 < len(stale) && R.Intn(2) == 0 {
				r += "-j " + stale[i+1+R.Intn(len(stale)-i-1)]
			} else {
				r += []string{"-j ACCEPT", "-m mark --mark 0x1/0x1 -j RETURN", "-j DROP"}[R.Intn(3)]
			}
			c.Rules = append(c.Rules, r)
		}
	}
	// Current Felix content with correct hashes, obtained by running the real Table once on a scratch
	// kernel, then damaged.
	if R.Intn(4) != 0 {
		if cur := prerun(sc, initialOps); cur != nil {
			for name, c := range cur.Chains {
				if !chainOwned(name) {
					continue
				}
				if R.Intn(5) == 0 {
					continue // chain missing
				}
				nc := st.AddChain(name)
				nc.Rules = append([]string(nil), c.Rules...)
				switch R.Intn(6) {
				case 0: // a rule dropped
					if len(nc.Rules) > 0 {
						i := R.Intn(len(nc.Rules))
						nc.Rules = append(nc.Rules[:i], nc.Rules[i+1:]...)
					}
				case 1: // reordered
					R.Shuffle(len(nc.Rules), func(i, j int) { nc.Rules[i], nc.Rules[j] = nc.Rules[j], nc.Rules[i] })
				case 2: // extra junk
					nc.Rules = append(nc.Rules, `-m comment --comment "cali:`+randHash(R)+`" -j DROP`)
				case 3: // un-hashed junk at the top
					nc.Rules = append([]string{"-j ACCEPT"}, nc.Rules...)
				}
			}
			for _, kc := range kcs {
				var mine []string
				for _, r := range cur.Chains[kc].Rules {
					if ruleOwned(r) {
						mine = append(mine, r)
					}
				}
				if len(mine) == 0 {
					continue
				}
				c := st.Chains[kc]
				switch R.Intn(5) {
				case 0: // correct place for insert mode
					c.Rules = append(append([]string{}, mine...), c.Rules...)
				case 1: // at the bottom
					c.Rules = append(c.Rules, mine...)
				case 2: // scattered
					for _, r := range mine {
						p := R.Intn(len(c.Rules) + 1)
						c.Rules = append(c.Rules[:p:p], append([]string{r}, c.Rules[p:]...)...)
					}
				case 3: // duplicated
					c.Rules = append(append(append([]string{}, mine...), c.Rules...), mine...)
				}
			}
		}
	}
	// Stale hook rules: old hashes and un-hashed old inserts, in kernel chains and in foreign chains.
	targets := append([]string{}, stale...)
	for n := range st.Chains {
		if chainOwned(n) {
			targets = append(targets, n)
		}
	}
	sort.Strings(targets)
	targets = dedupe(targets)
	hostChains := append(append([]string{}, kcs...), dedupe(fchains)...)
	for i, m := 0, R.Intn(4); i < m && len(targets) > 0; i++ {
		hc := st.Chains[hostChains[R.Intn(len(hostChains))]]
		var r string
		tg := targets[R.Intn(len(targets))]
		switch R.Intn(4) {
		case 0:
			r = "-j " + tg // un-hashed insert of an old Felix
		case 1:
			r = fmt.Sprintf(`-m comment --comment "cali:%s" -j %s`, randHash(R), tg)
		case 2:
			r = fmt.Sprintf(`-m comment --comment "cali:%s" -m mark --mark 0x10/0x10 -j ACCEPT`, randHash(R))
		default:
			r = fmt.Sprintf(`-i cali+ -m comment --comment "cali:%s" -j %s`, randHash(R), tg)
		}
		p := R.Intn(len(hc.Rules) + 1)
		hc.Rules = append(hc.Rules[:p:p], append([]string{r}, hc.Rules[p:]...)...)
	}
	for _, c := range st.Chains {
		for i, rl := range c.Rules {
			nr, err := fakeipt.NormaliseRule(rl, sc.ipv)
			if err != nil {
				panic(err)
			}
			c.Rules[i] = nr
		}
	}
	if st.HasLoop() {
		panic("harness bug: the generated starting table contains a jump loop")
	}
	sc.start = st

	// History.
	nOps := 6 + R.Intn(10)
	if thorough {
		nOps += R.Intn(12)
	}
	g.emit(op{Kind: "apply"})
	for len(sc.ops) < initialOps+nOps {
		switch x := R.Intn(30); {
		case x < 5: // update or add chains
			var cs []dchain
			for i, m := 0, 1+R.Intn(3); i < m; i++ {
				idx := R.Intn(len(sc.names))
				c := g.randChain(idx)
				cs = append(cs, c)
				g.d.chains[c.Name] = &c // later picks in this batch may refer to it
			}
			// order leaves first is not required by the API; shuffle
			R.Shuffle(len(cs), func(i, j int) { cs[i], cs[j] = cs[j], cs[i] })
			g.emit(op{Kind: "update-chains", Chains: cs})
		case x < 7:
			var have []string
			for _, n := range sc.names {
				if _, ok := g.d.chains[n]; ok {
					have = append(have, n)
				}
			}
			if len(have) > 0 {
				g.removeChain(have[R.Intn(len(have))])
			}
		case x < 9:
			g.emit(op{Kind: "insert-rules", Chain: kcs[R.Intn(len(kcs))], Rules: g.hookRules()})
		case x < 10:
			g.emit(op{Kind: "append-rules", Chain: kcs[R.Intn(len(kcs))], Rules: g.hookRules()})
		case x < 17:
			g.emit(op{Kind: "apply"})
		case x < 20:
			g.emit(op{Kind: "advance", Advance: []time.Duration{10 * time.Millisecond, 60 * time.Millisecond, time.Second, 11 * time.Second, 100 * time.Second, 2 * time.Hour}[R.Intn(6)]})
		case x < 24:
			g.emit(op{Kind: "oob", OOB: genOOB(R, sc, dedupe(fchains))})
		case x < 26:
			g.emit(op{Kind: "oob-during-apply", OOB: genOOB(R, sc, dedupe(fchains))})
			g.emit(op{Kind: "apply"})
		case x < 27:
			g.emit(op{Kind: "restart"})
		case x < 28:
			g.emit(op{Kind: "checkpoint"})
		default:
			g.emit(op{Kind: "apply"})
		}
	}
	g.emit(op{Kind: "checkpoint"})
	return sc
}

func dedupe(l []string) []string {
	seen := map[string]bool{}
	var out []string
	for _, s := range l {
		if !seen[s] {
			seen[s] = true
			out = append(out, s)
		}
	}
	return out
}

func genOOB(R *rand.Rand, sc *scenario, fchains []string) *oobEdit {
	kcs := kernelChains[sc.table]
	shared := append(append([]string{}, kcs...), fchains...)
	switch R.Intn(12) {
	case 0, 1: // other software inserts one of its rules at the top of a shared chain
		return &oobEdit{Kind: "insert", Chain: shared[R.Intn(len(shared))], Pos: 0, Rule: foreignRulePick(R, sc.ipv)}
	case 2: // ... or appends
		return &oobEdit{Kind: "insert", Chain: shared[R.Intn(len(shared))], Pos: -1, Rule: foreignRulePick(R, sc.ipv)}
	case 3: // ... or deletes one of its own rules
		return &oobEdit{Kind: "delete-foreign", Chain: shared[R.Intn(len(shared))], Pos: R.Intn(4)}
	case 4: // a new foreign chain
		return &oobEdit{Kind: "add-chain", Chain: foreignChainPool[R.Intn(len(foreignChainPool))], Rules: []string{foreignRulePick(R, sc.ipv)}}
	case 5: // somebody flushes one of Felix's chains
		return &oobEdit{Kind: "flush-felix", Pos: R.Intn(8)}
	case 6: // somebody deletes one rule of a Felix chain
		return &oobEdit{Kind: "delete-felix-rule", Pos: R.Intn(8), Chain: fmt.Sprint(R.Intn(5))}
	case 7: // somebody adds a rule to a Felix chain
		return &oobEdit{Kind: "junk-in-felix", Pos: R.Intn(8), Rule: foreignRulePick(R, sc.ipv)}
	case 8: // somebody removes Felix's hook rules from a kernel chain
		return &oobEdit{Kind: "delete-hooks", Chain: kcs[R.Intn(len(kcs))]}
	case 9: // an old-style insert reappears
		return &oobEdit{Kind: "stale-insert", Chain: kcs[R.Intn(len(kcs))], Pos: R.Intn(3), Rule: fmt.Sprintf(`-m comment --comment "cali:%s" -j ACCEPT`, randHash(R))}
	case 10: // a whole Felix chain (and every rule that jumps to it) is removed
		return &oobEdit{Kind: "remove-felix-chain", Pos: R.Intn(8)}
	default: // a read-modify-write race: the table is put back to an earlier snapshot
		return &oobEdit{Kind: "clobber"}
	}
}

func foreignRulePick(R *rand.Rand, ipv int) string {
	for {
		l := foreignRules(ipv, nil, R)
		if len(l) > 0 {
			return l[0]
		}
	}
}

// prerun runs the real Table on an empty scratch kernel with the initial desired state and returns the
// resulting table (rules with the hashes a current Felix writes), or nil.
func prerun(sc *scenario, initialOps int) (t *fakeipt.Table) {
	defer func() {
		if recover() != nil {
			t = nil
		}
	}()
	k := fakeipt.New(sc.ipv, sc.mode, 1)
	now := time.Unix(1_700_000_000, 0)
	tbl := newTable(sc, k, &now)
	for i := 0; i < initialOps; i++ {
		apiOp(tbl, sc, &sc.ops[i])
	}
	tbl.Apply()
	return k.Snapshot(sc.table)
}

func newTable(sc *scenario, k *fakeipt.Kernel, now *time.Time) *iptables.Table {
	fd := &environment.FakeFeatureDetector{Features: environment.Features{RestoreSupportsLock: sc.lockFeat}}
	return iptables.NewTable(sc.table, uint8(sc.ipv), "cali:", fd, iptables.TableOptions{
		HistoricChainPrefixes: []string{"felix-", "cali"},
		BackendMode:           sc.mode,
		InsertMode:            sc.insertMode,
		RefreshInterval:       sc.refresh,
		PostWriteInterval:     sc.postWrite,
		NewCmdOverride:        k.NewCmd,
		SleepOverride:         func(d time.Duration) { *now = now.Add(d) },
		NowOverride:           func() time.Time { return *now },
		LookPathOverride:      func(f string) (string, error) { return f, nil },
		OpRecorder:            nopRecorder{},
	})
}

type nopRecorder struct{}

func (nopRecorder) RecordOperation(string) {}

func apiOp(tbl *iptables.Table, sc *scenario, o *op) {
	conv := func(rs []drule) []generictables.Rule {
		out := make([]generictables.Rule, 0, len(rs))
		for _, r := range rs {
			out = append(out, r.build(sc.ipv))
		}
		return out
	}
	switch o.Kind {
	case "update-chains":
		var cs []*generictables.Chain
		for _, c := range o.Chains {
			cs = append(cs, &generictables.Chain{Name: c.Name, Rules: conv(c.Rules), ForceProgramming: c.Force})
		}
		tbl.UpdateChains(cs)
	case "remove-chains":
		for _, n := range o.Names {
			tbl.RemoveChainByName(n)
		}
	case "insert-rules":
		tbl.InsertOrAppendRules(o.Chain, conv(o.Rules))
	case "append-rules":
		tbl.AppendRules(o.Chain, conv(o.Rules))
	}
}

// ---------------------------------------------------------------------------------------------
// Fault plans

type faultPlan struct {
	Kind     string  `json:"kind"` // none | single | burst | random
	Cmd      string  `json:"cmd,omitempty"`
	Seq      int     `json:"seq,omitempty"`
	Block    int     `json:"block,omitempty"`
	Mode     string  `json:"mode,omitempty"`
	BurstLen int     `json:"burst,omitempty"`
	P        float64 `json:"p,omitempty"`
	Seed     int64   `json:"seed,omitempty"`

	nft      bool
	rnd      *rand.Rand
	disabled bool
	hits     int
}

func saveModes(nft bool) []string {
	m := []string{fakeipt.SaveFailPipe, fakeipt.SaveFailStart, fakeipt.SaveFailExit, fakeipt.SaveTruncate}
	if nft {
		m = append(m, fakeipt.SaveIncompatible)
	}
	return m
}

func (p *faultPlan) decide(fp fakeipt.FaultPoint) string {
	if p == nil || p.disabled {
		return ""
	}
	pick := func() string {
		if fp.Cmd == "restore" {
			return fakeipt.RestoreFail
		}
		ms := saveModes(p.nft)
		return ms[p.rnd.Intn(len(ms))]
	}
	switch p.Kind {
	case "single":
		if fp.Cmd == p.Cmd && fp.Seq == p.Seq && (fp.Cmd != "restore" || fp.Block == p.Block) {
			p.hits++
			return p.Mode
		}
	case "burst":
		if fp.Cmd == p.Cmd && fp.Seq >= p.Seq && fp.Seq < p.Seq+p.BurstLen && (fp.Cmd != "restore" || fp.Block == p.Block) {
			p.hits++
			return pick()
		}
	case "random":
		pr := p.P
		if fp.Cmd == "restore" {
			pr /= 2
		}
		if p.rnd.Float64() < pr {
			p.hits++
			return pick()
		}
	}
	return ""
}

// ---------------------------------------------------------------------------------------------
// One execution

type runner struct {
	c    *harness.Case
	sc   *scenario
	plan *faultPlan
	k    *fakeipt.Kernel
	tbl  *iptables.Table
	d    *desired
	now  time.Time

	baseline   map[string][]string
	oobEpoch   int
	savedEpoch int // oobEpoch at the time of Felix's last successful save (-1: none yet)
	inApply    bool
	callFaults int
	pendingOOB *oobEdit
	snapshots  []*fakeipt.Table

	restoreBlocks map[int]int
	dead          bool
	cnt           map[string]int64
	seenKeys      map[string]bool
}

func (r *runner) count(n string, v int64) { r.cnt[n] += v }

func (r *runner) detail(extra map[string]any) map[string]any {
	d := map[string]any{"ipv": r.sc.ipv, "table": r.sc.table, "backend": r.sc.mode, "insert_mode": r.sc.insertMode,
		"refresh_s": r.sc.refresh.Seconds(), "post_write_ms": r.sc.postWrite.Milliseconds(), "start": r.sc.start.Describe(),
		"ops": r.sc.ops, "plan": r.plan, "kernel_log_tail": r.k.TailLog(120), "table_now": r.k.Snapshot(r.sc.table).Describe()}
	for k, v := range extra {
		d[k] = v
	}
	return d
}

func (r *runner) violate(key string, extra map[string]any, format string, a ...any) {
	r.dead = true
	if r.seenKeys[key] {
		return
	}
	r.seenKeys[key] = true
	r.c.Violationf(key, r.detail(extra), format, a...)
}

func (r *runner) newFelix() {
	r.tbl = newTable(r.sc, r.k, &r.now)
	r.savedEpoch = -1 // a new instance has read nothing yet
	r.count("instances", 1)
	var cs []dchain
	for _, n := range r.sc.names {
		if c, ok := r.d.chains[n]; ok {
			cs = append(cs, *c)
		}
	}
	if len(cs) > 0 {
		apiOp(r.tbl, r.sc, &op{Kind: "update-chains", Chains: cs})
	}
	for _, kc := range kernelChains[r.sc.table] {
		if h, ok := r.d.hooks[kc]; ok {
			apiOp(r.tbl, r.sc, &op{Kind: "insert-rules", Chain: kc, Rules: h.Inserts})
			apiOp(r.tbl, r.sc, &op{Kind: "append-rules", Chain: kc, Rules: h.Appends})
		}
	}
}

func (r *runner) rebaseline() {
	r.baseline = projection(r.k.Snapshot(r.sc.table))
	r.oobEpoch++
}

// doOOB performs an out-of-band edit; everything here is "other software", so the foreign baseline
// follows it.
func (r *runner) doOOB(e *oobEdit) {
	tname := r.sc.table
	felixChains := func(t *fakeipt.Table) []string {
		var l []string
		for n := range t.Chains {
			if chainOwned(n) {
				l = append(l, n)
			}
		}
		sort.Strings(l)
		return l
	}
	done := false
	switch e.Kind {
	case "clobber":
		if len(r.snapshots) == 0 {
			return
		}
		r.k.Replace(r.snapshots[len(r.snapshots)/2])
		done = true
	default:
		r.k.Edit(tname, e.Kind+" "+e.Chain+" "+e.Rule, func(t *fakeipt.Table) {
			switch e.Kind {
			case "insert", "stale-insert":
				c, ok := t.Chains[e.Chain]
				if !ok {
					return
				}
				rule, _ := fakeipt.NormaliseRule(e.Rule, r.sc.ipv)
				p := e.Pos
				if p < 0 || p > len(c.Rules) {
					p = len(c.Rules)
				}
				c.Rules = append(c.Rules[:p:p], append([]string{rule}, c.Rules[p:]...)...)
				done = true
			case "delete-foreign":
				c, ok := t.Chains[e.Chain]
				if !ok {
					return
				}
				n := 0
				for i, rl := range c.Rules {
					if ruleOwned(rl) {
						continue
					}
					if n == e.Pos {
						// do not orphan... a foreign rule may be deleted freely
						c.Rules = append(c.Rules[:i], c.Rules[i+1:]...)
						done = true
						return
					}
					n++
				}
			case "add-chain":
				if _, ok := t.Chains[e.Chain]; ok {
					return
				}
				c := t.AddChain(e.Chain)
				for _, rl := range e.Rules {
					nr, _ := fakeipt.NormaliseRule(rl, r.sc.ipv)
					c.Rules = append(c.Rules, nr)
				}
				done = true
			case "flush-felix", "delete-felix-rule", "junk-in-felix", "remove-felix-chain":
				fc := felixChains(t)
				if len(fc) == 0 {
					return
				}
				name := fc[e.Pos%len(fc)]
				c := t.Chains[name]
				switch e.Kind {
				case "flush-felix":
					c.Rules = nil
				case "delete-felix-rule":
					if len(c.Rules) == 0 {
						return
					}
					var i int
					fmt.Sscan(e.Chain, &i)
					i %= len(c.Rules)
					c.Rules = append(c.Rules[:i], c.Rules[i+1:]...)
				case "junk-in-felix":
					nr, _ := fakeipt.NormaliseRule(e.Rule, r.sc.ipv)
					p := e.Pos % (len(c.Rules) + 1)
					c.Rules = append(c.Rules[:p:p], append([]string{nr}, c.Rules[p:]...)...)
				case "remove-felix-chain":
					for _, oc := range t.Chains {
						var keep []string
						for _, rl := range oc.Rules {
							if tg, _ := fakeipt.Target(rl); tg == name {
								continue
							}
							keep = append(keep, rl)
						}
						oc.Rules = keep
					}
					t.DelChain(name)
				}
				done = true
			case "delete-hooks":
				c, ok := t.Chains[e.Chain]
				if !ok {
					return
				}
				var keep []string
				for _, rl := range c.Rules {
					if !ruleOwned(rl) {
						keep = append(keep, rl)
					}
				}
				if len(keep) != len(c.Rules) {
					c.Rules = keep
					done = true
				}
			}
		})
	}
	if done {
		r.count("oob_edits", 1)
		r.rebaseline()
	}
}

func (r *runner) onRestore(ev *fakeipt.RestoreEvent) {
	r.count("cmd_restore", 1)
	r.restoreBlocks[ev.Seq] = len(ev.Blocks)
	if ev.Fault != "" {
		r.callFaults++
		r.count("faults_restore", 1)
	}
	if r.dead {
		return
	}
	committed := false
	for i := range ev.Blocks {
		b := &ev.Blocks[i]
		r.count("restore_blocks", 1)
		r.count("restore_lines", int64(len(b.Ops)))
		if !b.Committed {
			continue
		}
		committed = true
		// N: untouched-content rule.  The state after block i is the state before block i+1 of the same table.
		if r.savedEpoch == r.oobEpoch && b.Before != nil {
			var after *fakeipt.Table
			for j := i + 1; j < len(ev.Blocks); j++ {
				if ev.Blocks[j].Table == b.Table && ev.Blocks[j].Before != nil {
					after = ev.Blocks[j].Before
					break
				}
			}
			if after == nil {
				after = r.k.Snapshot(b.Table)
			}
			touched := map[string]bool{}
			for _, o := range b.Ops {
				if chainOwned(o.Chain) {
					touched[o.Chain] = true
				}
			}
			for name := range touched {
				bc, ac := b.Before.Chains[name], after.Chains[name]
				r.count("n_checks", 1)
				if bc != nil && ac != nil && len(bc.Rules) > 0 && strings.Join(bc.Rules, "\n") == strings.Join(ac.Rules, "\n") {
					r.violate("unchanged-chain-rewritten", map[string]any{"chain": name, "restore_seq": ev.Seq, "ops": b.Ops},
						"restore #%d touched Felix chain %q and left it byte-identical (%d rules)", ev.Seq, name, len(bc.Rules))
					return
				}
			}
		}
	}
	if committed {
		// F: the foreign projection must not move.
		r.count("f_checks", 1)
		now := projection(r.k.Snapshot(r.sc.table))
		r.count("foreign_objects_checked", int64(len(now)))
		if d := diffProjection(r.baseline, now); d != "" {
			r.violate("foreign-content-changed", map[string]any{"diff": d, "restore_seq": ev.Seq, "blocks": ev.Blocks},
				"restore #%d changed content Felix does not own: %s", ev.Seq, d)
		}
	}
}

// apply runs Table.Apply; false = it gave up (restart needed).
func (r *runner) apply() bool {
	r.inApply, r.callFaults = true, 0
	defer func() { r.inApply = false }()
	r.count("apply_calls", 1)
	gaveUp := false
	func() {
		defer func() {
			if e := recover(); e != nil {
				msg := fmt.Sprint(e)
				if le, ok := e.(*logrus.Entry); ok {
					msg = le.Message
				}
				if strings.Contains(msg, "command failed after retries") || strings.Contains(msg, "giving up after retries") {
					gaveUp = true
					return
				}
				panic(e)
			}
		}()
		r.tbl.Apply()
	}()
	r.pendingOOB = nil
	if gaveUp {
		r.count("apply_gave_up", 1)
		if r.callFaults == 0 {
			r.violate("apply-gives-up-without-faults", nil, "Table.Apply gave up although no command fault was injected during the call")
		}
		return false
	}
	r.count("apply_ok", 1)
	if !r.dead && r.savedEpoch == r.oobEpoch {
		r.checkConverged("after-apply")
	} else {
		r.count("apply_ok_not_judged", 1)
	}
	return true
}

// checkConverged is oracle C.
func (r *runner) checkConverged(when string) {
	t := r.k.Snapshot(r.sc.table)
	r.count("c_checks", 1)
	ipv := r.sc.ipv
	exp := func(rs []drule) []string {
		var out []string
		for _, x := range rs {
			out = append(out, x.expected(ipv))
		}
		return out
	}
	names := make([]string, 0, len(t.Chains))
	for n := range t.Chains {
		names = append(names, n)
	}
	sort.Strings(names)
	reach := r.d.reachable()
	for _, name := range names {
		c := t.Chains[name]
		if chainOwned(name) {
			dc, ok := r.d.chains[name]
			if !ok {
				r.violate("stale-felix-chain-remains", map[string]any{"chain": name, "when": when, "rules": c.Rules},
					"%s: Felix-prefixed chain %q is in the kernel but not desired", when, name)
				return
			}
			want := exp(dc.Rules)
			var got []string
			for _, rl := range c.Rules {
				got = append(got, stripHash(rl))
			}
			if strings.Join(got, "\n") != strings.Join(want, "\n") {
				if !reach[name] {
					// Not programmed by design; it must then at least not be there with other content... it is
					// Felix-owned and not desired-in-kernel, so it should have been removed.
					r.violate("stale-felix-chain-remains", map[string]any{"chain": name, "when": when, "rules": c.Rules, "desired_unreferenced": want},
						"%s: unreferenced Felix chain %q is in the kernel with content that is not the desired one", when, name)
					return
				}
				r.violate("felix-chain-wrong-content", map[string]any{"chain": name, "when": when, "kernel": c.Rules, "want": want},
					"%s: Felix chain %q has %q, desired %q", when, name, got, want)
				return
			}
			continue
		}
		// Shared / foreign chain.
		var ins, app []string
		if h, ok := r.d.hooks[name]; ok {
			ins, app = exp(h.Inserts), exp(h.Appends)
		}
		foreign := r.baseline[name]
		if len(foreign) > 0 {
			foreign = foreign[1:] // drop the policy entry
		}
		var want []string
		if r.sc.insertMode == "insert" {
			want = append(append(append(want, ins...), foreign...), app...)
		} else {
			want = append(append(append(want, foreign...), ins...), app...)
		}
		var got []string
		for _, rl := range c.Rules {
			if ruleOwned(rl) {
				got = append(got, stripHash(rl))
			} else {
				got = append(got, rl)
			}
		}
		if strings.Join(got, "\n") != strings.Join(want, "\n") {
			key := "hook-rules-wrong"
			// classify: stale Felix rule left behind?
			nOwned := 0
			for _, rl := range c.Rules {
				if ruleOwned(rl) {
					nOwned++
				}
			}
			if nOwned > len(ins)+len(app) {
				key = "stale-felix-rule-remains"
			}
			r.violate(key, map[string]any{"chain": name, "when": when, "kernel": c.Rules, "want_modulo_hash": want},
				"%s: chain %q is %q, expected (modulo hash comments) %q", when, name, c.Rules, want)
			return
		}
	}
	for name := range reach {
		if _, ok := t.Chains[name]; !ok {
			r.violate("desired-chain-missing", map[string]any{"chain": name, "when": when}, "%s: desired, referenced chain %q is not in the kernel", when, name)
			return
		}
	}
}

func (r *runner) checkpoint() {
	if r.plan != nil {
		r.plan.disabled = true
		defer func() { r.plan.disabled = false }()
	}
	// Force a re-read the way production does: let the refresh timer expire; with the timer disabled, an
	// update of the desired state (here: the explicit invalidation API) is what triggers it.
	if r.sc.refresh > 0 {
		r.now = r.now.Add(r.sc.refresh + time.Second)
	} else {
		r.tbl.InvalidateDataplaneCache("verif checkpoint")
	}
	if !r.apply() {
		return
	}
	if r.dead {
		return
	}
	r.count("checkpoints", 1)
	if r.savedEpoch != r.oobEpoch {
		r.violate("no-reread-at-checkpoint", nil, "Apply after the refresh interval expired did not re-read the table")
	}
}

type runResult struct {
	counts map[string]int
	blocks map[int]int
	hits   int
}

func runScenario(c *harness.Case, sc *scenario, plan *faultPlan, seenKeys map[string]bool, cnt map[string]int64) runResult {
	r := &runner{c: c, sc: sc, plan: plan, k: fakeipt.New(sc.ipv, sc.mode, sc.kseed), d: newDesired(), now: time.Unix(1_700_000_000, 0),
		savedEpoch: -1, restoreBlocks: map[int]int{}, cnt: cnt, seenKeys: seenKeys}
	r.k.Replace(sc.start)
	r.k.KeepBefore = true
	r.baseline = projection(r.k.Snapshot(sc.table))
	r.k.Fault = func(fp fakeipt.FaultPoint) string { return plan.decide(fp) }
	r.k.OnSave = func(seq int, table string, fault string) {
		r.count("cmd_save", 1)
		if fault != "" {
			r.callFaults++
			r.count("faults_save", 1)
			r.savedEpoch = -1
			return
		}
		r.savedEpoch = r.oobEpoch
		if len(r.snapshots) < 8 {
			r.snapshots = append(r.snapshots, r.k.Snapshot(table))
		}
	}
	r.k.PreRestore = func(seq int) {
		if e := r.pendingOOB; e != nil {
			r.pendingOOB = nil
			r.count("oob_between_save_and_restore", 1)
			r.doOOB(e)
		}
	}
	r.k.OnRestore = r.onRestore
	r.newFelix()
	for i := range sc.ops {
		if r.dead {
			break
		}
		o := &sc.ops[i]
		switch o.Kind {
		case "update-chains", "remove-chains", "insert-rules", "append-rules":
			applyToModel(r.d, o)
			apiOp(r.tbl, sc, o)
		case "apply":
			if !r.apply() && !r.dead {
				r.newFelix()
			}
		case "advance":
			r.now = r.now.Add(o.Advance)
		case "oob":
			r.doOOB(o.OOB)
		case "oob-during-apply":
			r.pendingOOB = o.OOB
		case "restart":
			r.count("restarts_requested", 1)
			r.newFelix()
		case "checkpoint":
			r.checkpoint()
			if !r.dead && r.tbl == nil {
				r.newFelix()
			}
		}
		r.count("ops_executed", 1)
	}
	res := runResult{counts: r.k.SeqCounts(), blocks: r.restoreBlocks}
	if plan != nil {
		res.hits = plan.hits
	}
	return res
}

func runIptables(c *harness.Case) {
	sc := genScenario(c.R, c.Thorough())
	seenKeys := map[string]bool{}
	cnt := map[string]int64{}
	defer func() {
		for n, v := range cnt {
			if v != 0 {
				c.Count(n, v)
			}
		}
	}()
	cnt["ipt_cases"]++
	cnt["ipt_cases_"+sc.mode+"_"+sc.insertMode]++
	base := runScenario(c, sc, &faultPlan{Kind: "none"}, seenKeys, cnt)
	cnt["runs_baseline"]++
	if c.Failed() {
		return
	}
	var plans []*faultPlan
	nft := sc.mode == "nft"
	for s := 1; s <= base.counts["save"]; s++ {
		ms := saveModes(nft)
		n := 1
		if c.Thorough() {
			n = 2
		}
		first := c.R.Intn(len(ms))
		for j := 0; j < n; j++ {
			plans = append(plans, &faultPlan{Kind: "single", Cmd: "save", Seq: s, Mode: ms[(first+j)%len(ms)]})
		}
	}
	for s := 1; s <= base.counts["restore"]; s++ {
		plans = append(plans, &faultPlan{Kind: "single", Cmd: "restore", Seq: s, Block: 0, Mode: fakeipt.RestoreFail})
		for b := 1; b <= base.blocks[s]; b++ {
			plans = append(plans, &faultPlan{Kind: "single", Cmd: "restore", Seq: s, Block: b, Mode: fakeipt.RestoreFail})
		}
		plans = append(plans, &faultPlan{Kind: "single", Cmd: "restore", Seq: s, Block: -1, Mode: fakeipt.RestoreFail})
	}
	cnt["fault_points_enumerated"] += int64(len(plans))
	for j, nExtra := 0, c.Pick(4, 10); j < nExtra; j++ {
		seed := c.R.Int63()
		if j%2 == 0 {
			cmd := []string{"save", "restore"}[c.R.Intn(2)]
			p := &faultPlan{Kind: "burst", Cmd: cmd, Seq: 1 + c.R.Intn(base.counts[cmd]+1), BurstLen: 2 + c.R.Intn(12), Seed: seed}
			if cmd == "restore" {
				p.Block = []int{0, 1, 1, -1}[c.R.Intn(4)]
			}
			plans = append(plans, p)
		} else {
			plans = append(plans, &faultPlan{Kind: "random", P: []float64{0.05, 0.15, 0.4}[c.R.Intn(3)], Seed: seed})
		}
	}
	hit := 0
	for _, p := range plans {
		p.rnd = rand.New(rand.NewSource(p.Seed))
		p.nft = nft
		res := runScenario(c, sc, p, seenKeys, cnt)
		cnt["runs_faulted"]++
		if res.hits > 0 {
			hit++
			cnt["runs_fault_hit"]++
		}
		if c.Failed() {
			return
		}
	}
	if hit >= 5 && cnt["c_checks"] > 0 && cnt["foreign_objects_checked"] > 0 {
		c.NonTrivial("ipt", sc.mode, sc.insertMode, sc.table, sc.start.Describe(), fmt.Sprintf("%+v", sc.ops))
	}
	c.Distinct("ipt_start_states", sc.mode, sc.table, sc.start.Describe())
	if c.Index < 3 {
		c.Sample(map[string]any{"kind": "iptables", "table": sc.table, "backend": sc.mode, "insert_mode": sc.insertMode, "start": sc.start.Describe(),
			"n_ops": len(sc.ops), "fault_runs": len(plans), "baseline_cmds": base.counts})
	}
}

func run(c *harness.Case) {
	if c.Index%4 == 3 {
		runNft(c)
		return
	}
	runIptables(c)
}

func main() {
	logrus.SetOutput(io.Discard)
	logrus.SetLevel(logrus.PanicLevel)
	// felix/nftables shells out to the real `nft list table` for diagnostics after a failed transaction
	// (no override exists); make sure no real binary can be found.
	os.Setenv("PATH", "/nonexistent-verif-path")
	harness.Main(harness.Check{
		ID:    "C15",
		Level: "fault_enumeration",
		Rule: "case i%4!=3: iptables.Table on fakeipt (PRNG: table filter/mangle/raw/nat, IPv4/6, legacy|nft backend, insert|append mode, refresh 0/10s/90s); " +
			"starting table = foreign chains/rules with Felix look-alike names, stale chains under historic prefixes, old-hash and un-hashed hook rules (also inside foreign chains), " +
			"current content with correct hashes but damaged/misplaced/duplicated; history of 6-27 ops (UpdateChains, RemoveChains, InsertOrAppendRules, AppendRules, Apply, virtual time, " +
			"out-of-band edits incl. between save and restore and whole-table clobbering, restarts, checkpoints). case i%4==3: nftables.NewTable on knftables.Fake with the same vocabulary. " +
			"Each scenario runs fault-free, then once per fault point of that run (every save / every restore start, COMMIT and end; every ListAll, ListRules, Run), then bursts (2-13) and random multi-faults. " +
			"non-trivial = >=5 fault runs hit and convergence was judged at least once; distinct by scenario",
		Assumptions: []string{
			"verif/internal/fakeipt models iptables-save/-restore --noflush: canonical save spelling (long options short, /32 added, save_string quoting), per-COMMIT-block atomicity, refusal rules for missing chains/targets, bad rule numbers, -D by spec without match, -X of non-empty/referenced chains, loops; nft backend: a chain referenced at block start cannot be deleted in that block",
			"not modelled by fakeipt: match/target option validation, counters, the xtables lock and truly concurrent writers, the iptables-nft -R index bug, policies changed via restore",
			"nftables half uses sigs.k8s.io/knftables.Fake (transactional; does not refuse deleting a referenced chain; rule text is opaque) wrapped for fault injection; other nft tables are planted directly into the fake's table map",
			"ownership reference: chains starting with cali/felix- and, elsewhere, rules with a comment starting cali: or jumping (-j) to such a chain are Felix's; foreign rules never use those patterns",
			"expected rule text is produced with the repo's match/action/renderer builders (rendering itself is property C08) and normalised by the fake's save spelling; hash comments are stripped before comparing",
			"the repo's felix/iptables/testutils mock was not used: it depends on ginkgo/gomega assertions, applies restore input non-atomically and has no refusal rules",
		},
		Cases: func(tier string) int {
			if tier == "thorough" {
				return 2400
			}
			return 240
		},
		Run:         run,
		CaseTimeout: 15 * time.Minute,
		Floors: map[string]int64{
			"apply_ok": 2000, "c_checks": 2000, "cmd_save": 1500, "cmd_restore": 1000, "restore_blocks": 1200, "restore_lines": 10000,
			"faults_save": 150, "faults_restore": 250, "f_checks": 1000, "foreign_objects_checked": 5000, "n_checks": 2500, "checkpoints": 500,
			"apply_gave_up": 15, "oob_edits": 400, "oob_between_save_and_restore": 60,
			"nft_cases": 20, "nft_cmd_listall": 400, "nft_cmd_listrules": 350, "nft_cmd_run": 400, "nft_tx_committed": 250,
			"nft_faults_listall": 20, "nft_faults_listrules": 20, "nft_faults_run": 40,
			"ipt_cases_legacy_insert": 10, "ipt_cases_legacy_append": 5, "ipt_cases_nft_insert": 10, "ipt_cases_nft_append": 5,
		},
	})
}

// nftables half of C15: the real felix/nftables.NftablesTable (NewTable) on knftables.Fake.
//
// Felix owns its whole nftables table ("calico"); other software lives in other tables.  The fake
// is wrapped (nftDP) to inject faults into ListAll / ListRules / Run, to run out-of-band edits just
// before a transaction is applied, and to snapshot the table around every transaction.
//
// Oracles (same letters as in main.go):
//
//	F  after every Run that succeeded: every table other than Felix's (a kube-proxy-like table in the
//	   same family and a table called "calico" in the other family) is unchanged.
//	C  after an Apply that returned normally, when Felix's last complete read (ListAll + ListRules) is
//	   newer than the last out-of-band edit: the table exists; every base chain holds exactly
//	   [inserted rules][appended rules]; every other chain in the table is desired, and every desired
//	   chain that is reachable from a base chain holds exactly the desired rules in order (rule text
//	   and comments, modulo the hash prefix of the comment).
//	N  a successful transaction must not flush/add to a non-empty chain and leave it identical.
//	L  Apply must not give up in a call in which no fault was injected.
package main

import (
	"context"
	"errors"
	"fmt"
	"math/rand"
	"regexp"
	"sort"
	"strings"
	"sync"
	"time"

	"github.com/sirupsen/logrus"
	"sigs.k8s.io/knftables"

	"github.com/projectcalico/calico/felix/environment"
	"github.com/projectcalico/calico/felix/generictables"
	"github.com/projectcalico/calico/felix/nftables"

	"verif/internal/harness"
)

var nftBaseChains = []string{"filter-INPUT", "filter-FORWARD", "filter-OUTPUT", "nat-PREROUTING", "nat-INPUT", "nat-OUTPUT", "nat-POSTROUTING",
	"mangle-PREROUTING", "mangle-INPUT", "mangle-FORWARD", "mangle-OUTPUT", "mangle-POSTROUTING", "raw-PREROUTING", "raw-OUTPUT"}

func isNftBase(n string) bool {
	for _, b := range nftBaseChains {
		if b == n {
			return true
		}
	}
	return false
}

func buildNftMatch(key string, ipv int) generictables.MatchCriteria {
	m := nftables.Match()
	switch key {
	case "":
		return nil
	case "tcp":
		return m.Protocol("tcp")
	case "tcp80":
		return m.Protocol("tcp").DestPorts(80, 443)
	case "src":
		if ipv == 6 {
			return m.SourceNet("fd00::/8")
		}
		return m.SourceNet("10.0.0.0/8")
	case "dsthost":
		if ipv == 6 {
			return m.DestNet("fd00::1")
		}
		return m.DestNet("10.1.2.3")
	case "mark":
		return m.MarkSingleBitSet(0x10)
	case "iface":
		return m.InInterface("cali*")
	case "oface":
		return m.OutInterface("tunl0").NotProtocol("udp")
	case "ct":
		return m.ConntrackState("RELATED,ESTABLISHED")
	case "set":
		return m.Protocol("udp")
	}
	panic("unknown match key " + key)
}

func buildNftAction(d drule) generictables.Action {
	switch d.Act {
	case "accept":
		return nftables.AcceptAction{}
	case "drop":
		return nftables.DropAction{}
	case "return":
		return nftables.ReturnAction{}
	case "mark":
		return nftables.SetMarkAction{Mark: 0x40}
	case "log":
		return nftables.LogAction{Prefix: "calico-packet"}
	case "jump":
		return nftables.JumpAction{Target: d.Target}
	case "goto":
		return nftables.GotoAction{Target: d.Target}
	}
	panic("unknown action " + d.Act)
}

func (d drule) buildNft(ipv int) generictables.Rule {
	return generictables.Rule{Match: buildNftMatch(d.Match, ipv), Action: buildNftAction(d), Comment: d.Comments}
}

// expectedNft is "rule text|comment without hash".
func (d drule) expectedNft(ipv int) string {
	r := nftables.NewNFTRenderer("cali:", uint8(ipv)).Render("x", "", d.buildNft(ipv), features)
	c := ""
	if r.Comment != nil {
		c = *r.Comment
	}
	return r.Rule + "|" + c
}

var nftHashRe = regexp.MustCompile(`^cali:[^;]*;\s*`)

func kernelNftRule(r *knftables.Rule) string {
	c := ""
	if r.Comment != nil {
		c = nftHashRe.ReplaceAllString(*r.Comment, "")
	}
	return r.Rule + "|" + strings.TrimSpace(c)
}

// ---------------------------------------------------------------------------------------------

type nftOOB struct {
	Kind    string `json:"k"`
	Pos     int    `json:"pos,omitempty"`
	Idx     int    `json:"idx,omitempty"`
	Rule    string `json:"rule,omitempty"`
	Comment string `json:"comment,omitempty"`
	Chain   string `json:"chain,omitempty"`
}

type nftStartChain struct {
	Name  string
	Rules [][2]string // text, comment ("" = none)
}

type nftScenario struct {
	ipv      int
	refresh  time.Duration
	names    []string
	start    []nftStartChain // nil = table absent
	hasTable bool
	ops      []op
	oobs     map[int]*nftOOB // by op index
}

// nftDP wraps knftables.Fake.
type nftDP struct {
	mu   sync.Mutex
	fake *knftables.Fake
	r    *nftRunner
	seq  map[string]int
	log  []string
}

func (d *nftDP) logf(f string, a ...any) {
	if len(d.log) < 3000 {
		d.log = append(d.log, fmt.Sprintf(f, a...))
	}
}

func (d *nftDP) fault(cmd string) (int, string) {
	d.seq[cmd]++
	s := d.seq[cmd]
	m := ""
	if d.r.plan != nil {
		m = d.r.plan.decideNft(cmd, s)
	}
	d.r.count("nft_cmd_"+cmd, 1)
	if m != "" {
		d.r.callFaults++
		d.r.count("nft_faults_"+cmd, 1)
	}
	d.logf("%s#%d fault=%q", cmd, s, m)
	return s, m
}

var errInjected = errors.New("injected failure: nft: Operation not permitted / timed out")

func (d *nftDP) NewTransaction() *knftables.Transaction { return d.fake.NewTransaction() }

func (d *nftDP) Check(ctx context.Context, tx *knftables.Transaction) error {
	return d.fake.Check(ctx, tx)
}

func (d *nftDP) ListAll(ctx context.Context) (map[string][]string, error) {
	if _, m := d.fault("listall"); m != "" {
		d.r.readOK = false
		d.r.savedEpoch = -1 // Felix now works from a view it could not refresh
		return nil, errInjected
	}
	res, err := d.fake.ListAll(ctx)
	if knftables.IsNotFound(err) {
		// The table does not exist: that is a complete read of "nothing".
		d.r.readOK = false
		d.r.savedEpoch = d.r.oobEpoch
		return res, err
	}
	d.r.readOK = err == nil
	d.r.readEpoch = d.r.oobEpoch
	return res, err
}

func (d *nftDP) List(ctx context.Context, objectType string) ([]string, error) {
	if _, m := d.fault("list"); m != "" {
		return nil, errInjected
	}
	return d.fake.List(ctx, objectType)
}

func (d *nftDP) ListRules(ctx context.Context, chain string) ([]*knftables.Rule, error) {
	if _, m := d.fault("listrules"); m != "" {
		d.r.savedEpoch = -1
		return nil, errInjected
	}
	rules, err := d.fake.ListRules(ctx, chain)
	if (err == nil || knftables.IsNotFound(err)) && chain == "" && d.r.readOK && d.r.readEpoch == d.r.oobEpoch {
		// A complete read: names and rules, with no out-of-band edit in between.
		d.r.savedEpoch = d.r.oobEpoch
	}
	return rules, err
}

func (d *nftDP) ListElements(ctx context.Context, objectType, name string) ([]*knftables.Element, error) {
	return d.fake.ListElements(ctx, objectType, name)
}

func (d *nftDP) ListCounters(ctx context.Context) ([]*knftables.Counter, error) {
	return d.fake.ListCounters(ctx)
}

func (d *nftDP) Run(ctx context.Context, tx *knftables.Transaction) error {
	r := d.r
	if e := r.pendingOOB; e != nil {
		r.pendingOOB = nil
		r.count("oob_between_read_and_write", 1)
		r.doOOB(e)
	}
	s, m := d.fault("run")
	txt := tx.String()
	if m == "fail" {
		d.logf("run#%d FAILED (injected), nothing applied", s)
		return errInjected
	}
	before := r.snapshot()
	foreignBefore := r.foreignDump()
	err := d.fake.Run(ctx, tx)
	if err != nil {
		d.logf("run#%d refused: %v\n%s", s, err, txt)
		return err
	}
	d.logf("run#%d ok:\n%s", s, txt)
	r.count("nft_tx_committed", 1)
	r.count("nft_tx_lines", int64(strings.Count(txt, "\n")))
	if !r.dead {
		// F
		r.count("foreign_objects_checked", 1)
		if fa := r.foreignDump(); fa != foreignBefore {
			r.violate("foreign-content-changed", map[string]any{"tx": txt, "before": foreignBefore, "after": fa}, "a Felix transaction changed another nftables table")
		}
		// N
		if r.savedEpoch == r.oobEpoch && before != nil {
			after := r.snapshot()
			touched := map[string]bool{}
			for _, line := range strings.Split(txt, "\n") {
				f := strings.Fields(line)
				if len(f) >= 5 && (f[1] == "chain" && f[0] == "flush" || f[1] == "rule") {
					touched[f[4]] = true
				}
			}
			for name := range touched {
				r.count("n_checks", 1)
				b, okb := before[name]
				a, oka := after[name]
				if okb && oka && len(b) > 0 && strings.Join(b, "\n") == strings.Join(a, "\n") && !strings.Contains(txt, "delete table") {
					r.violate("unchanged-chain-rewritten", map[string]any{"chain": name, "tx": txt},
						"transaction #%d rewrote chain %q and left it identical (%d rules)", s, name, len(b))
				}
			}
		}
	}
	if m == "applied-but-error" {
		d.logf("run#%d applied, but an error is reported (injected)", s)
		return errInjected
	}
	return nil
}

var _ knftables.Interface = (*nftDP)(nil)

func (p *faultPlan) decideNft(cmd string, seq int) string {
	if p == nil || p.disabled {
		return ""
	}
	pick := func() string {
		if cmd == "run" && p.rnd.Intn(4) == 0 {
			return "applied-but-error"
		}
		return "fail"
	}
	switch p.Kind {
	case "single":
		if cmd == p.Cmd && seq == p.Seq {
			p.hits++
			return p.Mode
		}
	case "burst":
		if cmd == p.Cmd && seq >= p.Seq && seq < p.Seq+p.BurstLen {
			p.hits++
			return pick()
		}
	case "random":
		if p.rnd.Float64() < p.P {
			p.hits++
			return pick()
		}
	}
	return ""
}

// ---------------------------------------------------------------------------------------------

type nftRunner struct {
	c    *harness.Case
	sc   *nftScenario
	plan *faultPlan
	dp   *nftDP
	tbl  *nftables.NftablesTable
	d    *desired
	now  time.Time
	fam  knftables.Family

	oobEpoch   int
	savedEpoch int
	readEpoch  int
	readOK     bool
	callFaults int
	pendingOOB *nftOOB
	snaps      []map[string][]string

	dead     bool
	cnt      map[string]int64
	seenKeys map[string]bool
}

func (r *nftRunner) count(n string, v int64) { r.cnt[n] += v }

// snapshot returns chain -> rules ("text|comment" with the full comment) of Felix's table, nil if absent.
func (r *nftRunner) snapshot() map[string][]string {
	f := r.dp.fake
	f.RLock()
	defer f.RUnlock()
	if f.Table == nil {
		return nil
	}
	out := map[string][]string{}
	for n, c := range f.Table.Chains {
		l := []string{}
		for _, rl := range c.Rules {
			cm := ""
			if rl.Comment != nil {
				cm = *rl.Comment
			}
			l = append(l, rl.Rule+"|"+cm)
		}
		out[n] = l
	}
	return out
}

func (r *nftRunner) describe() []string {
	s := r.snapshot()
	if s == nil {
		return []string{"<no table>"}
	}
	var names []string
	for n := range s {
		names = append(names, n)
	}
	sort.Strings(names)
	var out []string
	for _, n := range names {
		out = append(out, "chain "+n)
		for _, rl := range s[n] {
			out = append(out, "   "+rl)
		}
	}
	return out
}

// foreignDump renders every table except Felix's.
func (r *nftRunner) foreignDump() string {
	f := r.dp.fake
	f.RLock()
	defer f.RUnlock()
	var lines []string
	for fam, tabs := range f.Tables {
		for name, t := range tabs {
			if fam == r.fam && name == "calico" {
				continue
			}
			for cn, c := range t.Chains {
				line := fmt.Sprintf("%s/%s/%s:", fam, name, cn)
				for _, rl := range c.Rules {
					cm := ""
					if rl.Comment != nil {
						cm = *rl.Comment
					}
					line += " [" + rl.Rule + "|" + cm + "]"
				}
				lines = append(lines, line)
			}
			lines = append(lines, fmt.Sprintf("%s/%s", fam, name))
		}
	}
	sort.Strings(lines)
	return strings.Join(lines, "\n")
}

func (r *nftRunner) detail(extra map[string]any) map[string]any {
	d := map[string]any{"kind": "nftables", "ipv": r.sc.ipv, "refresh_s": r.sc.refresh.Seconds(), "start": r.sc.start, "start_has_table": r.sc.hasTable,
		"ops": r.sc.ops, "oobs": r.sc.oobs, "plan": r.plan, "table_now": r.describe()}
	tail := r.dp.log
	if len(tail) > 60 {
		tail = tail[len(tail)-60:]
	}
	d["nft_log_tail"] = tail
	for k, v := range extra {
		d[k] = v
	}
	return d
}

func (r *nftRunner) violate(key string, extra map[string]any, format string, a ...any) {
	r.dead = true
	if r.seenKeys["nft:"+key] {
		return
	}
	r.seenKeys["nft:"+key] = true
	r.c.Violationf(key, r.detail(extra), format, a...)
}

func (r *nftRunner) newFelix() {
	fd := &environment.FakeFeatureDetector{}
	r.tbl = nftables.NewTable("calico", uint8(r.sc.ipv), "cali:", fd, nftables.TableOptions{
		NewDataplane: func(knftables.Family, string, ...knftables.Option) (knftables.Interface, error) {
			return r.dp, nil
		},
		RefreshInterval:        r.sc.refresh,
		SleepOverride:          func(d time.Duration) { r.now = r.now.Add(d) },
		NowOverride:            func() time.Time { return r.now },
		ListInterfacesOverride: func() ([]string, error) { return []string{"lo", "eth0"}, nil },
		OpRecorder:             nopRecorder{},
	}, true)
	r.savedEpoch = -1 // a new instance has read nothing yet
	r.count("instances", 1)
	var cs []dchain
	for _, n := range r.sc.names {
		if c, ok := r.d.chains[n]; ok {
			cs = append(cs, *c)
		}
	}
	if len(cs) > 0 {
		r.api(&op{Kind: "update-chains", Chains: cs})
	}
	for _, bc := range nftBaseChains {
		if h, ok := r.d.hooks[bc]; ok {
			r.api(&op{Kind: "insert-rules", Chain: bc, Rules: h.Inserts})
			r.api(&op{Kind: "append-rules", Chain: bc, Rules: h.Appends})
		}
	}
}

func (r *nftRunner) api(o *op) {
	conv := func(rs []drule) []generictables.Rule {
		out := make([]generictables.Rule, 0, len(rs))
		for _, x := range rs {
			out = append(out, x.buildNft(r.sc.ipv))
		}
		return out
	}
	switch o.Kind {
	case "update-chains":
		var cs []*generictables.Chain
		for _, c := range o.Chains {
			cs = append(cs, &generictables.Chain{Name: c.Name, Rules: conv(c.Rules)})
		}
		r.tbl.UpdateChains(cs)
	case "remove-chains":
		for _, n := range o.Names {
			r.tbl.RemoveChainByName(n)
		}
	case "insert-rules":
		r.tbl.InsertOrAppendRules(o.Chain, conv(o.Rules))
	case "append-rules":
		r.tbl.AppendRules(o.Chain, conv(o.Rules))
	}
}

// oobTx runs a harness transaction directly on the fake.
func (r *nftRunner) oobTx(fn func(tx *knftables.Transaction)) bool {
	tx := r.dp.fake.NewTransaction()
	fn(tx)
	if tx.NumOperations() == 0 {
		return false
	}
	if err := r.dp.fake.Run(context.Background(), tx); err != nil {
		return false
	}
	r.dp.logf("OOB:\n%s", tx.String())
	return true
}

func (r *nftRunner) doOOB(e *nftOOB) {
	s := r.snapshot()
	var names []string
	for n := range s {
		names = append(names, n)
	}
	sort.Strings(names)
	pick := func() (string, bool) {
		if len(names) == 0 {
			return "", false
		}
		return names[e.Pos%len(names)], true
	}
	done := false
	switch e.Kind {
	case "flush":
		if n, ok := pick(); ok {
			done = r.oobTx(func(tx *knftables.Transaction) { tx.Flush(&knftables.Chain{Name: n}) })
		}
	case "delete-rule":
		if n, ok := pick(); ok {
			rules, _ := r.dp.fake.ListRules(context.Background(), n)
			if len(rules) > 0 {
				rl := rules[e.Idx%len(rules)]
				done = r.oobTx(func(tx *knftables.Transaction) { tx.Delete(&knftables.Rule{Chain: n, Handle: rl.Handle}) })
			}
		}
	case "junk-rule":
		if n, ok := pick(); ok {
			var cm *string
			if e.Comment != "" {
				cm = &e.Comment
			}
			done = r.oobTx(func(tx *knftables.Transaction) {
				if e.Idx%2 == 0 {
					tx.Insert(&knftables.Rule{Chain: n, Rule: e.Rule, Comment: cm})
				} else {
					tx.Add(&knftables.Rule{Chain: n, Rule: e.Rule, Comment: cm})
				}
			})
		}
	case "junk-chain":
		if s != nil {
			done = r.oobTx(func(tx *knftables.Transaction) {
				tx.Add(&knftables.Chain{Name: e.Chain})
				tx.Add(&knftables.Rule{Chain: e.Chain, Rule: e.Rule})
			})
		}
	case "delete-chain":
		if n, ok := pick(); ok {
			done = r.oobTx(func(tx *knftables.Transaction) {
				// sever references first, as a real nft user would have to
				for cn := range s {
					rules, _ := r.dp.fake.ListRules(context.Background(), cn)
					for _, rl := range rules {
						w := strings.Fields(rl.Rule)
						for i := 0; i+1 < len(w); i++ {
							if (w[i] == "jump" || w[i] == "goto") && w[i+1] == n && cn != n {
								tx.Delete(&knftables.Rule{Chain: cn, Handle: rl.Handle})
							}
						}
					}
				}
				tx.Flush(&knftables.Chain{Name: n})
				tx.Delete(&knftables.Chain{Name: n})
			})
		}
	case "delete-table":
		if s != nil {
			done = r.oobTx(func(tx *knftables.Transaction) { tx.Delete(&knftables.Table{}) })
		}
	case "clobber":
		if len(r.snaps) > 0 {
			old := r.snaps[len(r.snaps)/2]
			done = r.oobTx(func(tx *knftables.Transaction) {
				tx.Add(&knftables.Table{})
				tx.Delete(&knftables.Table{})
				tx.Add(&knftables.Table{})
				var cn []string
				for n := range old {
					cn = append(cn, n)
				}
				sort.Strings(cn)
				for _, n := range cn {
					tx.Add(&knftables.Chain{Name: n})
				}
				for _, n := range cn {
					for _, rl := range old[n] {
						i := strings.LastIndex(rl, "|")
						var cm *string
						if c := rl[i+1:]; c != "" {
							cm = &c
						}
						tx.Add(&knftables.Rule{Chain: n, Rule: rl[:i], Comment: cm})
					}
				}
			})
		}
	}
	if done {
		r.count("oob_edits", 1)
		r.oobEpoch++
	}
}

func (r *nftRunner) apply() bool {
	r.callFaults = 0
	r.count("apply_calls", 1)
	gaveUp := false
	func() {
		defer func() {
			if e := recover(); e != nil {
				msg := fmt.Sprint(e)
				if le, ok := e.(*logrus.Entry); ok {
					msg = le.Message
				}
				if strings.Contains(msg, "command failed after retries") || strings.Contains(msg, "giving up after retries") {
					gaveUp = true
					return
				}
				panic(e)
			}
		}()
		r.tbl.Apply()
	}()
	r.pendingOOB = nil
	if gaveUp {
		r.count("apply_gave_up", 1)
		if r.callFaults == 0 {
			r.violate("apply-gives-up-without-faults", nil, "NftablesTable.Apply gave up although no fault was injected during the call")
		}
		return false
	}
	r.count("apply_ok", 1)
	if !r.dead && r.savedEpoch == r.oobEpoch {
		r.checkConverged("after-apply")
	} else {
		r.count("apply_ok_not_judged", 1)
	}
	if s := r.snapshot(); s != nil && len(r.snaps) < 8 {
		r.snaps = append(r.snaps, s)
	}
	return true
}

func (r *nftRunner) checkConverged(when string) {
	r.count("c_checks", 1)
	s := r.snapshot()
	if s == nil {
		r.violate("nft-table-missing", map[string]any{"when": when}, "%s: Felix's table does not exist", when)
		return
	}
	ipv := r.sc.ipv
	exp := func(rs []drule) []string {
		out := []string{}
		for _, x := range rs {
			out = append(out, x.expectedNft(ipv))
		}
		return out
	}
	got := func(name string) []string {
		f := r.dp.fake
		f.RLock()
		defer f.RUnlock()
		out := []string{}
		for _, rl := range f.Table.Chains[name].Rules {
			out = append(out, kernelNftRule(rl))
		}
		return out
	}
	reach := r.d.reachable()
	var names []string
	for n := range s {
		names = append(names, n)
	}
	sort.Strings(names)
	for _, name := range names {
		if isNftBase(name) {
			var want []string
			if h, ok := r.d.hooks[name]; ok {
				want = append(exp(h.Inserts), exp(h.Appends)...)
			}
			if g := got(name); strings.Join(g, "\n") != strings.Join(want, "\n") {
				r.violate("hook-rules-wrong", map[string]any{"chain": name, "when": when, "kernel": s[name], "want_modulo_hash": want},
					"%s: base chain %q is %q, expected (modulo hash) %q", when, name, g, want)
				return
			}
			continue
		}
		dc, ok := r.d.chains[name]
		if !ok {
			r.violate("stale-felix-chain-remains", map[string]any{"chain": name, "when": when, "rules": s[name]},
				"%s: chain %q is in Felix's table but not desired", when, name)
			return
		}
		want := exp(dc.Rules)
		if g := got(name); strings.Join(g, "\n") != strings.Join(want, "\n") {
			key := "felix-chain-wrong-content"
			if !reach[name] {
				key = "stale-felix-chain-remains"
			}
			r.violate(key, map[string]any{"chain": name, "when": when, "kernel": s[name], "want_modulo_hash": want, "reachable": reach[name]},
				"%s: chain %q has %q, desired %q", when, name, g, want)
			return
		}
	}
	for _, b := range nftBaseChains {
		if _, ok := s[b]; !ok {
			r.violate("desired-chain-missing", map[string]any{"chain": b, "when": when}, "%s: base chain %q is missing", when, b)
			return
		}
	}
	for name := range reach {
		if _, ok := s[name]; !ok {
			r.violate("desired-chain-missing", map[string]any{"chain": name, "when": when}, "%s: desired, referenced chain %q is missing", when, name)
			return
		}
	}
}

func (r *nftRunner) checkpoint() {
	if r.plan != nil {
		r.plan.disabled = true
		defer func() { r.plan.disabled = false }()
	}
	if r.sc.refresh > 0 {
		r.now = r.now.Add(r.sc.refresh + time.Second)
	} else {
		r.tbl.InvalidateDataplaneCache("verif checkpoint")
	}
	if !r.apply() || r.dead {
		return
	}
	r.count("checkpoints", 1)
	if r.savedEpoch != r.oobEpoch {
		r.violate("no-reread-at-checkpoint", nil, "Apply after the refresh interval expired did not re-read the table")
	}
}

type nftResult struct {
	counts map[string]int
	hits   int
}

func runNftScenario(c *harness.Case, sc *nftScenario, plan *faultPlan, seenKeys map[string]bool, cnt map[string]int64) nftResult {
	fam := knftables.IPv4Family
	other := knftables.IPv6Family
	if sc.ipv == 6 {
		fam, other = other, fam
	}
	r := &nftRunner{c: c, sc: sc, plan: plan, d: newDesired(), now: time.Unix(1_700_000_000, 0), fam: fam, savedEpoch: -1, readEpoch: -2, cnt: cnt, seenKeys: seenKeys}
	r.dp = &nftDP{fake: knftables.NewFake(fam, "calico"), r: r, seq: map[string]int{}}
	// Foreign tables: a Fake bound to Felix's table cannot address other tables through transactions, so
	// they are planted directly into the fake's table map (Run copies and keeps every table it knows).
	mkTable := func(f knftables.Family, name string, chains map[string][][2]string) *knftables.FakeTable {
		t := &knftables.FakeTable{Table: knftables.Table{Family: f, Name: name}, Flowtables: map[string]*knftables.FakeFlowtable{},
			Chains: map[string]*knftables.FakeChain{}, Sets: map[string]*knftables.FakeSet{}, Maps: map[string]*knftables.FakeMap{},
			Counters: map[string]*knftables.FakeCounter{}}
		for cn, rules := range chains {
			ch := &knftables.FakeChain{Chain: knftables.Chain{Family: f, Table: name, Name: cn}}
			for _, rl := range rules {
				var cm *string
				if rl[1] != "" {
					cm = knftables.PtrTo(rl[1])
				}
				ch.Rules = append(ch.Rules, &knftables.Rule{Family: f, Table: name, Chain: cn, Rule: rl[0], Comment: cm})
			}
			t.Chains[cn] = ch
		}
		return t
	}
	r.dp.fake.Lock()
	r.dp.fake.Tables = map[knftables.Family]map[string]*knftables.FakeTable{
		fam: {"kube-proxy": mkTable(fam, "kube-proxy", map[string][][2]string{
			"cali-looks-like": nil,
			"filter-FORWARD":  {{"ct state invalid drop", "cali:abcdefgh12345678; not ours"}, {"jump cali-looks-like", ""}},
		})},
		other: {"calico": mkTable(other, "calico", map[string][][2]string{"filter-INPUT": {{"counter accept", "cali:ZZZZZZZZZZZZZZZZ;"}}})},
	}
	r.dp.fake.Unlock()
	tx := r.dp.fake.NewTransaction()
	if sc.hasTable {
		tx.Add(&knftables.Table{})
		for _, sch := range sc.start {
			tx.Add(&knftables.Chain{Name: sch.Name})
		}
		for _, sch := range sc.start {
			for _, rl := range sch.Rules {
				var cm *string
				if rl[1] != "" {
					cm = knftables.PtrTo(rl[1])
				}
				tx.Add(&knftables.Rule{Chain: sch.Name, Rule: rl[0], Comment: cm})
			}
		}
	}
	if tx.NumOperations() > 0 {
		if err := r.dp.fake.Run(context.Background(), tx); err != nil {
			panic(fmt.Sprintf("harness bug: cannot build the nft starting state: %v\n%s", err, tx.String()))
		}
	}
	r.newFelix()
	for i := range sc.ops {
		if r.dead {
			break
		}
		o := &sc.ops[i]
		switch o.Kind {
		case "update-chains", "remove-chains", "insert-rules", "append-rules":
			applyToModel(r.d, o)
			r.api(o)
		case "apply":
			if !r.apply() && !r.dead {
				r.newFelix()
			}
		case "advance":
			r.now = r.now.Add(o.Advance)
		case "oob":
			r.doOOB(sc.oobs[i])
		case "oob-during-apply":
			r.pendingOOB = sc.oobs[i]
		case "restart":
			r.count("restarts_requested", 1)
			r.newFelix()
		case "checkpoint":
			r.checkpoint()
		}
		r.count("ops_executed", 1)
	}
	res := nftResult{counts: r.dp.seq}
	if plan != nil {
		res.hits = plan.hits
	}
	return res
}

func genNftOOB(R *rand.Rand) *nftOOB {
	e := &nftOOB{Pos: R.Intn(16), Idx: R.Intn(8)}
	switch R.Intn(9) {
	case 0, 1:
		e.Kind = "flush"
	case 2:
		e.Kind = "delete-rule"
	case 3, 4:
		e.Kind, e.Rule = "junk-rule", []string{"counter accept", "ip protocol tcp counter drop", "meta mark 0x1 counter return"}[R.Intn(3)]
		if R.Intn(2) == 0 {
			e.Comment = "cali:" + randHash(R) + ";"
		}
	case 5:
		e.Kind, e.Chain, e.Rule = "junk-chain", []string{"cali-stale-x", "foreign-thing", "filter-EXTRA"}[R.Intn(3)], "counter drop"
	case 6:
		e.Kind = "delete-chain"
	case 7:
		e.Kind = "delete-table"
	default:
		e.Kind = "clobber"
	}
	return e
}

func genNftScenario(R *rand.Rand, thorough bool) *nftScenario {
	sc := &nftScenario{ipv: 4, oobs: map[int]*nftOOB{}}
	if R.Intn(4) == 0 {
		sc.ipv = 6
	}
	sc.refresh = []time.Duration{0, 10 * time.Second, 90 * time.Second}[R.Intn(3)]
	namePool := []string{"cali-FORWARD", "cali-INPUT", "cali-from-wl-dispatch", "cali-to-wl-dispatch", "cali-fw-cali1234abcd", "cali-tw-cali1234abcd",
		"cali-pi-_abcDEF123", "cali-po-_abcDEF123", "cali-cidr-block", "cali-pri-kns.default"}
	R.Shuffle(len(namePool), func(i, j int) { namePool[i], namePool[j] = namePool[j], namePool[i] })
	n := 3 + R.Intn(4)
	if thorough {
		n += R.Intn(3)
	}
	// reuse the iptables generator machinery through a scenario shell
	shell := &scenario{ipv: sc.ipv, table: "nft", names: namePool[:n]}
	sc.names = shell.names
	g := &gen{R: R, sc: shell, d: newDesired()}
	noComments := func(c dchain) dchain {
		c.Force = false
		return c
	}
	var init []dchain
	for i := len(sc.names) - 1; i >= 0; i-- {
		if R.Intn(5) == 0 {
			continue
		}
		c := noComments(g.randChain(i))
		g.d.chains[c.Name] = &c
		init = append(init, c)
	}
	g.d = newDesired()
	g.emit(op{Kind: "update-chains", Chains: init})
	hookChains := []string{"filter-INPUT", "filter-FORWARD", "filter-OUTPUT", "mangle-PREROUTING", "raw-PREROUTING", "nat-POSTROUTING"}
	for _, bc := range hookChains {
		if R.Intn(2) == 0 {
			g.emit(op{Kind: "insert-rules", Chain: bc, Rules: g.hookRules()})
		}
		if R.Intn(5) == 0 {
			g.emit(op{Kind: "append-rules", Chain: bc, Rules: g.hookRules()})
		}
	}
	initial := len(shell.ops)

	// Starting state of Felix's table.
	sc.hasTable = R.Intn(4) != 0
	if sc.hasTable {
		chains := map[string]*nftStartChain{}
		order := []string{}
		add := func(name string) *nftStartChain {
			if c, ok := chains[name]; ok {
				return c
			}
			c := &nftStartChain{Name: name}
			chains[name] = c
			order = append(order, name)
			return c
		}
		// what a current Felix would have written, damaged
		if R.Intn(4) != 0 {
			if cur := nftPrerun(sc, shell.ops[:initial]); cur != nil {
				var cn []string
				for n := range cur {
					cn = append(cn, n)
				}
				sort.Strings(cn)
				for _, name := range cn {
					if R.Intn(6) == 0 {
						continue
					}
					c := add(name)
					for _, rl := range cur[name] {
						i := strings.LastIndex(rl, "|")
						c.Rules = append(c.Rules, [2]string{rl[:i], rl[i+1:]})
					}
					switch R.Intn(7) {
					case 0:
						if len(c.Rules) > 0 {
							i := R.Intn(len(c.Rules))
							c.Rules = append(c.Rules[:i], c.Rules[i+1:]...)
						}
					case 1:
						R.Shuffle(len(c.Rules), func(i, j int) { c.Rules[i], c.Rules[j] = c.Rules[j], c.Rules[i] })
					case 2:
						c.Rules = append(c.Rules, [2]string{"counter drop", "cali:" + randHash(R) + ";"})
					case 3:
						c.Rules = append([][2]string{{"counter accept", ""}}, c.Rules...)
					}
				}
			}
		}
		for i, m := 0, R.Intn(5); i < m; i++ {
			add(nftBaseChains[R.Intn(len(nftBaseChains))])
		}
		stale := []string{}
		for i, m := 0, R.Intn(4); i < m; i++ {
			stale = append(stale, []string{"cali-OLD-a", "cali-OLD-b", "cali-fw-gone", "felix-old", "foreign-thing", "filter-EXTRA"}[R.Intn(6)])
		}
		stale = dedupe(stale)
		for _, s := range stale {
			add(s)
		}
		for i, s := range stale {
			c := chains[s]
			if len(c.Rules) > 0 {
				continue
			}
			for j, m := 0, R.Intn(3); j < m; j++ {
				cm := ""
				if R.Intn(3) != 0 {
					cm = "cali:" + randHash(R) + ";"
				}
				if i+1 < len(stale) && R.Intn(2) == 0 {
					c.Rules = append(c.Rules, [2]string{"counter jump " + stale[i+1+R.Intn(len(stale)-i-1)], cm})
				} else {
					c.Rules = append(c.Rules, [2]string{"counter accept", cm})
				}
			}
		}
		// stale hook rules in base chains
		for i, m := 0, R.Intn(4); i < m && len(order) > 0; i++ {
			bc := add(nftBaseChains[R.Intn(len(nftBaseChains))])
			tgt := order[R.Intn(len(order))]
			rl := [2]string{"counter jump " + tgt, "cali:" + randHash(R) + ";"}
			if isNftBase(tgt) || tgt == bc.Name {
				rl[0] = "counter accept"
			}
			if R.Intn(3) == 0 {
				rl[1] = ""
			}
			p := R.Intn(len(bc.Rules) + 1)
			bc.Rules = append(bc.Rules[:p:p], append([][2]string{rl}, bc.Rules[p:]...)...)
		}
		// every jump/goto target must exist (nft refuses dangling references)
		for _, n := range append([]string{}, order...) {
			for _, rl := range chains[n].Rules {
				w := strings.Fields(rl[0])
				for i := 0; i+1 < len(w); i++ {
					if w[i] == "jump" || w[i] == "goto" {
						add(w[i+1])
					}
				}
			}
		}
		for _, n := range order {
			sc.start = append(sc.start, *chains[n])
		}
	}

	nOps := 6 + R.Intn(10)
	if thorough {
		nOps += R.Intn(12)
	}
	g.emit(op{Kind: "apply"})
	for len(shell.ops) < initial+nOps {
		switch x := R.Intn(30); {
		case x < 5:
			var cs []dchain
			for i, m := 0, 1+R.Intn(3); i < m; i++ {
				c := noComments(g.randChain(R.Intn(len(sc.names))))
				cs = append(cs, c)
				g.d.chains[c.Name] = &c
			}
			R.Shuffle(len(cs), func(i, j int) { cs[i], cs[j] = cs[j], cs[i] })
			g.emit(op{Kind: "update-chains", Chains: cs})
		case x < 7:
			var have []string
			for _, n := range sc.names {
				if _, ok := g.d.chains[n]; ok {
					have = append(have, n)
				}
			}
			if len(have) > 0 {
				name := have[R.Intn(len(have))]
				g.removeChainNft(name, hookChains)
			}
		case x < 9:
			g.emit(op{Kind: "insert-rules", Chain: hookChains[R.Intn(len(hookChains))], Rules: g.hookRules()})
		case x < 10:
			g.emit(op{Kind: "append-rules", Chain: hookChains[R.Intn(len(hookChains))], Rules: g.hookRules()})
		case x < 17:
			g.emit(op{Kind: "apply"})
		case x < 20:
			g.emit(op{Kind: "advance", Advance: []time.Duration{10 * time.Millisecond, time.Second, 11 * time.Second, 100 * time.Second, 2 * time.Hour}[R.Intn(5)]})
		case x < 24:
			sc.oobs[len(shell.ops)] = genNftOOB(R)
			g.emit(op{Kind: "oob"})
		case x < 26:
			sc.oobs[len(shell.ops)] = genNftOOB(R)
			g.emit(op{Kind: "oob-during-apply"})
			g.emit(op{Kind: "apply"})
		case x < 27:
			g.emit(op{Kind: "restart"})
		case x < 28:
			g.emit(op{Kind: "checkpoint"})
		default:
			g.emit(op{Kind: "apply"})
		}
	}
	g.emit(op{Kind: "checkpoint"})
	sc.ops = shell.ops
	return sc
}

// removeChainNft is removeChain for the nft base chains.
func (g *gen) removeChainNft(name string, hookChains []string) {
	strip := func(rs []drule) ([]drule, bool) {
		var out []drule
		ch := false
		for _, r := range rs {
			if r.Target == name {
				ch = true
				continue
			}
			out = append(out, r)
		}
		return out, ch
	}
	var upd []dchain
	for _, n := range g.sc.names {
		if c, ok := g.d.chains[n]; ok && n != name {
			if rs, ch := strip(c.Rules); ch {
				upd = append(upd, dchain{Name: n, Rules: rs})
			}
		}
	}
	if len(upd) > 0 {
		g.emit(op{Kind: "update-chains", Chains: upd})
	}
	for _, kc := range hookChains {
		if h, ok := g.d.hooks[kc]; ok {
			if rs, ch := strip(h.Inserts); ch {
				g.emit(op{Kind: "insert-rules", Chain: kc, Rules: rs})
			}
			if rs, ch := strip(h.Appends); ch {
				g.emit(op{Kind: "append-rules", Chain: kc, Rules: rs})
			}
		}
	}
	g.emit(op{Kind: "remove-chains", Names: []string{name}})
}

// nftPrerun runs the real table on an empty fake with the initial desired state.
func nftPrerun(sc *nftScenario, ops []op) (out map[string][]string) {
	defer func() {
		if recover() != nil {
			out = nil
		}
	}()
	fam := knftables.IPv4Family
	if sc.ipv == 6 {
		fam = knftables.IPv6Family
	}
	r := &nftRunner{sc: sc, d: newDesired(), now: time.Unix(1_700_000_000, 0), fam: fam, savedEpoch: -1, readEpoch: -2, cnt: map[string]int64{}, seenKeys: map[string]bool{}}
	r.dp = &nftDP{fake: knftables.NewFake(fam, "calico"), r: r, seq: map[string]int{}}
	r.dead = true // no oracles during the pre-run
	r.newFelix()
	for i := range ops {
		r.api(&ops[i])
	}
	r.tbl.Apply()
	return r.snapshot()
}

func runNft(c *harness.Case) {
	sc := genNftScenario(c.R, c.Thorough())
	seenKeys := map[string]bool{}
	cnt := map[string]int64{}
	defer func() {
		for n, v := range cnt {
			if v != 0 {
				c.Count(n, v)
			}
		}
	}()
	cnt["nft_cases"]++
	base := runNftScenario(c, sc, &faultPlan{Kind: "none"}, seenKeys, cnt)
	cnt["runs_baseline"]++
	if c.Failed() {
		return
	}
	var plans []*faultPlan
	for _, cmd := range []string{"listall", "listrules"} {
		for s := 1; s <= base.counts[cmd]; s++ {
			plans = append(plans, &faultPlan{Kind: "single", Cmd: cmd, Seq: s, Mode: "fail"})
		}
	}
	for s := 1; s <= base.counts["run"]; s++ {
		plans = append(plans, &faultPlan{Kind: "single", Cmd: "run", Seq: s, Mode: "fail"})
		plans = append(plans, &faultPlan{Kind: "single", Cmd: "run", Seq: s, Mode: "applied-but-error"})
	}
	cnt["fault_points_enumerated"] += int64(len(plans))
	for j, nExtra := 0, c.Pick(4, 10); j < nExtra; j++ {
		seed := c.R.Int63()
		if j%2 == 0 {
			cmd := []string{"listall", "listrules", "run"}[c.R.Intn(3)]
			plans = append(plans, &faultPlan{Kind: "burst", Cmd: cmd, Seq: 1 + c.R.Intn(base.counts[cmd]+1), BurstLen: 2 + c.R.Intn(12), Seed: seed})
		} else {
			plans = append(plans, &faultPlan{Kind: "random", P: []float64{0.05, 0.15, 0.4}[c.R.Intn(3)], Seed: seed})
		}
	}
	hit := 0
	for _, p := range plans {
		p.rnd = rand.New(rand.NewSource(p.Seed))
		res := runNftScenario(c, sc, p, seenKeys, cnt)
		cnt["runs_faulted"]++
		if res.hits > 0 {
			hit++
			cnt["runs_fault_hit"]++
		}
		if c.Failed() {
			return
		}
	}
	if hit >= 5 && cnt["c_checks"] > 0 {
		c.NonTrivial("nft", sc.ipv, fmt.Sprintf("%+v", sc.start), fmt.Sprintf("%+v", sc.ops))
	}
	c.Distinct("nft_start_states", sc.ipv, fmt.Sprintf("%+v", sc.start))
	if c.Index < 8 {
		c.Sample(map[string]any{"kind": "nftables", "ipv": sc.ipv, "start_has_table": sc.hasTable, "start": sc.start, "n_ops": len(sc.ops),
			"fault_runs": len(plans), "baseline_cmds": base.counts})
	}
}

// C10 — workload traffic dispatch is exact and fails closed.
//
// Real code driven: rules.NewRenderer(cfg, nft) and, for one generated set of interface names
// per case, WorkloadDispatchChains + DispatchMappings (nftables verdict maps, installed through
// the real nftables.NewTableLayer namespacing) and HostDispatchChains (to+from, with and without
// apply-on-forward), FromHostDispatchChains, ToHostDispatchChains.  The chains are rendered to
// text by the real renderers and walked by internal/nfsim with probe interface names.
//
// Oracle (from the statement, no model of the prefix tree):
//
//	workload dispatch, probe == a known name    the walk reaches that name's own cali-fw-/tw-
//	                                            chain and no other endpoint chain, no drop
//	workload dispatch, any other probe name     DROP (REJECT when configured), no endpoint chain
//	host dispatch, probe == a known host iface  reaches that interface's own fh-/th-/fhfw-/thfw-
//	                                            chain and no other
//	host dispatch, any other probe              reaches the wildcard host endpoint's chain iff a
//	                                            default (wildcard) interface is configured;
//	                                            otherwise returns to the caller, no endpoint chain
//
// Felix flattens its endpoint map into a name list in Go map-iteration order (any order, with
// duplicates anywhere).  For about half of the iptables cases the check draws that order from the
// case PRNG and calls the name-list level of the renderer through the verif hook
// rules.VerifInterfaceNameDispatchChains (end rules taken from the real WorkloadDispatchChains);
// 30% of the cases have the shape "one short name reported by 2-3 endpoints that is a proper
// prefix of every other name".  The public map API is used for the other cases and for nftables.
//
// Probes: every name, proper prefixes of names, every name +- one character (extended, cut,
// last character changed), random names with the workload prefix, unrelated names.
//
// Deliberately not checked:
//   - host "to" dispatch with a wildcard endpoint and WITHOUT apply-on-forward for probe names
//     that carry a workload interface prefix: Felix deliberately skips the wildcard host
//     endpoint's egress policy for traffic to local workloads, which is more specific than the
//     statement;
//   - interface names outside [A-Za-z0-9_.-]{1,15} (not accepted for host endpoints, never
//     produced for workloads), in particular names containing the wildcard characters + or *;
//   - the endpoint-mark (IPVS) dispatch chains;
//   - chain-name hashing of over-long names (C37's subject): names are <= 15 characters, which
//     always fit.
package main

import (
	"errors"
	"fmt"
	"io"
	"os"
	"sort"
	"strings"

	"github.com/sirupsen/logrus"

	"github.com/projectcalico/calico/felix/generictables"
	"github.com/projectcalico/calico/felix/ipsets"
	"github.com/projectcalico/calico/felix/iptables"
	"github.com/projectcalico/calico/felix/nftables"
	"github.com/projectcalico/calico/felix/proto"
	"github.com/projectcalico/calico/felix/rules"
	"github.com/projectcalico/calico/felix/types"

	"verif/internal/harness"
	"verif/internal/nfsim"
	"verif/internal/refpolicy"
)

const okCounter = "cases_without_harness_error"

func harnessError(c *harness.Case, err error) {
	c.Count(okCounter, -1)
	c.Count("harness_errors", 1)
	fmt.Fprintf(os.Stderr, "HARNESS-ERROR case %d: %v\n", c.Index, err)
	c.Inconclusive("harness-error: nfsim could not parse a rendered rule")
}

const nameChars = "abcdefghijklmnopqrstuvwxyz0123456789ABCDEFXYZ_.-"

func randSuffix(c *harness.Case, n int, alphabet string) string {
	b := make([]byte, n)
	for i := range b {
		b[i] = alphabet[c.R.Intn(len(alphabet))]
	}
	return string(b)
}

// genNames: names with the given prefix, total length <= 15, with shared prefixes, names that
// are prefixes of other names, one-character suffixes and (returned separately) duplicates.
func genNames(c *harness.Case, prefix string, n int) []string {
	max := 15 - len(prefix)
	seen := map[string]bool{}
	var out []string
	add := func(s string) {
		if len(s) > 15 || len(s) <= len(prefix) && prefix != "" || s == "" {
			return
		}
		if !seen[s] {
			seen[s] = true
			out = append(out, s)
		}
	}
	// a small alphabet makes shared prefixes likely
	alpha := nameChars
	switch c.R.Intn(3) {
	case 0:
		alpha = "ab"
	case 1:
		alpha = "0123456789abcdef"
	}
	for tries := 0; len(out) < n && tries < 20*n+50; tries++ {
		switch k := c.R.Intn(10); {
		case k < 4 || len(out) == 0:
			add(prefix + randSuffix(c, 1+c.R.Intn(max), alpha))
		case k < 6: // extend an existing name by one or more characters
			add(out[c.R.Intn(len(out))] + randSuffix(c, 1+c.R.Intn(2), alpha))
		case k < 7: // a proper prefix of an existing name
			o := out[c.R.Intn(len(out))]
			if len(o) > len(prefix)+1 {
				add(o[:len(prefix)+1+c.R.Intn(len(o)-len(prefix)-1)])
			}
		case k < 8: // one-character suffix
			add(prefix + randSuffix(c, 1, alpha))
		case k < 9: // same stem, different last character
			o := out[c.R.Intn(len(out))]
			add(o[:len(o)-1] + randSuffix(c, 1, alpha))
		default: // CNI-style: 11 characters
			if max >= 11 {
				add(prefix + randSuffix(c, 11, "0123456789abcdef"))
			}
		}
	}
	return out
}

func probesFor(c *harness.Case, names []string, prefixes []string, limit int) []string {
	seen := map[string]bool{}
	var out []string
	add := func(s string) {
		if s == "" || len(s) > 15 || seen[s] {
			return
		}
		seen[s] = true
		out = append(out, s)
	}
	perm := c.R.Perm(len(names))
	for _, i := range perm {
		add(names[i])
	}
	for _, i := range perm {
		n := names[i]
		add(n + randSuffix(c, 1, nameChars))
		add(n + n[len(n)-1:])
		add(n[:len(n)-1])
		add(n[:len(n)-1] + randSuffix(c, 1, nameChars))
		if len(out) > limit {
			break
		}
		for j := 1; j < len(n); j++ {
			if c.R.Intn(3) == 0 {
				add(n[:j])
			}
		}
	}
	for _, p := range prefixes {
		add(p)
		for i := 0; i < 6; i++ {
			add(p + randSuffix(c, 1+c.R.Intn(15-len(p)), nameChars))
		}
	}
	for _, s := range []string{"eth0", "lo", "tunl0", "vxlan.calico", "c", "ca", "cal"} {
		add(s)
	}
	if len(out) > limit {
		// keep all exact names first (they are at the front), then a sample of the rest
		out = out[:limit]
	}
	return out
}

func hasAnyPrefix(s string, ps []string) bool {
	for _, p := range ps {
		if strings.HasPrefix(s, p) {
			return true
		}
	}
	return false
}

func run(c *harness.Case) {
	c.Count(okCounter, 1)
	ipv := uint8(4)
	if c.R.Intn(4) == 0 {
		ipv = 6
	}
	wlPrefixes := []string{"cali"}
	switch c.R.Intn(4) {
	case 0:
		wlPrefixes = []string{"cali", "tap"}
	case 1:
		wlPrefixes = []string{"c"}
	}
	// how many names: mostly small, sometimes up to 200
	var n int
	switch k := c.R.Intn(20); {
	case k < 3:
		n = 1
	case k < 12:
		n = 2 + c.R.Intn(12)
	case k < 18:
		n = 10 + c.R.Intn(40)
	default:
		n = 100 + c.R.Intn(101)
	}
	if c.Thorough() && c.R.Intn(10) == 0 {
		n = 150 + c.R.Intn(51)
	}
	var wlNames []string
	for _, p := range wlPrefixes {
		wlNames = append(wlNames, genNames(c, p, (n+len(wlPrefixes)-1)/len(wlPrefixes))...)
	}
	if c.R.Intn(25) == 0 {
		wlNames = nil // no workloads at all: everything must be dropped
	}
	// A dedicated share of cases: one short name that is a proper prefix of ALL the other names
	// and is reported by two or three endpoints (duplicates), the others extending it.
	dupShape := c.R.Intn(10) < 3
	stem := ""
	if dupShape {
		stem = wlPrefixes[0] + randSuffix(c, 1+c.R.Intn(2), "0123456789ab")
		seen := map[string]bool{stem: true}
		wlNames = []string{stem}
		for i, k := 0, 2+c.R.Intn(7); i < k; i++ {
			nm := stem + randSuffix(c, 1+c.R.Intn(15-len(stem)), []string{"ab", "0123456789abcdef", nameChars}[c.R.Intn(3)])
			if !seen[nm] {
				seen[nm] = true
				wlNames = append(wlNames, nm)
			}
		}
		c.Count("dup_prefix_shape_cases", 1)
	}
	hostNames := genNames(c, []string{"eth", "en", "bond0.", ""}[c.R.Intn(4)], 1+c.R.Intn(8))
	// make sure no host name looks like a workload interface
	var hn []string
	for _, h := range hostNames {
		if !hasAnyPrefix(h, wlPrefixes) {
			hn = append(hn, h)
		}
	}
	hostNames = hn
	if c.R.Intn(6) == 0 {
		hostNames = nil
	}
	defaultIface := ""
	if c.R.Intn(2) == 0 {
		defaultIface = "any-interface-at-all"
	}
	reject := c.R.Intn(4) == 0

	cfg := rules.Config{
		IPSetConfigV4:         ipsets.NewIPVersionConfig(ipsets.IPFamilyV4, "cali", nil, nil),
		IPSetConfigV6:         ipsets.NewIPVersionConfig(ipsets.IPFamilyV6, "cali", nil, nil),
		WorkloadIfacePrefixes: wlPrefixes,
		MarkAccept:            0x8, MarkPass: 0x10, MarkDrop: 0x80, MarkScratch0: 0x20, MarkScratch1: 0x40,
		MarkEndpoint: 0xff00, MarkNonCaliEndpoint: 0x0100,
	}
	if reject {
		cfg.FilterDenyAction = "REJECT"
	}

	// the endpoints map; a duplicate interface name (two endpoints, one interface) now and then
	eps := map[types.WorkloadEndpointID]*proto.WorkloadEndpoint{}
	var orderedNames []string
	for i, name := range wlNames {
		eps[types.WorkloadEndpointID{OrchestratorId: "k8s", WorkloadId: fmt.Sprintf("ns/pod-%d", i), EndpointId: "eth0"}] = &proto.WorkloadEndpoint{Name: name}
		dups := 0
		if c.R.Intn(15) == 0 {
			dups = 1
		}
		if dupShape && name == stem {
			dups = 1 + c.R.Intn(2)
		}
		for d := 0; d < dups; d++ {
			eps[types.WorkloadEndpointID{OrchestratorId: "k8s", WorkloadId: fmt.Sprintf("ns/dup-%d-%d", i, d), EndpointId: "eth0"}] = &proto.WorkloadEndpoint{Name: name}
			orderedNames = append(orderedNames, name)
			c.Count("duplicate_names", 1)
		}
		orderedNames = append(orderedNames, name)
	}
	// Felix flattens the endpoint map into a name list in Go map-iteration order, i.e. in ANY
	// order; the check draws that order from the case's PRNG (replayable) and hands the list to
	// the name-list level of the renderer through the verif hook in about half of the iptables
	// cases (always for the duplicate-prefix shape); the public map API covers the rest.
	c.R.Shuffle(len(orderedNames), func(i, j int) { orderedNames[i], orderedNames[j] = orderedNames[j], orderedNames[i] })
	useHook := dupShape || c.R.Intn(2) == 0
	heps := map[string]types.HostEndpointID{}
	for i, name := range hostNames {
		heps[name] = types.HostEndpointID{EndpointId: fmt.Sprintf("hep-%d", i)}
	}
	known := map[string]bool{}
	for _, n := range wlNames {
		known[n] = true
	}
	knownHost := map[string]bool{}
	for _, n := range hostNames {
		knownHost[n] = true
	}
	wlProbes := probesFor(c, wlNames, wlPrefixes, c.Pick(150, 600))
	hostVariant := c.R.Intn(4)
	hostProbes := probesFor(c, hostNames, wlPrefixes, 80)
	sort.Strings(wlNames)

	nontrivial := false
	for _, flavor := range []nfsim.Flavor{nfsim.Iptables, nfsim.NFT} {
		fl := flavor.String()
		nft := flavor == nfsim.NFT
		renderer := rules.NewRenderer(cfg, nft)
		maxLen := iptables.MaxChainNameLength
		layerPfx := ""
		if nft {
			maxLen = nftables.MaxChainNameLength
			layerPfx = "filter-"
		}
		epChain := func(pfx, iface string) string { return layerPfx + rules.EndpointChainName(pfx, iface, maxLen) }

		type probeSet struct {
			what     string
			rs       *nfsim.Ruleset
			start    string
			in       bool   // probe is the input (true) or output (false) interface
			pfx      string // endpoint chain prefix for known names
			known    map[string]bool
			probes   []string
			workload bool
			wildcard string          // wildcard endpoint chain ("" = none)
			skipWl   bool            // do not judge workload-prefixed probes (see header)
			epChains map[string]bool // the endpoint chains that exist in rs
		}
		var sets []probeSet

		newRS := func() (*nfsim.Ruleset, nfsim.TableAndMaps) {
			rs := nfsim.NewRuleset(flavor, ipv)
			layer := ""
			if nft {
				layer = "filter"
			}
			return rs, rs.Table(layer)
		}
		// ---- workload dispatch
		{
			rs, tbl := newRS()
			var chains []*generictables.Chain
			if useHook && !nft {
				// the end rules are taken from the real renderer (an empty endpoint map renders
				// root chains that consist of the end rules only)
				empty := renderer.WorkloadDispatchChains(map[types.WorkloadEndpointID]*proto.WorkloadEndpoint{})
				end := empty[0].Rules
				chains = renderer.(*rules.DefaultRuleRenderer).VerifInterfaceNameDispatchChains(append([]string(nil), orderedNames...),
					rules.WorkloadFromEndpointPfx, rules.WorkloadToEndpointPfx, rules.ChainFromWorkloadDispatch, rules.ChainToWorkloadDispatch, end, end)
				c.Count("name_list_renders_iptables", 1)
			} else {
				chains = renderer.WorkloadDispatchChains(eps)
				c.Count("map_api_renders_"+fl, 1)
			}
			nr := 0
			for _, ch := range chains {
				nr += len(ch.Rules)
			}
			c.Count("rules_rendered_"+fl, int64(nr))
			tbl.UpdateChains(chains)
			if nft {
				from, to := renderer.DispatchMappings(eps)
				tbl.AddOrReplaceMap(nftables.MapMetadata{Name: rules.NftablesFromWorkloadDispatchMap, Type: nftables.MapTypeInterfaceMatch}, from)
				tbl.AddOrReplaceMap(nftables.MapMetadata{Name: rules.NftablesToWorkloadDispatchMap, Type: nftables.MapTypeInterfaceMatch}, to)
				c.Count("vmap_elements_nft", int64(len(from)+len(to)))
			}
			epc := map[string]bool{}
			for _, name := range wlNames {
				for _, pfx := range []string{rules.WorkloadFromEndpointPfx, rules.WorkloadToEndpointPfx} {
					tbl.UpdateChain(&generictables.Chain{Name: rules.EndpointChainName(pfx, name, maxLen)})
					epc[epChain(pfx, name)] = true
				}
			}
			sets = append(sets,
				probeSet{epChains: epc, what: "workload from-dispatch", rs: rs, start: layerPfx + rules.ChainFromWorkloadDispatch, in: true, pfx: rules.WorkloadFromEndpointPfx, known: known, probes: wlProbes, workload: true},
				probeSet{epChains: epc, what: "workload to-dispatch", rs: rs, start: layerPfx + rules.ChainToWorkloadDispatch, in: false, pfx: rules.WorkloadToEndpointPfx, known: known, probes: wlProbes, workload: true})
		}
		// ---- host dispatch, four flavours
		{
			rs, tbl := newRS()
			var chains []*generictables.Chain
			applyOnForward := false
			switch hostVariant {
			case 0:
				chains = renderer.HostDispatchChains(heps, defaultIface, false)
			case 1:
				chains = renderer.HostDispatchChains(heps, defaultIface, true)
				applyOnForward = true
			case 2:
				chains = renderer.FromHostDispatchChains(heps, defaultIface)
			default:
				chains = renderer.ToHostDispatchChains(heps, defaultIface)
			}
			nr := 0
			for _, ch := range chains {
				nr += len(ch.Rules)
			}
			c.Count("rules_rendered_"+fl, int64(nr))
			c.Count("host_rules_rendered_"+fl, int64(nr))
			tbl.UpdateChains(chains)
			all := append([]string(nil), hostNames...)
			if defaultIface != "" {
				all = append(all, defaultIface)
			}
			epc := map[string]bool{}
			for _, name := range all {
				for _, pfx := range []string{rules.HostFromEndpointPfx, rules.HostToEndpointPfx, rules.HostFromEndpointForwardPfx, rules.HostToEndpointForwardPfx} {
					tbl.UpdateChain(&generictables.Chain{Name: rules.EndpointChainName(pfx, name, maxLen)})
					epc[epChain(pfx, name)] = true
				}
			}
			wild := func(pfx string) string {
				if defaultIface == "" {
					return ""
				}
				return epChain(pfx, defaultIface)
			}
			from := probeSet{epChains: epc, what: "host from-dispatch", rs: rs, start: layerPfx + rules.ChainDispatchFromHostEndpoint, in: true, pfx: rules.HostFromEndpointPfx, known: knownHost, probes: hostProbes, wildcard: wild(rules.HostFromEndpointPfx)}
			to := probeSet{epChains: epc, what: "host to-dispatch", rs: rs, start: layerPfx + rules.ChainDispatchToHostEndpoint, in: false, pfx: rules.HostToEndpointPfx, known: knownHost, probes: hostProbes, wildcard: wild(rules.HostToEndpointPfx), skipWl: defaultIface != "" && !applyOnForward}
			switch hostVariant {
			case 0:
				sets = append(sets, from, to)
			case 1:
				sets = append(sets, from, to,
					probeSet{epChains: epc, what: "host from-dispatch (forward)", rs: rs, start: layerPfx + rules.ChainDispatchFromHostEndPointForward, in: true, pfx: rules.HostFromEndpointForwardPfx, known: knownHost, probes: hostProbes, wildcard: wild(rules.HostFromEndpointForwardPfx)},
					probeSet{epChains: epc, what: "host to-dispatch (forward)", rs: rs, start: layerPfx + rules.ChainDispatchToHostEndpointForward, in: false, pfx: rules.HostToEndpointForwardPfx, known: knownHost, probes: hostProbes, wildcard: wild(rules.HostToEndpointForwardPfx)})
			case 2:
				sets = append(sets, from)
			default:
				sets = append(sets, to)
			}
		}

		detail := func(ps *probeSet, extra map[string]any) map[string]any {
			d := map[string]any{"renderer": fl, "what": ps.what, "workload_prefixes": wlPrefixes, "workload_names": wlNames, "names_in_input_order": orderedNames, "name_list_api": useHook, "host_names": hostNames,
				"default_iface": defaultIface, "host_variant": hostVariant, "rendered": ps.rs.Dump()}
			for k, v := range extra {
				d[k] = v
			}
			return d
		}
		for i := range sets {
			ps := &sets[i]
			if err := ps.rs.Err(); err != nil {
				if nfsim.IsRejected(err) {
					class := "unknown"
					var ne *nfsim.Error
					if errors.As(err, &ne) && ne.Class != "" {
						class = ne.Class
					}
					c.Violationf("rejected:"+class+":"+fl, detail(ps, map[string]any{"error": err.Error()}), "%s %s: the rendered chains would be refused at load time: %v", fl, ps.what, err)
					return
				}
				harnessError(c, err)
				return
			}
			for _, probe := range ps.probes {
				if ps.workload && !hasAnyPrefix(probe, wlPrefixes) {
					continue // only workload-prefixed names can reach the workload dispatch chains
				}
				if ps.skipWl && hasAnyPrefix(probe, wlPrefixes) {
					continue
				}
				pkt := &nfsim.Packet{Packet: refpolicy.Packet{IPVersion: ipv, Proto: 6}, InIface: "eth9", OutIface: "eth9", CTState: nfsim.CTNew}
				if ps.in {
					pkt.InIface = probe
				} else {
					pkt.OutIface = probe
				}
				res, err := ps.rs.Run(ps.start, pkt)
				if err != nil {
					if nfsim.IsUnparsed(err) {
						harnessError(c, err)
						return
					}
					c.Violationf("walk-error:"+fl, detail(ps, map[string]any{"probe": probe, "error": err.Error()}), "%s %s probe %q: %v", fl, ps.what, probe, err)
					return
				}
				// endpoint chains entered (everything except dispatch chains)
				var entered []string
				for _, v := range res.ChainsVisited() {
					if ps.epChains[v] {
						entered = append(entered, v)
					}
				}
				c.Count("probes_"+fl, 1)
				var want []string
				wantDrop := false
				switch {
				case ps.known[probe]:
					want = []string{epChain(ps.pfx, probe)}
					c.Count("probes_known_"+fl, 1)
					nontrivial = true
				case ps.workload:
					wantDrop = true
					c.Count("probes_unknown_workload_"+fl, 1)
				case ps.wildcard != "":
					want = []string{ps.wildcard}
					c.Count("probes_to_wildcard_"+fl, 1)
				default:
					c.Count("probes_host_fallthrough_"+fl, 1)
				}
				bad := ""
				dropped := res.Verdict == nfsim.Drop || res.Verdict == nfsim.Reject
				switch {
				case wantDrop && !dropped:
					bad = "unknown-workload-interface-not-dropped"
				case wantDrop && len(entered) > 0:
					bad = "unknown-workload-interface-reached-endpoint-chain"
				case wantDrop && reject != (res.Verdict == nfsim.Reject):
					bad = "drop-action-not-as-configured"
				case !wantDrop && dropped:
					bad = "known-or-host-interface-dropped"
				case !wantDrop && res.Verdict != nfsim.FellThrough:
					bad = "unexpected-terminal-verdict"
				case !wantDrop && strings.Join(entered, ",") != strings.Join(want, ","):
					bad = "wrong-endpoint-chain"
				}
				if bad != "" {
					c.Violationf(bad+":"+fl, detail(ps, map[string]any{"probe": probe, "probe_is_known": ps.known[probe], "expected_chains": want, "expected_drop": wantDrop,
						"observed": map[string]any{"verdict": res.Verdict.String(), "chains_entered": entered, "trace": res.TraceString()}}),
						"%s %s: probe interface %q (known=%v): expected chains %v drop=%v, observed verdict=%s chains=%v",
						fl, ps.what, probe, ps.known[probe], want, wantDrop, res.Verdict, entered)
					return
				}
			}
		}
	}
	if nontrivial {
		c.NonTrivial(strings.Join(wlNames, ","), strings.Join(hostNames, ","), defaultIface)
	}
	c.Distinct("name_set_sizes", len(wlNames), len(hostNames), defaultIface != "")
	if c.Index < 5 {
		s := wlNames
		if len(s) > 12 {
			s = s[:12]
		}
		c.Sample(map[string]any{"workload_names_first12": s, "n_workload_names": len(wlNames), "host_names": hostNames, "default_iface": defaultIface})
	}
}

func tierFromArgs() string {
	for i, a := range os.Args {
		for _, p := range []string{"-tier=", "--tier="} {
			if strings.HasPrefix(a, p) {
				return a[len(p):]
			}
		}
		if (a == "-tier" || a == "--tier") && i+1 < len(os.Args) {
			return os.Args[i+1]
		}
	}
	return "quick"
}

func cases(tier string) int {
	if tier == "thorough" {
		return 100000
	}
	return 2000
}

func main() {
	logrus.SetOutput(io.Discard)
	logrus.SetLevel(logrus.PanicLevel)
	harness.Main(harness.Check{
		ID:    "C10",
		Level: "exploration",
		Rule: "one set of 1-200 workload interface names per case (prefixes cali / cali+tap / c; small alphabets so that names share prefixes, names that are prefixes of others, one-character suffixes, duplicates, lengths up to 15; sometimes none) plus 0-8 host interface names and an optional wildcard host endpoint; " +
			"30% of the cases: one short name reported by 2-3 endpoints that is a proper prefix of all other names, names handed over in PRNG order through the name-list level of the renderer; workload dispatch (chains; for nftables the verdict maps through the real table layer) and one of the four host dispatch variants, both renderers; " +
			"probes = every name, proper prefixes, every name +-1 character, random workload-prefixed names, unrelated names; " +
			"non-trivial = at least one probe equal to a known name; distinct by the name sets",
		Assumptions: []string{
			"internal/nfsim walks the rendered text (iptables -i/-o with + wildcard, nft iifname/oifname with * wildcard and `vmap @map` lookups: no element = rule does not match); trusted interpreter",
			"endpoint chains are empty stand-ins (their content is C09's subject); which chain is entered is read from the walk",
			"the order in which Felix's endpoint map is flattened into a name list (Go map iteration) is drawn from the case PRNG and applied through the verif hook rules.VerifInterfaceNameDispatchChains = interfaceNameDispatchChains; the end rules come from the real WorkloadDispatchChains",
			"chain names come from the real rules.EndpointChainName; names are <= 15 characters so they are never hashed",
		},
		Cases: cases,
		Run:   run,
		Floors: map[string]int64{
			okCounter:                          int64(cases(tierFromArgs())),
			"rules_rendered_iptables":          20000,
			"rules_rendered_nft":               2000,
			"vmap_elements_nft":                5000,
			"probes_iptables":                  30000,
			"probes_nft":                       30000,
			"probes_known_iptables":            5000,
			"probes_known_nft":                 5000,
			"probes_unknown_workload_iptables": 10000,
			"probes_unknown_workload_nft":      10000,
			"probes_to_wildcard_iptables":      1000,
			"probes_host_fallthrough_iptables": 1000,
			"dup_prefix_shape_cases":           100,
			"name_list_renders_iptables":       200,
			"map_api_renders_iptables":         100,
		},
	})
}

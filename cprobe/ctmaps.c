/* /verif/cprobe/ctmaps.c -- user-space stand-in for the kernel side of the BPF helpers used by
 * felix/bpf-gpl/conntrack_cleanup.c, for check C14.
 *
 * The check compiles the REAL conntrack_cleanup.c of the tree under test natively (preprocessed for
 * -target bpf with CALI_COMPILE_FLAGS=CALI_CT_CLEANUP, the few BPF inline-asm statements -- none of
 * which is on the cleaner's path -- replaced by __builtin_trap(), then built for the host with
 * -fsanitize=address,undefined) and links it with this file.  The resulting program is a server on
 * stdin/stdout: each request carries the byte images of the conntrack map and of the cleanup-queue
 * map exactly as the Go side (the real conntrack.Scanner) wrote them; the program runs
 * conntrack_cleanup() once and answers with the images of both maps afterwards.
 *
 * Semantics provided:
 *   - two hash maps, identified by the address of the map objects that conntrack_cleanup.c defines
 *     (names passed with -DCT_MAP_SYM=... -DCCQ_MAP_SYM=...); lookups on any other map miss;
 *   - every key and every value lives in its own exactly-sized heap block, so that any access beyond
 *     the size the Go side uses for that structure is an AddressSanitizer report;
 *   - deleted elements stay readable until the end of the request (the kernel frees hash-map elements
 *     after an RCU grace period, i.e. not while the program that deleted them still runs);
 *   - bpf_for_each_map_elem walks a snapshot of the live elements and tolerates the callback deleting
 *     the element it was called for (as the kernel does);
 *   - bpf_ktime_get_ns returns the time supplied with the request; spin locks are no-ops (single CPU).
 * Not provided: concurrency between the cleaner and packet processing inside one run (see C14's
 * "not checked").
 */
#include <stdint.h>
#include <stdio.h>
#include <stdlib.h>
#include <string.h>
#include <unistd.h>
#include <errno.h>

#ifndef CT_MAP_SYM
#error "CT_MAP_SYM not defined"
#endif
#ifndef CCQ_MAP_SYM
#error "CCQ_MAP_SYM not defined"
#endif

extern char CT_MAP_SYM[];
extern char CCQ_MAP_SYM[];
extern int conntrack_cleanup(void *skb);

#define NBUCKET 4096

struct elem {
	unsigned char *k, *v;
	int live;
	struct elem *next;     /* bucket chain */
	struct elem *all_next; /* insertion order */
};

struct tab {
	size_t ks, vs;
	struct elem *bucket[NBUCKET];
	struct elem *all, *all_tail;
	size_t nlive;
};

static struct tab ct, ccq;
static uint64_t now_ns;
static unsigned char ctxbuf[64];
static size_t ctxlen;

static uint32_t hash(const unsigned char *k, size_t n)
{
	uint32_t h = 2166136261u;
	for (size_t i = 0; i < n; i++) {
		h ^= k[i];
		h *= 16777619u;
	}
	return h % NBUCKET;
}

static void tab_reset(struct tab *t, size_t ks, size_t vs)
{
	struct elem *e = t->all;
	while (e) {
		struct elem *n = e->all_next;
		free(e->k);
		free(e->v);
		free(e);
		e = n;
	}
	memset(t, 0, sizeof(*t));
	t->ks = ks;
	t->vs = vs;
}

static struct elem *tab_find(struct tab *t, const void *key)
{
	/* The key is read with the size the Go side uses; a caller's buffer that is shorter is an ASan report. */
	uint32_t h = hash(key, t->ks);
	for (struct elem *e = t->bucket[h]; e; e = e->next) {
		if (e->live && !memcmp(e->k, key, t->ks)) {
			return e;
		}
	}
	return NULL;
}

static void tab_insert(struct tab *t, const unsigned char *k, const unsigned char *v)
{
	struct elem *e = calloc(1, sizeof(*e));
	e->k = malloc(t->ks);
	e->v = malloc(t->vs);
	if (!e->k || !e->v) {
		fprintf(stderr, "ctmaps: out of memory\n");
		exit(3);
	}
	memcpy(e->k, k, t->ks);
	memcpy(e->v, v, t->vs);
	e->live = 1;
	uint32_t h = hash(k, t->ks);
	e->next = t->bucket[h];
	t->bucket[h] = e;
	if (t->all_tail) {
		t->all_tail->all_next = e;
	} else {
		t->all = e;
	}
	t->all_tail = e;
	t->nlive++;
}

static struct tab *which(void *map)
{
	if (map == (void *)CT_MAP_SYM) {
		return &ct;
	}
	if (map == (void *)CCQ_MAP_SYM) {
		return &ccq;
	}
	return NULL;
}

/* ---- helpers called by the BPF program ---------------------------------------------------- */

void *bpf_map_lookup_elem(void *map, const void *key)
{
	struct tab *t = which(map);
	if (!t) {
		return NULL;
	}
	struct elem *e = tab_find(t, key);
	return e ? e->v : NULL;
}

long bpf_map_delete_elem(void *map, const void *key)
{
	struct tab *t = which(map);
	if (!t) {
		return -ENOENT;
	}
	struct elem *e = tab_find(t, key);
	if (!e) {
		return -ENOENT;
	}
	e->live = 0; /* memory stays valid until the end of the request */
	t->nlive--;
	return 0;
}

long bpf_map_update_elem(void *map, const void *key, const void *value, uint64_t flags)
{
	struct tab *t = which(map);
	if (!t) {
		return -EINVAL;
	}
	struct elem *e = tab_find(t, key);
	if (e) {
		memcpy(e->v, value, t->vs);
		return 0;
	}
	tab_insert(t, key, value);
	return 0;
}

long bpf_for_each_map_elem(void *map, void *callback_fn, void *callback_ctx, uint64_t flags)
{
	struct tab *t = which(map);
	if (!t) {
		return -EINVAL;
	}
	long (*cb)(void *, void *, void *, void *) = callback_fn;
	size_t n = 0, cap = t->nlive + 1;
	struct elem **snap = calloc(cap, sizeof(*snap));
	for (struct elem *e = t->all; e && n < cap; e = e->all_next) {
		if (e->live) {
			snap[n++] = e;
		}
	}
	long calls = 0;
	for (size_t i = 0; i < n; i++) {
		if (!snap[i]->live) {
			continue;
		}
		calls++;
		if (cb(map, snap[i]->k, snap[i]->v, callback_ctx)) {
			break;
		}
	}
	free(snap);
	return calls;
}

uint64_t bpf_ktime_get_ns(void)
{
	return now_ns;
}

long bpf_skb_load_bytes(const void *skb, uint32_t offset, void *to, uint32_t len)
{
	if (skb != ctxbuf || (size_t)offset + len > ctxlen) {
		return -EFAULT;
	}
	memcpy(to, ctxbuf + offset, len);
	return 0;
}

long bpf_skb_store_bytes(void *skb, uint32_t offset, const void *from, uint32_t len, uint64_t flags)
{
	if (skb != ctxbuf || (size_t)offset + len > ctxlen) {
		return -EFAULT;
	}
	memcpy(ctxbuf + offset, from, len);
	return 0;
}

long bpf_spin_lock(void *lock) { return 0; }
long bpf_spin_unlock(void *lock) { return 0; }
long bpf_trace_printk(const char *fmt, uint32_t fmt_size, ...) { return 0; }
long bpf_trace_vprintk(const char *fmt, uint32_t fmt_size, const void *data, uint32_t data_len) { return 0; }

/* ---- request loop ---------------------------------------------------------------------------- */

static int read_full(void *buf, size_t n)
{
	unsigned char *p = buf;
	while (n) {
		ssize_t r = read(0, p, n);
		if (r == 0) {
			return -1;
		}
		if (r < 0) {
			if (errno == EINTR) {
				continue;
			}
			return -1;
		}
		p += r;
		n -= (size_t)r;
	}
	return 0;
}

static void write_full(const void *buf, size_t n)
{
	const unsigned char *p = buf;
	while (n) {
		ssize_t r = write(1, p, n);
		if (r < 0) {
			if (errno == EINTR) {
				continue;
			}
			exit(4);
		}
		p += r;
		n -= (size_t)r;
	}
}

#define MAGIC 0x31343143u

struct req {
	uint32_t magic, ks, vs, qvs, nct, nccq;
	uint64_t now;
	uint64_t ctx_now; /* value placed in ct_iter_ctx.now (0 = let the program ask for the time) */
};

struct resp {
	uint32_t magic, nct, nccq, rc;
	uint64_t ctx[3];
};

static void dump(struct tab *t)
{
	for (struct elem *e = t->all; e; e = e->all_next) {
		if (e->live) {
			write_full(e->k, t->ks);
			write_full(e->v, t->vs);
		}
	}
}

int main(void)
{
	for (;;) {
		struct req rq;
		if (read_full(&rq, sizeof(rq))) {
			return 0;
		}
		if (rq.magic != MAGIC || rq.ks == 0 || rq.ks > 256 || rq.vs == 0 || rq.vs > 1024 || rq.qvs == 0 || rq.qvs > 1024) {
			fprintf(stderr, "ctmaps: bad request header\n");
			return 2;
		}
		tab_reset(&ct, rq.ks, rq.vs);
		tab_reset(&ccq, rq.ks, rq.qvs);
		unsigned char kb[256], vb[1024];
		for (uint32_t i = 0; i < rq.nct; i++) {
			if (read_full(kb, rq.ks) || read_full(vb, rq.vs)) {
				return 2;
			}
			tab_insert(&ct, kb, vb);
		}
		for (uint32_t i = 0; i < rq.nccq; i++) {
			if (read_full(kb, rq.ks) || read_full(vb, rq.qvs)) {
				return 2;
			}
			tab_insert(&ccq, kb, vb);
		}
		now_ns = rq.now;
		memset(ctxbuf, 0, sizeof(ctxbuf));
		ctxlen = 24; /* sizeof(struct ct_iter_ctx) == unsafe.Sizeof(conntrack.CleanupContext) */
		memcpy(ctxbuf, &rq.ctx_now, 8);

		int rc = conntrack_cleanup(ctxbuf);

		struct resp rs;
		memset(&rs, 0, sizeof(rs));
		rs.magic = MAGIC;
		rs.nct = (uint32_t)ct.nlive;
		rs.nccq = (uint32_t)ccq.nlive;
		rs.rc = (uint32_t)rc;
		memcpy(rs.ctx, ctxbuf, 24);
		write_full(&rs, sizeof(rs));
		dump(&ct);
		dump(&ccq);
	}
}

/* /verif/cprobe/layout.c -- C side of check C13 (Go and kernel-program views of shared structures agree).
 *
 * Includes the REAL felix/bpf-gpl headers of the tree under test (-I$VERIF_REPO/felix/bpf-gpl) and
 * defines one read-only object per sizeof / offsetof / member size / bit-field position.  The check
 * compiles this file at check time with
 *     clang -target bpf -D__x86_64__ [-DIPVER6] -I/usr/include/x86_64-linux-gnu -I/verif/cstub \
 *           -I$VERIF_REPO/felix/bpf-gpl -O0 -c layout.c
 * and reads the objects' initialisers out of .rodata through the ELF symbol table.  Nothing here is
 * ever executed.  Symbol naming (parsed by /verif/checks/c13):
 *     vp_size__<struct>              sizeof the structure
 *     vp_off__<struct>__<field>      offsetof
 *     vp_fsz__<struct>__<field>      sizeof the member
 *     vp_bit__<struct>__<field>      an object of the structure type with only that bit-field set to 1
 *     vp_const__<name>               a named constant
 */
#include "bpf.h"
#include "types.h"
#include "jump.h"
#include "policy.h"
#include "conntrack_cleanup.h"

#define VP_SIZE(tag, type) const volatile __u32 vp_size__##tag = sizeof(type);
#define VP_FIELD(tag, ftag, type, member)                                        \
	const volatile __u32 vp_off__##tag##__##ftag = offsetof(type, member);    \
	const volatile __u32 vp_fsz__##tag##__##ftag = sizeof(((type *)0)->member);
#define VP_BIT(tag, ftag, type, member) const volatile type vp_bit__##tag##__##ftag = {.member = 1};
#define VP_CONST(name, val) const volatile __u64 vp_const__##name = (val);

/* The n-th 32-bit word of an address declared with DECLARE_IP_ADDR(): in IPv4 builds the member is a
 * union of the 4-byte address and a 16-byte pad structure. */
#ifdef IPVER6
#define IPW(n, w) n.w
#else
#define IPW(n, w) __pad##n.w
#endif

/* ---- struct cali_tc_state (types.h) <-> bpf/state.State, polprog stateOff*, events.ParsePolicyVerdict */
#define ST struct cali_tc_state
VP_SIZE(state, ST)
VP_CONST(STATE_SIZE, STATE_SIZE)
VP_CONST(MAX_RULE_IDS, MAX_RULE_IDS)
VP_FIELD(state, eventhdr, ST, eventhdr)
VP_FIELD(state, ip_src, ST, ip_src)
VP_FIELD(state, ip_src_w0, ST, IPW(ip_src, a))
VP_FIELD(state, ip_src_w1, ST, IPW(ip_src, b))
VP_FIELD(state, ip_src_w2, ST, IPW(ip_src, c))
VP_FIELD(state, ip_src_w3, ST, IPW(ip_src, d))
VP_FIELD(state, ip_dst, ST, ip_dst)
VP_FIELD(state, ip_dst_w0, ST, IPW(ip_dst, a))
VP_FIELD(state, ip_dst_w1, ST, IPW(ip_dst, b))
VP_FIELD(state, ip_dst_w2, ST, IPW(ip_dst, c))
VP_FIELD(state, ip_dst_w3, ST, IPW(ip_dst, d))
VP_FIELD(state, pre_nat_ip_dst, ST, pre_nat_ip_dst)
VP_FIELD(state, pre_nat_ip_dst_w0, ST, IPW(pre_nat_ip_dst, a))
VP_FIELD(state, pre_nat_ip_dst_w1, ST, IPW(pre_nat_ip_dst, b))
VP_FIELD(state, pre_nat_ip_dst_w2, ST, IPW(pre_nat_ip_dst, c))
VP_FIELD(state, pre_nat_ip_dst_w3, ST, IPW(pre_nat_ip_dst, d))
VP_FIELD(state, post_nat_ip_dst, ST, post_nat_ip_dst)
VP_FIELD(state, post_nat_ip_dst_w0, ST, IPW(post_nat_ip_dst, a))
VP_FIELD(state, post_nat_ip_dst_w1, ST, IPW(post_nat_ip_dst, b))
VP_FIELD(state, post_nat_ip_dst_w2, ST, IPW(post_nat_ip_dst, c))
VP_FIELD(state, post_nat_ip_dst_w3, ST, IPW(post_nat_ip_dst, d))
VP_FIELD(state, tun_ip, ST, tun_ip)
VP_FIELD(state, tun_ip_w0, ST, IPW(tun_ip, a))
VP_FIELD(state, tun_ip_w1, ST, IPW(tun_ip, b))
VP_FIELD(state, tun_ip_w2, ST, IPW(tun_ip, c))
VP_FIELD(state, tun_ip_w3, ST, IPW(tun_ip, d))
VP_FIELD(state, ihl, ST, ihl)
VP_FIELD(state, pol_rc, ST, pol_rc)
VP_FIELD(state, sport, ST, sport)
VP_FIELD(state, dport, ST, dport)
VP_FIELD(state, icmp_type, ST, icmp_type)
VP_FIELD(state, icmp_code, ST, icmp_code)
VP_FIELD(state, pre_nat_dport, ST, pre_nat_dport)
VP_FIELD(state, post_nat_dport, ST, post_nat_dport)
VP_FIELD(state, ip_proto, ST, ip_proto)
VP_FIELD(state, ip_size, ST, ip_size)
VP_FIELD(state, rules_hit, ST, rules_hit)
VP_FIELD(state, rule_ids, ST, rule_ids)
VP_FIELD(state, rule_ids_0, ST, rule_ids[0])
VP_FIELD(state, rule_ids_1, ST, rule_ids[1])
VP_FIELD(state, rule_ids_31, ST, rule_ids[MAX_RULE_IDS - 1])
VP_FIELD(state, flags, ST, flags)
VP_FIELD(state, ct_result, ST, ct_result)
VP_FIELD(state, ct_result_flags, ST, ct_result.flags)
VP_FIELD(state, ct_result_tun_ip, ST, ct_result.tun_ip)
VP_FIELD(state, ct_result_ifindex_fwd, ST, ct_result.ifindex_fwd)
VP_FIELD(state, ct_result_ifindex_created, ST, ct_result.ifindex_created)
VP_FIELD(state, nat_dest, ST, nat_dest)
VP_FIELD(state, prog_start_time, ST, prog_start_time)
VP_FIELD(state, ip_src_masq, ST, ip_src_masq)
VP_FIELD(state, nat_svc_id, ST, nat_svc_id)
VP_FIELD(state, fwd, ST, fwd)

/* ---- struct ip_set_key (policy.h) <-> bpf/ipsets entries, polprog ipsKey* */
#define IK struct ip_set_key
VP_SIZE(ip_set_key, IK)
VP_FIELD(ip_set_key, mask, IK, mask)
VP_FIELD(ip_set_key, set_id, IK, set_id)
VP_FIELD(ip_set_key, addr, IK, addr)
VP_FIELD(ip_set_key, port, IK, port)
VP_FIELD(ip_set_key, protocol, IK, protocol)
VP_FIELD(ip_set_key, pad, IK, pad)
VP_CONST(ip_set_value_size, sizeof(__u32))

/* ---- struct calico_ct_key / calico_ct_leg / calico_ct_value (conntrack_types.h) */
#define CK struct calico_ct_key
VP_SIZE(ct_key, CK)
VP_FIELD(ct_key, protocol, CK, protocol)
VP_FIELD(ct_key, addr_a, CK, addr_a)
VP_FIELD(ct_key, addr_b, CK, addr_b)
VP_FIELD(ct_key, port_a, CK, port_a)
VP_FIELD(ct_key, port_b, CK, port_b)

#define CL struct calico_ct_leg
VP_SIZE(ct_leg, CL)
VP_FIELD(ct_leg, bytes, CL, bytes)
VP_FIELD(ct_leg, packets, CL, packets)
VP_FIELD(ct_leg, seqno, CL, seqno)
VP_FIELD(ct_leg, ifindex, CL, ifindex)
VP_BIT(ct_leg, syn_seen, CL, syn_seen)
VP_BIT(ct_leg, ack_seen, CL, ack_seen)
VP_BIT(ct_leg, fin_seen, CL, fin_seen)
VP_BIT(ct_leg, rst_seen, CL, rst_seen)
VP_BIT(ct_leg, approved, CL, approved)
VP_BIT(ct_leg, opener, CL, opener)
VP_BIT(ct_leg, workload, CL, workload)

#define CV struct calico_ct_value
VP_SIZE(ct_value, CV)
VP_FIELD(ct_value, rst_seen, CV, rst_seen)
VP_FIELD(ct_value, last_seen, CV, last_seen)
VP_FIELD(ct_value, type, CV, type)
VP_FIELD(ct_value, flags, CV, flags)
VP_FIELD(ct_value, flags2, CV, flags2)
VP_FIELD(ct_value, flags3, CV, flags3)
VP_FIELD(ct_value, flags4, CV, flags4)
VP_FIELD(ct_value, a_to_b, CV, a_to_b)
VP_FIELD(ct_value, b_to_a, CV, b_to_a)
VP_FIELD(ct_value, tun_ip, CV, tun_ip)
VP_FIELD(ct_value, orig_ip, CV, orig_ip)
VP_FIELD(ct_value, orig_port, CV, orig_port)
VP_FIELD(ct_value, orig_sport, CV, orig_sport)
VP_FIELD(ct_value, orig_sip, CV, orig_sip)
VP_FIELD(ct_value, nat_rev_key, CV, nat_rev_key)
VP_FIELD(ct_value, nat_sport, CV, nat_sport)
VP_CONST(CALI_CT_TYPE_NORMAL, CALI_CT_TYPE_NORMAL)
VP_CONST(CALI_CT_TYPE_NAT_FWD, CALI_CT_TYPE_NAT_FWD)
VP_CONST(CALI_CT_TYPE_NAT_REV, CALI_CT_TYPE_NAT_REV)

/* ---- struct cali_ccq_value (conntrack_cleanup.h) <-> bpf/conntrack/cleanupv1 */
#define CQ struct cali_ccq_value
VP_SIZE(ccq_value, CQ)
VP_FIELD(ccq_value, rev_key, CQ, rev_key)
VP_FIELD(ccq_value, last_seen, CQ, last_seen)
VP_FIELD(ccq_value, rev_last_seen, CQ, rev_last_seen)

/* ---- NAT maps (nat_types.h) <-> bpf/nat */
#define NK struct calico_nat_key
VP_SIZE(nat_key, NK)
VP_FIELD(nat_key, prefixlen, NK, prefixlen)
VP_FIELD(nat_key, addr, NK, addr)
VP_FIELD(nat_key, port, NK, port)
VP_FIELD(nat_key, protocol, NK, protocol)
VP_FIELD(nat_key, saddr, NK, saddr)
VP_FIELD(nat_key, pad, NK, pad)
VP_CONST(NAT_PREFIX_LEN_WITH_SRC_MATCH_IN_BITS, NAT_PREFIX_LEN_WITH_SRC_MATCH_IN_BITS)

#define NN struct calico_nat
VP_SIZE(nat, NN)
VP_FIELD(nat, addr, NN, addr)
VP_FIELD(nat, port, NN, port)
VP_FIELD(nat, protocol, NN, protocol)

#define NV struct calico_nat_value
VP_SIZE(nat_value, NV)
VP_FIELD(nat_value, id, NV, id)
VP_FIELD(nat_value, count, NV, count)
VP_FIELD(nat_value, local, NV, local)
VP_FIELD(nat_value, affinity_timeo, NV, affinity_timeo)
VP_FIELD(nat_value, flags, NV, flags)

#define NS struct calico_nat_secondary_key
VP_SIZE(nat_secondary_key, NS)
VP_FIELD(nat_secondary_key, id, NS, id)
VP_FIELD(nat_secondary_key, ordinal, NS, ordinal)

#define ND struct calico_nat_dest
VP_SIZE(nat_dest, ND)
VP_FIELD(nat_dest, addr, ND, addr)
VP_FIELD(nat_dest, port, ND, port)

#define NAK struct calico_nat_affinity_key
VP_SIZE(nat_affinity_key, NAK)
VP_FIELD(nat_affinity_key, nat_key, NAK, nat_key)
VP_FIELD(nat_affinity_key, nat_key_addr, NAK, nat_key.addr)
VP_FIELD(nat_affinity_key, nat_key_port, NAK, nat_key.port)
VP_FIELD(nat_affinity_key, nat_key_protocol, NAK, nat_key.protocol)
VP_FIELD(nat_affinity_key, client_ip, NAK, client_ip)

#define NAV struct calico_nat_affinity_val
VP_SIZE(nat_affinity_val, NAV)
VP_FIELD(nat_affinity_val, nat_dest, NAV, nat_dest)
VP_FIELD(nat_affinity_val, nat_dest_addr, NAV, nat_dest.addr)
VP_FIELD(nat_affinity_val, nat_dest_port, NAV, nat_dest.port)
VP_FIELD(nat_affinity_val, ts, NAV, ts)

#define MK struct cali_maglev_key
VP_SIZE(maglev_key, MK)
VP_FIELD(maglev_key, sid, MK, sid)
VP_FIELD(maglev_key, ordinal, MK, ordinal)

/* ---- struct __sk_buff (linux/bpf.h) <-> polprog skbCb0/skbCb1 */
#define SKB struct __sk_buff
VP_FIELD(skb, cb0, SKB, cb[0])
VP_FIELD(skb, cb1, SKB, cb[1])

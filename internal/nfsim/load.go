package nfsim

import (
	"context"
	"fmt"
	"sort"
	"time"

	"github.com/projectcalico/calico/felix/environment"
	"github.com/projectcalico/calico/felix/generictables"
	"github.com/projectcalico/calico/felix/iptables"
	"github.com/projectcalico/calico/felix/nftables"
)

// Features used when rendering action fragments (NFLOG size flag etc.).
var Features = &environment.Features{NFLogSize: true, SNATFullyRandom: true, MASQFullyRandom: true}

// RenderRule renders one generictables.Rule to the text the dataplane would be given, using
// the REAL renderer of the ruleset's flavor: iptables.NewIptablesRenderer("").RenderAppend
// (i.e. comments + Match.Render() + Action.ToFragment()) or nftables.NewNFTRenderer("",
// ipVersion).Render(...).Rule.
func (rs *Ruleset) RenderRule(chain string, r *generictables.Rule) string {
	if rs.Flavor == NFT {
		return nftables.NewNFTRenderer("", rs.IPVersion).Render(chain, "", *r, Features).Rule
	}
	return iptables.NewIptablesRenderer("").RenderAppend(r, chain, "", Features)
}

// AddChain renders every rule of c with the real renderer and replaces the chain of that name.
// Errors are returned and remembered for Err().
func (rs *Ruleset) AddChain(c *generictables.Chain) error {
	ch := rs.chain(c.Name)
	ch.Rules = nil
	var first error
	for i := range c.Rules {
		if err := rs.AddRule(c.Name, rs.RenderRule(c.Name, &c.Rules[i])); err != nil && first == nil {
			first = err
		}
	}
	return first
}

// AddChains calls AddChain for each chain.
func (rs *Ruleset) AddChains(cs []*generictables.Chain) error {
	var first error
	for _, c := range cs {
		if c == nil {
			continue
		}
		if err := rs.AddChain(c); err != nil && first == nil {
			first = err
		}
	}
	return first
}

// Table returns an object that accepts chains the way Felix's generictables.Table does
// (UpdateChains, InsertOrAppendRules and AppendRules on built-in chains) and, for nftables,
// verdict maps (nftables.MapsDataplane.AddOrReplaceMap).  For the NFT flavor with a non-empty
// layer the returned table is nftables.NewTableLayer(layer, capture): chain names, jump/goto
// targets, map names and map members are namespaced by the REAL layering code exactly as in
// Felix ("filter-cali-INPUT", "@filter-cali-from-wl-dispatch").
func (rs *Ruleset) Table(layer string) TableAndMaps {
	c := &capture{rs: rs, name: layer}
	if rs.Flavor == NFT && layer != "" {
		return nftables.NewTableLayer(layer, c).(TableAndMaps)
	}
	return c
}

// TableAndMaps is generictables.Table plus the verdict-map half of nftables.MapsDataplane.
type TableAndMaps interface {
	generictables.Table
	AddOrReplaceMap(meta nftables.MapMetadata, members map[string][]string)
	RemoveMap(id string)
}

type capture struct {
	rs   *Ruleset
	name string
}

var _ generictables.Table = (*capture)(nil)
var _ nftables.MapsDataplane = (*capture)(nil)

func (c *capture) Name() string     { return c.name }
func (c *capture) IPVersion() uint8 { return c.rs.IPVersion }

func (c *capture) parseAll(chain string, rules []generictables.Rule) []*Rule {
	var out []*Rule
	for i := range rules {
		txt := c.rs.RenderRule(chain, &rules[i])
		r, err := c.rs.Parse(chain, txt)
		if err != nil {
			c.rs.recordErr(err)
			continue
		}
		out = append(out, r)
	}
	return out
}

// InsertOrAppendRules: Felix's rules at the top of a (built-in) chain.
func (c *capture) InsertOrAppendRules(chainName string, rules []generictables.Rule) {
	ch := c.rs.chain(chainName)
	ch.Rules = c.parseAll(chainName, rules)
}

// AppendRules: Felix's rules at the very end of a (built-in) chain.
func (c *capture) AppendRules(chainName string, rules []generictables.Rule) {
	ch := c.rs.chain(chainName)
	ch.appended = c.parseAll(chainName, rules)
}

func (c *capture) UpdateChain(chain *generictables.Chain) {
	ch := c.rs.chain(chain.Name)
	ch.Rules = c.parseAll(chain.Name, chain.Rules)
}

func (c *capture) UpdateChains(cs []*generictables.Chain) {
	for _, ch := range cs {
		if ch != nil {
			c.UpdateChain(ch)
		}
	}
}

func (c *capture) RemoveChains(cs []*generictables.Chain) {
	for _, ch := range cs {
		c.RemoveChainByName(ch.Name)
	}
}

func (c *capture) RemoveChainByName(name string) {
	if _, ok := c.rs.chains[name]; !ok {
		return
	}
	delete(c.rs.chains, name)
	for i, n := range c.rs.order {
		if n == name {
			c.rs.order = append(c.rs.order[:i], c.rs.order[i+1:]...)
			break
		}
	}
}

func (c *capture) InvalidateDataplaneCache(reason string) {}
func (c *capture) Apply() time.Duration                   { return 0 }
func (c *capture) InsertRulesNow(chainName string, rules []generictables.Rule) error {
	c.InsertOrAppendRules(chainName, rules)
	return nil
}
func (c *capture) CheckRulesPresent(chain string, rules []generictables.Rule) []generictables.Rule {
	return nil
}

func (c *capture) AddOrReplaceMap(meta nftables.MapMetadata, members map[string][]string) {
	m := map[string]string{}
	keys := make([]string, 0, len(members))
	for k := range members {
		keys = append(keys, k)
	}
	sort.Strings(keys)
	for _, k := range keys {
		v := members[k]
		if len(v) != 1 {
			c.rs.recordErr(&Error{Kind: Unparsed, Flavor: c.rs.Flavor, Chain: meta.Name, Text: fmt.Sprint(v), Msg: "verdict map member with more than one value"})
			continue
		}
		// canonicalise through the real member type, as nftables.Maps does
		mm := nftables.CanonicaliseMapMember(meta.Type, k, v)
		if mm == nil || len(mm.Key()) != 1 || len(mm.Value()) != 1 {
			c.rs.recordErr(&Error{Kind: Unparsed, Flavor: c.rs.Flavor, Chain: meta.Name, Text: fmt.Sprint(v), Msg: "verdict map member not understood"})
			continue
		}
		m[mm.Key()[0]] = mm.Value()[0]
	}
	_ = c.rs.AddVMap(nftables.LegalizeSetName(meta.Name), m)
}

func (c *capture) RemoveMap(id string) { delete(c.rs.vmaps, nftables.LegalizeSetName(id)) }

func (c *capture) MapUpdates() *nftables.MapUpdates                            { return nil }
func (c *capture) FinishMapUpdates(updates *nftables.MapUpdates)               {}
func (c *capture) LoadDataplaneState(ctx context.Context, maps []string) error { return nil }
func (c *capture) InvalidateMapsCache()                                        {}

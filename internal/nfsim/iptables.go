package nfsim

import (
	"net/netip"
	"strconv"
	"strings"

	"verif/internal/refpolicy"
)

// tokenize splits on blanks, keeping double-quoted strings (which may contain blanks) as one
// token without the quotes.
func tokenize(s string) ([]string, error) {
	var out []string
	i := 0
	for i < len(s) {
		for i < len(s) && (s[i] == ' ' || s[i] == '\t') {
			i++
		}
		if i >= len(s) {
			break
		}
		if s[i] == '"' {
			j := i + 1
			var b strings.Builder
			for j < len(s) && s[j] != '"' {
				if s[j] == '\\' && j+1 < len(s) {
					j++
				}
				b.WriteByte(s[j])
				j++
			}
			if j >= len(s) {
				return nil, unparsed("unterminated quote", s)
			}
			out = append(out, "\x00"+b.String()) // \x00 marks "was quoted"
			i = j + 1
			continue
		}
		j := i
		for j < len(s) && s[j] != ' ' && s[j] != '\t' {
			j++
		}
		out = append(out, s[i:j])
		i = j
	}
	return out, nil
}

func unq(t string) string { return strings.TrimPrefix(t, "\x00") }

func parseMarkMask(s string) (val, mask uint32, err error) {
	mask = 0xffffffff
	vs := s
	if i := strings.IndexByte(s, '/'); i >= 0 {
		vs = s[:i]
		m, e := strconv.ParseUint(s[i+1:], 0, 32)
		if e != nil {
			return 0, 0, e
		}
		mask = uint32(m)
	}
	v, e := strconv.ParseUint(vs, 0, 32)
	if e != nil {
		return 0, 0, e
	}
	return uint32(v), mask, nil
}

func parseCIDR(s string) (netip.Prefix, error) {
	if strings.Contains(s, "/") {
		p, err := netip.ParsePrefix(s)
		if err != nil {
			return netip.Prefix{}, err
		}
		return p.Masked(), nil
	}
	a, err := netip.ParseAddr(s)
	if err != nil {
		return netip.Prefix{}, err
	}
	return netip.PrefixFrom(a, a.BitLen()), nil
}

type portRange struct{ lo, hi uint16 }

// parseMultiport parses "1,5:9,80"; slots counts ports the way xt_multiport does (a range
// takes two of the 15 slots).
func parseMultiport(s string) (rs []portRange, slots int, err error) {
	for _, f := range strings.Split(s, ",") {
		if f == "" {
			return nil, 0, strconv.ErrSyntax
		}
		if i := strings.IndexByte(f, ':'); i >= 0 {
			lo, e1 := strconv.ParseUint(f[:i], 10, 16)
			hi, e2 := strconv.ParseUint(f[i+1:], 10, 16)
			if e1 != nil || e2 != nil {
				return nil, 0, strconv.ErrSyntax
			}
			rs = append(rs, portRange{uint16(lo), uint16(hi)})
			slots += 2
		} else {
			p, e := strconv.ParseUint(f, 10, 16)
			if e != nil {
				return nil, 0, strconv.ErrSyntax
			}
			rs = append(rs, portRange{uint16(p), uint16(p)})
			slots++
		}
	}
	return rs, slots, nil
}

func inRanges(rs []portRange, p uint16) bool {
	for _, r := range rs {
		if p >= r.lo && p <= r.hi {
			return true
		}
	}
	return false
}

func parseCTStates(s string) (states map[CTState]bool, dnat, snat bool, err error) {
	states = map[CTState]bool{}
	for _, f := range strings.Split(s, ",") {
		u := strings.ToUpper(f)
		switch u {
		case "DNAT":
			dnat = true
		case "SNAT":
			snat = true
		default:
			st, ok := ctStateNames[u]
			if !ok {
				return nil, false, false, strconv.ErrSyntax
			}
			states[st] = true
		}
	}
	return
}

// portProto: protocols for which the kernel's multiport / tcp / udp / sctp matches are valid.
func isMultiportProto(p int) bool { return p == 6 || p == 17 || p == 136 || p == 132 || p == 33 }

// parseIptables parses one rule in iptables-restore syntax (with or without "-A chain").
func parseIptables(rs *Ruleset, text string) (*Rule, error) {
	toks, err := tokenize(text)
	if err != nil {
		return nil, err
	}
	r := &Rule{Text: text}
	i := 0
	if len(toks) >= 2 && (toks[0] == "-A" || toks[0] == "-I") {
		i = 2
		if toks[0] == "-I" && i < len(toks) {
			if _, e := strconv.Atoi(toks[i]); e == nil {
				i++
			}
		}
	}
	v6 := rs.IPVersion == 6
	neg := false
	takeNeg := func() bool { n := neg; neg = false; return n }
	need := func(n int) error {
		if i+n >= len(toks) {
			return unparsed("option "+toks[i]+" lacks its argument", text)
		}
		return nil
	}
	addMatch := func(m matcher) { r.ops = append(r.ops, op{match: m}) }
	modules := map[string]bool{}
	proto, protoNeg, haveProto := 0, false, false
	var needProtoFor []string // matches that require a positive port-carrying -p
	needICMP := ""            // "icmp" / "icmp6" if such a match is present
	checkCIDR := func(s string) (netip.Prefix, error) {
		p, e := parseCIDR(s)
		if e != nil {
			return p, unparsed("bad address "+s, text)
		}
		if p.Addr().Is6() != v6 {
			return p, rejected("wrong-family-address", "address "+s+" is of the wrong family for this table", text)
		}
		return p, nil
	}
	var act *action
	for i < len(toks) {
		t := toks[i]
		switch t {
		case "!":
			if neg {
				return nil, unparsed("double negation", text)
			}
			neg = true
			i++
			continue
		case "-m", "--match":
			if err := need(1); err != nil {
				return nil, err
			}
			if neg {
				return nil, unparsed("negated -m", text)
			}
			mod := toks[i+1]
			switch mod {
			case "comment", "mark", "set", "multiport", "icmp", "icmp6", "conntrack", "addrtype", "rpfilter", "ipvs", "limit", "tcp", "udp", "sctp", "connlimit":
			default:
				return nil, unparsed("unknown match module "+mod, text)
			}
			if mod == "icmp" && v6 {
				return nil, rejected("wrong-family-match", "match icmp does not exist in ip6tables", text)
			}
			if mod == "icmp6" && !v6 {
				return nil, rejected("wrong-family-match", "match icmp6 does not exist in iptables", text)
			}
			modules[mod] = true
			i += 2
			continue
		case "--comment":
			if err := need(1); err != nil {
				return nil, err
			}
			i += 2
			continue
		case "-p", "--protocol":
			if err := need(1); err != nil {
				return nil, err
			}
			n, ok := lookupProto(toks[i+1])
			if !ok {
				return nil, rejected("unknown-protocol", "unknown protocol "+toks[i+1], text)
			}
			if haveProto {
				return nil, rejected("multiple-proto-flags", "multiple -p flags not allowed", text)
			}
			proto, protoNeg, haveProto = n, takeNeg(), true
			pn, ng := uint8(n), protoNeg
			addMatch(func(s *evalState) bool { return (s.pkt.Proto == pn) != ng })
			i += 2
			continue
		case "--source", "-s", "--src", "--destination", "-d", "--dst":
			if err := need(1); err != nil {
				return nil, err
			}
			p, e := checkCIDR(toks[i+1])
			if e != nil {
				return nil, e
			}
			ng := takeNeg()
			src := t == "--source" || t == "-s" || t == "--src"
			addMatch(func(s *evalState) bool {
				a := s.pkt.Dst
				if src {
					a = s.pkt.Src
				}
				return p.Contains(a) != ng
			})
			i += 2
			continue
		case "--in-interface", "-i", "--out-interface", "-o":
			if err := need(1); err != nil {
				return nil, err
			}
			pat, ng := toks[i+1], takeNeg()
			in := t == "--in-interface" || t == "-i"
			addMatch(func(s *evalState) bool {
				n := s.pkt.OutIface
				if in {
					n = s.pkt.InIface
				}
				return ifaceMatch(pat, "+", n) != ng
			})
			i += 2
			continue
		case "--match-set":
			if !modules["set"] {
				return nil, unparsed("--match-set without -m set", text)
			}
			if err := need(2); err != nil {
				return nil, err
			}
			name, flags, ng := toks[i+1], strings.Split(toks[i+2], ","), takeNeg()
			for _, f := range flags {
				if f != "src" && f != "dst" {
					return nil, unparsed("bad set flags "+toks[i+2], text)
				}
			}
			r.sets = append(r.sets, setRef{name: name})
			addMatch(func(s *evalState) bool {
				set := rs.sets[name]
				hit := false
				if set != nil {
					dim := 1
					if set.IPPort {
						dim = 2
					}
					// ip_set_test(): too few dimensions or a family mismatch never match
					if len(flags) >= dim && set.V6 == (s.pkt.IPVersion == 6) {
						a := s.pkt.Dst
						if flags[0] == "src" {
							a = s.pkt.Src
						}
						if !set.IPPort {
							hit = set.ContainsAddr(a)
						} else {
							sp, dp := thPorts(&s.pkt)
							port := dp
							if flags[1] == "src" {
								port = sp
							}
							pr := s.pkt.Proto
							// ip_set_get_ip4_port: only tcp, sctp, udp, udplite, icmp(v6) yield a port
							if refpolicy.HasPorts(pr) || pr == refpolicy.ProtoUDPLite || pr == refpolicy.ProtoICMP || pr == refpolicy.ProtoICMPv6 {
								hit = set.ContainsIPPort(a, pr, port)
							}
						}
					}
				}
				return hit != ng
			})
			i += 3
			continue
		case "--source-ports", "--sports", "--destination-ports", "--dports", "--ports":
			if !modules["multiport"] {
				return nil, unparsed(t+" without -m multiport", text)
			}
			if err := need(1); err != nil {
				return nil, err
			}
			prs, slots, e := parseMultiport(toks[i+1])
			if e != nil {
				return nil, unparsed("bad port list "+toks[i+1], text)
			}
			if slots > 15 {
				return nil, rejected("multiport-too-many-ports", "multiport: too many ports specified ("+strconv.Itoa(slots)+" slots, limit 15)", text)
			}
			ng := takeNeg()
			which := t
			needProtoFor = append(needProtoFor, "multiport")
			addMatch(func(s *evalState) bool {
				sp, dp := s.pkt.SrcPort, s.pkt.DstPort
				var hit bool
				switch which {
				case "--source-ports", "--sports":
					hit = inRanges(prs, sp)
				case "--destination-ports", "--dports":
					hit = inRanges(prs, dp)
				default:
					hit = inRanges(prs, sp) || inRanges(prs, dp)
				}
				return hit != ng
			})
			i += 2
			continue
		case "--dport", "--destination-port", "--sport", "--source-port":
			if err := need(1); err != nil {
				return nil, err
			}
			prs, _, e := parseMultiport(toks[i+1])
			if e != nil || len(prs) != 1 {
				return nil, unparsed("bad port "+toks[i+1], text)
			}
			ng := takeNeg()
			dst := t == "--dport" || t == "--destination-port"
			needProtoFor = append(needProtoFor, t)
			addMatch(func(s *evalState) bool {
				p := s.pkt.SrcPort
				if dst {
					p = s.pkt.DstPort
				}
				return inRanges(prs, p) != ng
			})
			i += 2
			continue
		case "--icmp-type", "--icmpv6-type":
			want := "icmp"
			if t == "--icmpv6-type" {
				want = "icmp6"
			}
			if !modules[want] {
				return nil, unparsed(t+" without -m "+want, text)
			}
			if err := need(1); err != nil {
				return nil, err
			}
			ts, cs, withCode := toks[i+1], "", false
			if j := strings.IndexByte(ts, '/'); j >= 0 {
				ts, cs, withCode = ts[:j], ts[j+1:], true
			}
			ty, e1 := strconv.ParseUint(ts, 10, 8)
			var co uint64
			var e2 error
			if withCode {
				co, e2 = strconv.ParseUint(cs, 10, 8)
			}
			if e1 != nil || e2 != nil {
				return nil, unparsed("bad icmp type "+toks[i+1], text)
			}
			ng := takeNeg()
			needICMP = want
			isV4 := want == "icmp"
			addMatch(func(s *evalState) bool {
				// kernel icmp_type_code_match / icmp6_type_code_match; in the IPv4 match a
				// type of 0xFF means "any type".
				hit := s.pkt.ICMPType == uint8(ty) && (!withCode || s.pkt.ICMPCode == uint8(co))
				if isV4 && ty == 0xff {
					hit = true
				}
				return hit != ng
			})
			i += 2
			continue
		case "--mark":
			if !modules["mark"] {
				return nil, unparsed("--mark without -m mark", text)
			}
			if err := need(1); err != nil {
				return nil, err
			}
			v, m, e := parseMarkMask(toks[i+1])
			if e != nil {
				return nil, unparsed("bad mark "+toks[i+1], text)
			}
			ng := takeNeg()
			addMatch(func(s *evalState) bool { return ((s.pkt.Mark & m) == v) != ng })
			i += 2
			continue
		case "--ctstate":
			if !modules["conntrack"] {
				return nil, unparsed("--ctstate without -m conntrack", text)
			}
			if err := need(1); err != nil {
				return nil, err
			}
			states, dnat, snat, e := parseCTStates(toks[i+1])
			if e != nil {
				return nil, unparsed("bad ctstate "+toks[i+1], text)
			}
			if snat {
				return nil, unparsed("ctstate SNAT is not modelled", text)
			}
			ng := takeNeg()
			addMatch(func(s *evalState) bool {
				hit := states[s.pkt.CTState] || (dnat && s.pkt.CTDNAT && s.pkt.CTState != CTUntracked && s.pkt.CTState != CTInvalid)
				return hit != ng
			})
			i += 2
			continue
		case "--src-type", "--dst-type":
			if !modules["addrtype"] {
				return nil, unparsed(t+" without -m addrtype", text)
			}
			if err := need(1); err != nil {
				return nil, err
			}
			if toks[i+1] != "LOCAL" {
				return nil, unparsed("addrtype "+toks[i+1]+" is not modelled", text)
			}
			ng := takeNeg()
			src := t == "--src-type"
			limitOut := false
			if src && i+2 < len(toks) && toks[i+2] == "--limit-iface-out" {
				limitOut = true
				i++
			}
			addMatch(func(s *evalState) bool {
				var hit bool
				switch {
				case src && limitOut:
					hit = s.pkt.SrcLocal && s.pkt.SrcLocalOnOutIf
				case src:
					hit = s.pkt.SrcLocal
				default:
					hit = s.pkt.DstLocal
				}
				return hit != ng
			})
			i += 2
			continue
		case "--invert":
			// -m rpfilter --invert --validmark
			if !modules["rpfilter"] || neg {
				return nil, unparsed("--invert outside -m rpfilter", text)
			}
			addMatch(func(s *evalState) bool { return s.pkt.RPFFail })
			i++
			continue
		case "--validmark":
			if !modules["rpfilter"] || neg {
				return nil, unparsed("--validmark outside -m rpfilter", text)
			}
			i++
			continue
		case "--ipvs":
			if !modules["ipvs"] {
				return nil, unparsed("--ipvs without -m ipvs", text)
			}
			ng := takeNeg()
			addMatch(func(s *evalState) bool { return s.pkt.IPVS != ng })
			i++
			continue
		case "--limit":
			if !modules["limit"] || neg {
				return nil, unparsed("--limit without -m limit", text)
			}
			if err := need(1); err != nil {
				return nil, err
			}
			addMatch(func(s *evalState) bool { return !s.pkt.OverRateLimit })
			i += 2
			continue
		case "--limit-burst":
			if !modules["limit"] || neg {
				return nil, unparsed("--limit-burst without -m limit", text)
			}
			if err := need(1); err != nil {
				return nil, err
			}
			i += 2
			continue
		case "--tcp-flags":
			if !modules["tcp"] || neg {
				return nil, unparsed("--tcp-flags without -m tcp", text)
			}
			if err := need(2); err != nil {
				return nil, err
			}
			if toks[i+1] != "FIN,SYN,RST,ACK" || toks[i+2] != "SYN" {
				return nil, unparsed("tcp flags other than --syn are not modelled", text)
			}
			needProtoFor = append(needProtoFor, "tcp")
			addMatch(func(s *evalState) bool { return s.pkt.Proto == 6 && s.pkt.TCPSyn })
			i += 3
			continue
		case "--connlimit-above":
			if !modules["connlimit"] || neg {
				return nil, unparsed("--connlimit-above without -m connlimit", text)
			}
			if err := need(1); err != nil {
				return nil, err
			}
			addMatch(func(s *evalState) bool { return s.pkt.OverConnLimit })
			i += 2
			continue
		case "--connlimit-mask":
			if err := need(1); err != nil {
				return nil, err
			}
			i += 2
			continue
		case "--jump", "-j", "--goto", "-g":
			if neg {
				return nil, unparsed("negated target", text)
			}
			if err := need(1); err != nil {
				return nil, err
			}
			var e error
			act, i, e = parseIptablesTarget(r, toks, i, t == "--goto" || t == "-g", text)
			if e != nil {
				return nil, e
			}
			if i != len(toks) {
				return nil, unparsed("trailing text after target: "+strings.Join(toks[i:], " "), text)
			}
			continue
		}
		return nil, unparsed("unknown token "+unq(t), text)
	}
	if neg {
		return nil, unparsed("dangling !", text)
	}
	// kernel check-entry rules
	if len(needProtoFor) > 0 {
		if !haveProto || protoNeg || !isMultiportProto(proto) {
			return nil, rejected("match-needs-proto", "match "+needProtoFor[0]+" needs a non-inverted -p tcp/udp/udplite/sctp/dccp", text)
		}
	}
	if needICMP == "icmp" && (!haveProto || protoNeg || proto != 1) {
		return nil, rejected("match-needs-proto", "match icmp needs -p icmp", text)
	}
	if needICMP == "icmp6" && (!haveProto || protoNeg || proto != 58) {
		return nil, rejected("match-needs-proto", "match icmp6 needs -p icmpv6", text)
	}
	if act != nil {
		r.ops = append(r.ops, op{act: act})
	}
	return r, nil
}

func parseIptablesTarget(r *Rule, toks []string, i int, isGoto bool, text string) (*action, int, error) {
	tgt := toks[i+1]
	i += 2
	arg := func(name string) (string, bool) {
		if i+1 < len(toks) && toks[i] == name {
			v := toks[i+1]
			i += 2
			return unq(v), true
		}
		return "", false
	}
	if isGoto {
		r.chains = append(r.chains, tgt)
		return &action{kind: actGoto, target: tgt}, i, nil
	}
	switch tgt {
	case "ACCEPT":
		return &action{kind: actAccept}, i, nil
	case "DROP":
		return &action{kind: actDrop}, i, nil
	case "RETURN":
		return &action{kind: actReturn}, i, nil
	case "REJECT":
		arg("--reject-with")
		return &action{kind: actReject}, i, nil
	case "NOTRACK":
		return &action{kind: actNoTrack}, i, nil
	case "MARK":
		for _, o := range []string{"--set-mark", "--set-xmark"} {
			if v, ok := arg(o); ok {
				val, mask, e := parseMarkMask(v)
				if e != nil {
					return nil, i, unparsed("bad MARK value "+v, text)
				}
				if o == "--set-mark" {
					// libxt_MARK: --set-mark v/m  ==  --set-xmark v/(m|v)
					mask |= val
				}
				return &action{kind: actMark, and: ^mask, xor: val}, i, nil
			}
		}
		return nil, i, unparsed("MARK without --set-mark", text)
	case "CONNMARK":
		if v, ok := arg("--set-mark"); ok {
			val, mask, e := parseMarkMask(v)
			if e != nil {
				return nil, i, unparsed("bad CONNMARK value "+v, text)
			}
			return &action{kind: actConnMarkSet, and: ^(mask | val), xor: val}, i, nil
		}
		if i < len(toks) && (toks[i] == "--save-mark" || toks[i] == "--restore-mark") {
			kind := actConnMarkSave
			if toks[i] == "--restore-mark" {
				kind = actConnMarkRestore
			}
			i++
			mask := uint32(0xffffffff)
			if v, ok := arg("--mask"); ok {
				m, e := strconv.ParseUint(v, 0, 32)
				if e != nil {
					return nil, i, unparsed("bad CONNMARK mask "+v, text)
				}
				mask = uint32(m)
			}
			return &action{kind: kind, and: mask}, i, nil
		}
		return nil, i, unparsed("unknown CONNMARK form", text)
	case "LOG":
		a := &action{kind: actLog, log: LogHit{Kind: "LOG"}}
		for i < len(toks) {
			if v, ok := arg("--log-prefix"); ok {
				a.log.Prefix = v
			} else if _, ok := arg("--log-level"); ok {
			} else {
				break
			}
		}
		return a, i, nil
	case "NFLOG":
		a := &action{kind: actLog, log: LogHit{Kind: "NFLOG"}}
		for i < len(toks) {
			if v, ok := arg("--nflog-group"); ok {
				g, e := strconv.Atoi(v)
				if e != nil {
					return nil, i, unparsed("bad nflog group", text)
				}
				a.log.Group = g
			} else if v, ok := arg("--nflog-prefix"); ok {
				a.log.Prefix = v
			} else if _, ok := arg("--nflog-size"); ok {
			} else if _, ok := arg("--nflog-range"); ok {
			} else {
				break
			}
		}
		return a, i, nil
	case "DSCP":
		if v, ok := arg("--set-dscp"); ok {
			d, e := strconv.ParseUint(v, 0, 6)
			if e != nil {
				return nil, i, unparsed("bad DSCP "+v, text)
			}
			return &action{kind: actDSCP, dscp: uint8(d)}, i, nil
		}
		return nil, i, unparsed("DSCP without --set-dscp", text)
	case "MASQUERADE", "SNAT", "DNAT":
		for i < len(toks) {
			if _, ok := arg("--to-ports"); ok {
			} else if _, ok := arg("--to-source"); ok {
			} else if _, ok := arg("--to-destination"); ok {
			} else if toks[i] == "--random-fully" {
				i++
			} else {
				break
			}
		}
		return &action{kind: actNAT}, i, nil
	}
	if strings.ToUpper(tgt) == tgt && !strings.Contains(tgt, "-") {
		// an extension target we do not model (built-in targets are upper case)
		return nil, i, unparsed("unknown target "+tgt, text)
	}
	r.chains = append(r.chains, tgt)
	return &action{kind: actJump, target: tgt}, i, nil
}

package nfsim

import (
	"net/netip"
	"strconv"
	"strings"

	"verif/internal/refpolicy"
)

// nft rule text, as rendered by felix/nftables (match clauses, "counter", one statement).
//
// Semantics (calibrated against `nft -c --debug=netlink`, nftables 1.0.6):
//
//   - a rule is evaluated left to right; the first expression that does not match ends it;
//   - `meta l4proto X` compares the final transport protocol number;
//   - `ip|ip6 saddr|daddr [!=] CIDR` loads the address and compares under the prefix mask;
//     in an `ip` family table an `ip6` expression (and vice versa) is refused by nft
//     ("conflicting protocols specified"), as is an address literal of the wrong family;
//   - `ip saddr . meta l4proto . th sport [!=] @set` concatenates address, protocol number and
//     the raw 16 bits at transport header offset 0 (sport) / 2 (dport) and looks the result up;
//   - `tcp|udp|sctp sport|dport [!=] { a, b-c }` implies `meta l4proto tcp|udp|sctp` (nft adds
//     the dependency) and tests the port against the anonymous set;
//   - `icmp type [!=] T` / `icmpv6 type [!=] T` implies l4proto icmp / icmpv6 and compares one
//     byte; with `code [!=] C` nft merges type and code into ONE 2-byte comparison, so
//     `type != T code != C` means NOT (type == T AND code == C)  (DESIGN.md section 6(2); the local
//     nft only accepts the explicit form `icmp type != T icmp code != C`, which compiles to
//     that single `cmp neq`);
//   - `meta mark & M == V` / `!= V`; `meta mark set mark & A ^ X`, `mark or X`, `mark & A`;
//   - `ct state a,b` tests (state & (a|b)) != 0, `ct state != a` compares for inequality;
//   - `iifname "cali*"` is a prefix match; `iifname vmap @m` looks the name up in a verdict
//     map and, if there is no element, the rule simply does not match.
func parseNft(rs *Ruleset, text string) (*Rule, error) {
	raw, err := tokenize(text)
	if err != nil {
		return nil, err
	}
	// regroup "{ a, b-c }" into a single token "{a,b-c}"
	var toks []string
	for i := 0; i < len(raw); i++ {
		if raw[i] == "{" {
			j := i + 1
			var parts []string
			for j < len(raw) && raw[j] != "}" {
				parts = append(parts, raw[j])
				j++
			}
			if j >= len(raw) {
				return nil, unparsed("unterminated {", text)
			}
			toks = append(toks, "{"+strings.Join(parts, "")+"}")
			i = j
			continue
		}
		toks = append(toks, raw[i])
	}
	r := &Rule{Text: text}
	v6 := rs.IPVersion == 6
	fam := "ip"
	if v6 {
		fam = "ip6"
	}
	i := 0
	peek := func(k int) string {
		if i+k < len(toks) {
			return toks[i+k]
		}
		return ""
	}
	addMatch := func(m matcher) { r.ops = append(r.ops, op{match: m}) }
	addAct := func(a *action) { r.ops = append(r.ops, op{act: a}) }
	// optional "!=" / "==" operator
	opNeg := func() bool {
		switch peek(0) {
		case "!=":
			i++
			return true
		case "==":
			i++
		}
		return false
	}
	terminated := false
	for i < len(toks) {
		if terminated {
			return nil, unparsed("text after a terminal statement: "+strings.Join(toks[i:], " "), text)
		}
		t := toks[i]
		switch t {
		case "counter":
			i++
		case "continue":
			i++
		case "accept":
			addAct(&action{kind: actAccept})
			terminated = true
			i++
		case "drop":
			addAct(&action{kind: actDrop})
			terminated = true
			i++
		case "return":
			addAct(&action{kind: actReturn})
			terminated = true
			i++
		case "notrack":
			addAct(&action{kind: actNoTrack})
			i++
		case "jump", "goto":
			tgt := peek(1)
			if tgt == "" {
				return nil, unparsed(t+" without a chain", text)
			}
			r.chains = append(r.chains, tgt)
			k := actJump
			if t == "goto" {
				k = actGoto
			}
			addAct(&action{kind: k, target: tgt})
			terminated = true
			i += 2
		case "reject":
			i++
			if peek(0) == "with" {
				if peek(1) == "tcp" && peek(2) == "reset" {
					i += 3
				} else {
					return nil, unparsed("unknown reject form", text)
				}
			}
			addAct(&action{kind: actReject})
			terminated = true
		case "log":
			a := &action{kind: actLog, log: LogHit{Kind: "LOG"}}
			i++
			for i < len(toks) {
				switch peek(0) {
				case "prefix":
					a.log.Prefix = unq(peek(1))
					i += 2
					continue
				case "level":
					i += 2
					continue
				case "snaplen":
					i += 2
					continue
				case "group":
					g, e := strconv.Atoi(peek(1))
					if e != nil {
						return nil, unparsed("bad log group", text)
					}
					a.log.Group, a.log.Kind = g, "NFLOG"
					i += 2
					continue
				}
				break
			}
			addAct(a)
		case "masquerade", "snat", "dnat":
			i++
			for i < len(toks) {
				if peek(0) == "to" {
					i += 2
					continue
				}
				if peek(0) == "fully-random" {
					i++
					continue
				}
				break
			}
			addAct(&action{kind: actNAT})
			terminated = true
		case "flow":
			if (peek(1) == "offload" || peek(1) == "add") && strings.HasPrefix(peek(2), "@") {
				addAct(&action{kind: actFlowOffload})
				i += 3
			} else {
				return nil, unparsed("unknown flow statement", text)
			}
		case "limit":
			// limit rate [over] N/second [burst N packets]
			if peek(1) != "rate" {
				return nil, unparsed("unknown limit form", text)
			}
			i += 2
			over := false
			if peek(0) == "over" {
				over = true
				i++
			}
			if !strings.Contains(peek(0), "/") {
				return nil, unparsed("bad limit rate "+peek(0), text)
			}
			i++
			if peek(0) == "burst" {
				if peek(2) != "packets" {
					return nil, unparsed("bad limit burst", text)
				}
				i += 3
			}
			addMatch(func(s *evalState) bool { return s.pkt.OverRateLimit == over })
		case "meta":
			switch peek(1) {
			case "l4proto":
				i += 2
				ng := opNeg()
				n, ok := lookupProto(peek(0))
				if !ok {
					return nil, rejected("unknown-protocol", "unknown protocol "+peek(0), text)
				}
				i++
				pn := uint8(n)
				addMatch(func(s *evalState) bool { return (s.pkt.Proto == pn) != ng })
			case "mark":
				i += 2
				if peek(0) == "set" {
					i++
					a, n, e := parseNftMarkExpr(toks[i:], text)
					if e != nil {
						return nil, e
					}
					i += n
					addAct(a)
					break
				}
				mask := uint32(0xffffffff)
				if peek(0) == "&" {
					m, e := strconv.ParseUint(peek(1), 0, 32)
					if e != nil {
						return nil, unparsed("bad mark mask "+peek(1), text)
					}
					mask = uint32(m)
					i += 2
				}
				if peek(0) != "==" && peek(0) != "!=" {
					return nil, unparsed("mark match without ==/!=", text)
				}
				ng := opNeg()
				v, e := strconv.ParseUint(peek(0), 0, 32)
				if e != nil {
					return nil, unparsed("bad mark value "+peek(0), text)
				}
				i++
				val := uint32(v)
				addMatch(func(s *evalState) bool { return ((s.pkt.Mark & mask) == val) != ng })
			default:
				return nil, unparsed("unknown meta expression "+peek(1), text)
			}
		case "ip", "ip6":
			if t != fam {
				return nil, rejected("conflicting-family", "conflicting protocols specified: "+fam+" vs. "+t, text)
			}
			field := peek(1)
			if field == "dscp" && peek(2) == "set" {
				d, e := strconv.ParseUint(peek(3), 0, 6)
				if e != nil {
					return nil, unparsed("bad dscp", text)
				}
				addAct(&action{kind: actDSCP, dscp: uint8(d)})
				i += 4
				break
			}
			if field != "saddr" && field != "daddr" {
				return nil, unparsed("unknown "+t+" field "+field, text)
			}
			src := field == "saddr"
			i += 2
			if peek(0) == "." {
				// <fam> saddr . meta l4proto . th sport|dport [!=] @set
				if peek(1) != "meta" || peek(2) != "l4proto" || peek(3) != "." || peek(4) != "th" || (peek(5) != "sport" && peek(5) != "dport") {
					return nil, unparsed("unknown concatenation", text)
				}
				sport := peek(5) == "sport"
				i += 6
				ng := opNeg()
				if !strings.HasPrefix(peek(0), "@") {
					return nil, unparsed("concatenation must be looked up in a set", text)
				}
				name := peek(0)[1:]
				i++
				r.sets = append(r.sets, setRef{name: name, ipport: true, typed: true})
				addMatch(func(s *evalState) bool {
					set := rs.sets[name]
					a := s.pkt.Dst
					if src {
						a = s.pkt.Src
					}
					sp, dp := thPorts(&s.pkt)
					port := dp
					if sport {
						port = sp
					}
					hit := set != nil && set.ContainsIPPort(a, s.pkt.Proto, port)
					return hit != ng
				})
				break
			}
			ng := opNeg()
			v := peek(0)
			i++
			if strings.HasPrefix(v, "@") {
				name := v[1:]
				r.sets = append(r.sets, setRef{name: name, ipport: false, typed: true})
				addMatch(func(s *evalState) bool {
					set := rs.sets[name]
					a := s.pkt.Dst
					if src {
						a = s.pkt.Src
					}
					return (set != nil && set.ContainsAddr(a)) != ng
				})
				break
			}
			p, e := parseCIDR(v)
			if e != nil {
				return nil, unparsed("bad address "+v, text)
			}
			if p.Addr().Is6() != v6 {
				return nil, rejected("wrong-family-address", "address "+v+" does not fit an "+t+" address expression", text)
			}
			addMatch(func(s *evalState) bool {
				a := s.pkt.Dst
				if src {
					a = s.pkt.Src
				}
				return p.Contains(a) != ng
			})
		case "tcp", "udp", "sctp", "udplite", "dccp":
			field := peek(1)
			if field != "sport" && field != "dport" {
				return nil, unparsed("unknown "+t+" field "+field, text)
			}
			pn, _ := lookupProto(t)
			i += 2
			ng := opNeg()
			prs, e := parseNftPorts(peek(0))
			if e != nil {
				return nil, unparsed("bad port set "+peek(0), text)
			}
			i++
			sport := field == "sport"
			addMatch(func(s *evalState) bool {
				if int(s.pkt.Proto) != pn { // implicit dependency
					return false
				}
				p := s.pkt.DstPort
				if sport {
					p = s.pkt.SrcPort
				}
				return inRanges(prs, p) != ng
			})
		case "icmp", "icmpv6":
			if peek(1) != "type" {
				return nil, unparsed("unknown "+t+" field "+peek(1), text)
			}
			pn := uint8(refpolicy.ProtoICMP)
			if t == "icmpv6" {
				pn = refpolicy.ProtoICMPv6
			}
			i += 2
			tneg := opNeg()
			ty, e := strconv.ParseUint(peek(0), 10, 8)
			if e != nil {
				return nil, unparsed("bad icmp type "+peek(0), text)
			}
			i++
			withCode, cneg := false, false
			var co uint64
			// "code C" shorthand or explicit "icmp code C"
			if peek(0) == "code" || (peek(0) == t && peek(1) == "code") {
				if peek(0) == t {
					i++
				}
				i++
				cneg = opNeg()
				co, e = strconv.ParseUint(peek(0), 10, 8)
				if e != nil {
					return nil, unparsed("bad icmp code "+peek(0), text)
				}
				i++
				withCode = true
				if cneg != tneg {
					return nil, unparsed("icmp type/code with mixed ==/!= is not modelled", text)
				}
			}
			addMatch(func(s *evalState) bool {
				if s.pkt.Proto != pn { // implicit dependency
					return false
				}
				// adjacent type and code are merged by nft into one 2-byte comparison
				eq := s.pkt.ICMPType == uint8(ty) && (!withCode || s.pkt.ICMPCode == uint8(co))
				return eq != tneg
			})
		case "ct":
			switch peek(1) {
			case "state", "status":
				which := peek(1)
				i += 2
				ng := opNeg()
				list := strings.Split(peek(0), ",")
				i++
				if which == "status" {
					if len(list) != 1 || list[0] != "dnat" {
						return nil, unparsed("ct status other than dnat is not modelled", text)
					}
					addMatch(func(s *evalState) bool {
						return (s.pkt.CTDNAT && s.pkt.CTState != CTUntracked && s.pkt.CTState != CTInvalid) != ng
					})
					break
				}
				states := map[CTState]bool{}
				for _, n := range list {
					st, ok := ctStateNames[strings.ToUpper(n)]
					if !ok {
						return nil, unparsed("unknown ct state "+n, text)
					}
					states[st] = true
				}
				addMatch(func(s *evalState) bool { return states[s.pkt.CTState] != ng })
			case "mark":
				// ct mark set <expr>
				if peek(2) != "set" {
					return nil, unparsed("ct mark match is not modelled", text)
				}
				i += 3
				switch {
				case peek(0) == "mark": // ct mark set mark [& X]
					i++
					mask := uint32(0xffffffff)
					if peek(0) == "&" {
						m, e := strconv.ParseUint(peek(1), 0, 32)
						if e != nil {
							return nil, unparsed("bad ct mark mask", text)
						}
						mask = uint32(m)
						i += 2
					}
					addAct(&action{kind: actConnMarkSave, and: mask})
				case peek(0) == "ct" && peek(1) == "mark" && peek(2) == "&" && peek(4) == "^":
					x, e := strconv.ParseUint(peek(5), 0, 32)
					if e != nil {
						return nil, unparsed("bad ct mark value", text)
					}
					i += 6
					addAct(&action{kind: actConnMarkSet, xor: uint32(x)})
				default:
					x, e := strconv.ParseUint(peek(0), 0, 32)
					if e != nil {
						return nil, unparsed("unknown ct mark set form", text)
					}
					i++
					addAct(&action{kind: actConnMarkSet, xor: uint32(x)})
				}
			case "count":
				if peek(2) != "over" {
					return nil, unparsed("unknown ct count form", text)
				}
				i += 4
				addMatch(func(s *evalState) bool { return s.pkt.OverConnLimit })
			default:
				return nil, unparsed("unknown ct expression "+peek(1), text)
			}
		case "iifname", "oifname":
			in := t == "iifname"
			i++
			if peek(0) == "vmap" {
				if !strings.HasPrefix(peek(1), "@") {
					return nil, unparsed("vmap without a map", text)
				}
				name := peek(1)[1:]
				r.vmaps = append(r.vmaps, name)
				addAct(&action{kind: actVMap, target: name, vmapIn: in})
				terminated = true
				i += 2
				break
			}
			ng := opNeg()
			pat := unq(peek(0))
			if pat == "" {
				return nil, unparsed(t+" without a name", text)
			}
			i++
			addMatch(func(s *evalState) bool {
				n := s.pkt.OutIface
				if in {
					n = s.pkt.InIface
				}
				return ifaceMatch(pat, "*", n) != ng
			})
		case "fib":
			switch {
			case peek(1) == "saddr" && peek(2) == "." && peek(3) == "mark" && peek(4) == "." && peek(5) == "iif" && peek(6) == "oif" && peek(7) == "0":
				i += 8
				addMatch(func(s *evalState) bool { return s.pkt.RPFFail })
			case peek(1) == "saddr" && peek(2) == "." && peek(3) == "oif" && peek(4) == "type":
				i += 5
				ng := opNeg()
				if peek(0) != "local" {
					return nil, unparsed("fib type "+peek(0)+" is not modelled", text)
				}
				i++
				addMatch(func(s *evalState) bool { return (s.pkt.SrcLocal && s.pkt.SrcLocalOnOutIf) != ng })
			case (peek(1) == "saddr" || peek(1) == "daddr") && peek(2) == "type":
				src := peek(1) == "saddr"
				i += 3
				ng := opNeg()
				if peek(0) != "local" {
					return nil, unparsed("fib type "+peek(0)+" is not modelled", text)
				}
				i++
				addMatch(func(s *evalState) bool {
					if src {
						return s.pkt.SrcLocal != ng
					}
					return s.pkt.DstLocal != ng
				})
			default:
				return nil, unparsed("unknown fib expression", text)
			}
		default:
			return nil, unparsed("unknown token "+unq(t), text)
		}
	}
	return r, nil
}

// parseNftMarkExpr parses the right-hand side of `meta mark set`: "mark & A", "mark & A ^ X",
// "mark or X", "ct mark", "ct mark & A".  It returns the number of tokens consumed.
func parseNftMarkExpr(toks []string, text string) (*action, int, error) {
	get := func(k int) string {
		if k < len(toks) {
			return toks[k]
		}
		return ""
	}
	num := func(s string) (uint32, bool) {
		v, e := strconv.ParseUint(s, 0, 32)
		return uint32(v), e == nil
	}
	switch {
	case get(0) == "mark" && get(1) == "or":
		x, ok := num(get(2))
		if !ok {
			return nil, 0, unparsed("bad mark value", text)
		}
		return &action{kind: actMark, and: ^x, xor: x}, 3, nil
	case get(0) == "mark" && get(1) == "&":
		a, ok := num(get(2))
		if !ok {
			return nil, 0, unparsed("bad mark mask", text)
		}
		if get(3) == "^" {
			x, ok := num(get(4))
			if !ok {
				return nil, 0, unparsed("bad mark value", text)
			}
			return &action{kind: actMark, and: a, xor: x}, 5, nil
		}
		return &action{kind: actMark, and: a, xor: 0}, 3, nil
	case get(0) == "ct" && get(1) == "mark":
		if get(2) == "&" {
			a, ok := num(get(3))
			if !ok {
				return nil, 0, unparsed("bad mark mask", text)
			}
			return &action{kind: actConnMarkRestore, and: a}, 4, nil
		}
		return &action{kind: actConnMarkRestore, and: 0xffffffff}, 2, nil
	}
	if x, ok := num(get(0)); ok {
		return &action{kind: actMark, and: 0, xor: x}, 1, nil
	}
	return nil, 0, unparsed("unknown mark set expression", text)
}

// parseNftPorts parses "{1,5-9}" or a single "80" / "5-9".
func parseNftPorts(s string) ([]portRange, error) {
	s = strings.TrimSuffix(strings.TrimPrefix(s, "{"), "}")
	if s == "" {
		return nil, strconv.ErrSyntax
	}
	var out []portRange
	for _, f := range strings.Split(s, ",") {
		if f == "" {
			return nil, strconv.ErrSyntax
		}
		if j := strings.IndexByte(f, '-'); j >= 0 {
			lo, e1 := strconv.ParseUint(f[:j], 10, 16)
			hi, e2 := strconv.ParseUint(f[j+1:], 10, 16)
			if e1 != nil || e2 != nil {
				return nil, strconv.ErrSyntax
			}
			out = append(out, portRange{uint16(lo), uint16(hi)})
		} else {
			p, e := strconv.ParseUint(f, 10, 16)
			if e != nil {
				return nil, strconv.ErrSyntax
			}
			out = append(out, portRange{uint16(p), uint16(p)})
		}
	}
	return out, nil
}

var _ = netip.Addr{}

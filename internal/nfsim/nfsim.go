// Package nfsim evaluates the netfilter rules Felix RENDERS, i.e. the text it hands to
// iptables-restore (generictables.Rule.Match.Render() + Action.ToFragment(), as assembled by
// the real iptables renderer) and to nft (the real felix/nftables renderer's rule text), the
// way the kernel would: chains, jump/goto/return, mark set/match, IP sets, verdict maps.
//
// Two parsers (iptables.go, nft.go) feed one evaluator (this file).
//
// Error discipline - a parser never guesses:
//
//   - text the parser does not understand is an *Error of kind Unparsed: the HARNESS is
//     incomplete.  Checks must turn this into a harness error, never into "held";
//   - text that is understood but that the real front end / kernel is known to refuse to load
//     (a multiport match with more than 15 port slots, an IPv6 CIDR in an `ip saddr` clause or
//     an iptables(v4) rule, `ip ...` in an ip6-family table, `-m icmp` without `-p icmp`, a
//     multiport or --dport match without a port-carrying `-p`, a jump to a chain or a reference
//     to a set that does not exist, a set of the wrong type) is an *Error of kind Rejected:
//     that is a property of the RENDERED RULES and checks report it as a violation.
//
// Stable API:
//
//	NewRuleset(flavor, ipVersion)            flavor = Iptables | NFT
//	(*Ruleset).AddRule(chain, text)          parse one rendered rule into a chain
//	(*Ruleset).AddChain(*generictables.Chain) render with the real renderer, then AddRule
//	(*Ruleset).Table(layer)                  a generictables.Table (+ nftables.MapsDataplane)
//	                                         that captures UpdateChains / InsertOrAppendRules /
//	                                         AppendRules / AddOrReplaceMap like Felix's tables
//	(*Ruleset).AddSet(name, *refpolicy.IPSet) / AddVMap(name, members)
//	(*Ruleset).Err()                         first load error (Unparsed wins over Rejected)
//	(*Ruleset).Run(chain, *Packet)           walk from a chain; Result{Verdict, Mark, ...}
//	(*Ruleset).Dump() / ChainTexts(chain)     the loaded text, for witnesses / re-use
package nfsim

import (
	"errors"
	"fmt"
	"sort"
	"strings"

	"verif/internal/refpolicy"
)

// Flavor selects the rule language.
type Flavor int

const (
	Iptables Flavor = iota
	NFT
)

func (f Flavor) String() string {
	if f == NFT {
		return "nft"
	}
	return "iptables"
}

// ErrKind classifies load/run errors, see the package comment.
type ErrKind int

const (
	Unparsed ErrKind = iota // the simulator does not understand the text: harness error
	Rejected                // the real front end/kernel would refuse to load the rule
	Runtime                 // evaluation could not finish (loop, step limit)
)

func (k ErrKind) String() string { return [...]string{"unparsed", "rejected", "runtime"}[k] }

// Error is returned by every loader and by Run.
type Error struct {
	Kind   ErrKind
	Flavor Flavor
	Chain  string
	Text   string // the offending rule text
	Msg    string
	// Class is a short stable identifier of the reason (for violation keys), e.g.
	// "multiport-too-many-ports", "multiple-proto-flags", "wrong-family-address",
	// "conflicting-family", "match-needs-proto", "missing-chain", "missing-set", "set-type".
	Class string
}

func (e *Error) Error() string {
	return fmt.Sprintf("nfsim %s (%s) chain %q: %s: %q", e.Kind, e.Flavor, e.Chain, e.Msg, e.Text)
}

// IsUnparsed reports whether err is (or wraps) a simulator-does-not-understand error.
func IsUnparsed(err error) bool {
	var e *Error
	return errors.As(err, &e) && e.Kind == Unparsed
}

// IsRejected reports whether err is (or wraps) a the-kernel-would-refuse-this error.
func IsRejected(err error) bool {
	var e *Error
	return errors.As(err, &e) && e.Kind == Rejected
}

// CTState is the conntrack state of the packet.
type CTState int

const (
	CTNew CTState = iota
	CTEstablished
	CTRelated
	CTInvalid
	CTUntracked
)

var ctStateNames = map[string]CTState{
	"NEW": CTNew, "ESTABLISHED": CTEstablished, "RELATED": CTRelated, "INVALID": CTInvalid, "UNTRACKED": CTUntracked,
}

// Packet is a policy packet plus the netfilter-visible context.
type Packet struct {
	refpolicy.Packet
	InIface, OutIface string // "" = none (e.g. no input interface on the OUTPUT hook)
	CTState           CTState
	CTDNAT            bool // conntrack status/state DNAT
	SrcLocal          bool // source address is of type LOCAL
	SrcLocalOnOutIf   bool // ... and configured on the outgoing interface (--limit-iface-out)
	DstLocal          bool // destination address is of type LOCAL
	RPFFail           bool // the reverse-path check fails (rpfilter --invert / fib ... oif 0)
	IPVS              bool // packet belongs to an IPVS connection
	OverRateLimit     bool // a rate limit (-m limit / limit rate) is exceeded for this packet
	OverConnLimit     bool // connlimit / ct count is exceeded
	TCPSyn            bool // TCP SYN without FIN,RST,ACK
	Mark              uint32
}

// Verdict of a walk.
type Verdict int

const (
	// FellThrough: the start chain ended or RETURNed without a terminal verdict (for a
	// built-in chain the chain policy would apply; for a sub-chain the caller continues).
	FellThrough Verdict = iota
	Accept
	Drop
	Reject
	// NAT: a terminal NAT target (SNAT, DNAT, MASQUERADE) was hit.
	NAT
)

func (v Verdict) String() string {
	return [...]string{"fell-through", "ACCEPT", "DROP", "REJECT", "NAT"}[v]
}

// LogHit records a LOG / NFLOG action that fired.
type LogHit struct {
	Kind   string // "LOG" or "NFLOG"
	Prefix string
	Group  int
}

// Step is one rule that matched during the walk.
type Step struct {
	Chain string
	Index int
	Text  string
}

// Result of Run.
type Result struct {
	Verdict Verdict
	// Returned: the walk ended because an explicit RETURN was executed in the start chain
	// (as opposed to running off its end).  Only meaningful with Verdict == FellThrough.
	Returned    bool
	Mark        uint32
	NoTrack     bool
	FlowOffload bool
	ConnMark    *uint32 // last value written to the connection mark, if any
	DSCP        *uint8
	Logs        []LogHit
	Trace       []Step // every rule whose matches all held, in order
	Visited     []string
}

// ChainsVisited returns the names of the chains entered, in order of first entry.
func (r *Result) ChainsVisited() []string { return r.Visited }

// TraceString renders the trace compactly for witnesses.
func (r *Result) TraceString() string {
	var b strings.Builder
	for _, s := range r.Trace {
		fmt.Fprintf(&b, "%s[%d]: %s\n", s.Chain, s.Index, s.Text)
	}
	return b.String()
}

type actKind int

const (
	actNone actKind = iota // rule without a target/verdict (counter only, "continue")
	actAccept
	actDrop
	actReject
	actReturn
	actJump
	actGoto
	actMark // mark = (mark & and) ^ xor
	actNoTrack
	actLog
	actNAT
	actConnMarkSet     // ct mark = (ctmark & and) ^ xor   (ctmark unknown: recorded only)
	actConnMarkSave    // ct mark = mark & and
	actConnMarkRestore // mark = ctmark & and (ct mark unknown -> treated as 0 under mask)
	actDSCP
	actFlowOffload
	actVMap // verdict map lookup on an interface name
)

type action struct {
	kind     actKind
	target   string // chain for jump/goto, map name for vmap
	and, xor uint32
	log      LogHit
	dscp     uint8
	vmapIn   bool // vmap keyed on the input (true) or output (false) interface
}

// evalState is the mutable state of one walk.
type evalState struct {
	pkt Packet // private copy, Mark is updated in place
	res *Result
}

type matcher func(s *evalState) bool

// op is one element of a rule: a match or a (non-terminal or terminal) statement.  iptables
// rules are a list of matches followed by exactly one action; nft rules are evaluated left to
// right and may interleave them.
type op struct {
	match matcher // non-nil: a match
	act   *action // non-nil: a statement
}

// Rule is one parsed rule.
type Rule struct {
	Text string
	ops  []op
	// referenced objects, for load-time validation
	chains []string
	sets   []setRef
	vmaps  []string
}

type setRef struct {
	name   string
	ipport bool // must be an (ip,proto,port) set (nft only; iptables does not type-check)
	typed  bool
}

// Chain is an ordered list of rules.
type Chain struct {
	Name  string
	Rules []*Rule
	// for base chains fed through Table(): rules from AppendRules go after those from
	// InsertOrAppendRules
	appended []*Rule
}

// Set is an IP set as the dataplane holds it.
type Set struct {
	Name string
	*refpolicy.IPSet
	// IPPort: the set's type is hash:ip,port / (addr . proto . port); otherwise hash:net.
	IPPort bool
	V6     bool
}

// VMapEntry is the verdict stored under one key of a verdict map.
type VMapEntry struct {
	Goto   string // non-empty: goto/jump this chain
	Jump   bool
	Action string // "return", "accept", "drop", "continue" when Goto is empty
}

// Ruleset is one chain namespace: an iptables table (raw, mangle, filter ...) or an nftables
// table (all Felix layers, or a single one - chain names are prefixed by the layer).
type Ruleset struct {
	Flavor    Flavor
	IPVersion uint8
	chains    map[string]*Chain
	order     []string
	sets      map[string]*Set
	vmaps     map[string]map[string]VMapEntry
	errs      []*Error
	// MaxSteps bounds one walk (default 100000 rule evaluations).
	MaxSteps int
}

// NewRuleset creates an empty chain namespace for the given rule language and IP version.
func NewRuleset(f Flavor, ipVersion uint8) *Ruleset {
	return &Ruleset{Flavor: f, IPVersion: ipVersion, chains: map[string]*Chain{}, sets: map[string]*Set{},
		vmaps: map[string]map[string]VMapEntry{}, MaxSteps: 100000}
}

func (rs *Ruleset) chain(name string) *Chain {
	c := rs.chains[name]
	if c == nil {
		c = &Chain{Name: name}
		rs.chains[name] = c
		rs.order = append(rs.order, name)
	}
	return c
}

// EnsureChain creates the chain if it does not exist (an empty chain, or a built-in one).
func (rs *Ruleset) EnsureChain(name string) { rs.chain(name) }

// HasChain reports whether the chain exists.
func (rs *Ruleset) HasChain(name string) bool { return rs.chains[name] != nil }

// ChainLen returns the number of rules in a chain (-1 if absent).
func (rs *Ruleset) ChainLen(name string) int {
	c := rs.chains[name]
	if c == nil {
		return -1
	}
	return len(c.Rules) + len(c.appended)
}

func (rs *Ruleset) recordErr(err error) {
	var e *Error
	if errors.As(err, &e) {
		rs.errs = append(rs.errs, e)
	} else if err != nil {
		rs.errs = append(rs.errs, &Error{Kind: Unparsed, Flavor: rs.Flavor, Msg: err.Error()})
	}
}

// Parse parses one rendered rule without adding it.
func (rs *Ruleset) Parse(chain, text string) (*Rule, error) {
	var r *Rule
	var err error
	if rs.Flavor == NFT {
		r, err = parseNft(rs, text)
	} else {
		r, err = parseIptables(rs, text)
	}
	if err != nil {
		var e *Error
		if errors.As(err, &e) {
			e.Chain, e.Flavor = chain, rs.Flavor
			if e.Text == "" {
				e.Text = text
			}
		}
		return nil, err
	}
	return r, nil
}

// AddRule parses text and appends it to the chain (created if absent).  For iptables the text
// is a rule as written to iptables-restore, with or without the leading "-A <chain>"; for nft
// it is the rule text as knftables receives it.  The error is also remembered for Err().
func (rs *Ruleset) AddRule(chain, text string) error {
	c := rs.chain(chain)
	r, err := rs.Parse(chain, text)
	if err != nil {
		rs.recordErr(err)
		return err
	}
	c.Rules = append(c.Rules, r)
	return nil
}

// ReplaceChain sets the chain's rules (like UpdateChain).
func (rs *Ruleset) ReplaceChain(chain string, texts []string) error {
	c := rs.chain(chain)
	c.Rules = nil
	var first error
	for _, t := range texts {
		if err := rs.AddRule(chain, t); err != nil && first == nil {
			first = err
		}
	}
	return first
}

// AddSet registers an IP set under its dataplane name (for nft the legalised name).  Whether
// the set is an (ip,proto,port) set is taken from ipport, its family from the ruleset.
func (rs *Ruleset) AddSet(name string, s *refpolicy.IPSet, ipport bool) {
	if s == nil {
		s = &refpolicy.IPSet{}
	}
	rs.sets[name] = &Set{Name: name, IPSet: s, IPPort: ipport, V6: rs.IPVersion == 6}
}

// AddVMap registers a verdict map keyed by interface name.  Values are the strings Felix
// renders: "goto <chain>", "jump <chain>", "return", "accept", "drop".
func (rs *Ruleset) AddVMap(name string, members map[string]string) error {
	m := map[string]VMapEntry{}
	for k, v := range members {
		f := strings.Fields(v)
		switch {
		case len(f) == 2 && (f[0] == "goto" || f[0] == "jump"):
			m[k] = VMapEntry{Goto: f[1], Jump: f[0] == "jump"}
		case len(f) == 1 && (f[0] == "return" || f[0] == "accept" || f[0] == "drop" || f[0] == "continue"):
			m[k] = VMapEntry{Action: f[0]}
		default:
			err := &Error{Kind: Unparsed, Flavor: rs.Flavor, Chain: name, Text: v, Msg: "unknown verdict map value"}
			rs.recordErr(err)
			return err
		}
	}
	rs.vmaps[name] = m
	return nil
}

// Err returns the first load error recorded so far, preferring Unparsed over Rejected, plus
// dangling references (jump/goto to a missing chain, missing or wrongly typed set, missing
// verdict map) which the real front ends refuse.
func (rs *Ruleset) Err() error {
	for _, e := range rs.errs {
		if e.Kind == Unparsed {
			return e
		}
	}
	if len(rs.errs) > 0 {
		return rs.errs[0]
	}
	return rs.Validate()
}

// Validate checks references between the loaded objects.
func (rs *Ruleset) Validate() error {
	names := append([]string(nil), rs.order...)
	sort.Strings(names)
	for _, n := range names {
		c := rs.chains[n]
		for _, r := range append(append([]*Rule(nil), c.Rules...), c.appended...) {
			for _, t := range r.chains {
				if rs.chains[t] == nil {
					return &Error{Kind: Rejected, Flavor: rs.Flavor, Chain: n, Text: r.Text, Class: "missing-chain", Msg: "jump/goto to missing chain " + t}
				}
			}
			for _, sr := range r.sets {
				s := rs.sets[sr.name]
				if s == nil {
					return &Error{Kind: Rejected, Flavor: rs.Flavor, Chain: n, Text: r.Text, Class: "missing-set", Msg: "reference to missing set " + sr.name}
				}
				if sr.typed && s.IPPort != sr.ipport {
					return &Error{Kind: Rejected, Flavor: rs.Flavor, Chain: n, Text: r.Text, Class: "set-type", Msg: "set " + sr.name + " has the wrong type for this lookup"}
				}
			}
			for _, m := range r.vmaps {
				if rs.vmaps[m] == nil {
					return &Error{Kind: Rejected, Flavor: rs.Flavor, Chain: n, Text: r.Text, Class: "missing-vmap", Msg: "reference to missing verdict map " + m}
				}
			}
		}
	}
	for mn, m := range rs.vmaps {
		for k, e := range m {
			if e.Goto != "" && rs.chains[e.Goto] == nil {
				return &Error{Kind: Rejected, Flavor: rs.Flavor, Chain: mn, Text: k, Class: "missing-chain", Msg: "verdict map element refers to missing chain " + e.Goto}
			}
		}
	}
	return nil
}

// Dump renders all chains (sorted by name) as text for witnesses.
func (rs *Ruleset) Dump() string {
	names := append([]string(nil), rs.order...)
	sort.Strings(names)
	var b strings.Builder
	for _, n := range names {
		c := rs.chains[n]
		fmt.Fprintf(&b, "chain %s\n", n)
		for i, r := range c.Rules {
			fmt.Fprintf(&b, "  [%d] %s\n", i, r.Text)
		}
		for i, r := range c.appended {
			fmt.Fprintf(&b, "  [%d] %s\n", len(c.Rules)+i, r.Text)
		}
	}
	mn := make([]string, 0, len(rs.vmaps))
	for n := range rs.vmaps {
		mn = append(mn, n)
	}
	sort.Strings(mn)
	for _, n := range mn {
		keys := make([]string, 0, len(rs.vmaps[n]))
		for k := range rs.vmaps[n] {
			keys = append(keys, k)
		}
		sort.Strings(keys)
		fmt.Fprintf(&b, "vmap %s\n", n)
		for _, k := range keys {
			e := rs.vmaps[n][k]
			if e.Goto != "" {
				fmt.Fprintf(&b, "  %s : goto %s\n", k, e.Goto)
			} else {
				fmt.Fprintf(&b, "  %s : %s\n", k, e.Action)
			}
		}
	}
	return b.String()
}

// ChainTexts returns the rule texts of one chain in order (nil if the chain is absent).
func (rs *Ruleset) ChainTexts(name string) []string {
	c := rs.chains[name]
	if c == nil {
		return nil
	}
	var out []string
	for _, r := range append(append([]*Rule(nil), c.Rules...), c.appended...) {
		out = append(out, r.Text)
	}
	return out
}

// DumpChain renders one chain.
func (rs *Ruleset) DumpChain(name string) string {
	c := rs.chains[name]
	if c == nil {
		return "chain " + name + " (missing)\n"
	}
	var b strings.Builder
	fmt.Fprintf(&b, "chain %s\n", name)
	for i, r := range append(append([]*Rule(nil), c.Rules...), c.appended...) {
		fmt.Fprintf(&b, "  [%d] %s\n", i, r.Text)
	}
	return b.String()
}

type frame struct {
	chain *Chain
	idx   int
}

// Run walks the rules starting at the first rule of chain start, with kernel semantics:
// rules in order; a rule whose matches all hold executes its action; jump pushes a return
// point, goto does not; RETURN (or the end of a chain) resumes after the last jump, or ends
// the walk with FellThrough when there is none; ACCEPT / DROP / REJECT (and NAT targets) end
// the walk; MARK sets mark = (mark & ^mask) ^ value as the kernel does.
func (rs *Ruleset) Run(start string, pkt *Packet) (*Result, error) {
	c := rs.chains[start]
	if c == nil {
		return nil, &Error{Kind: Rejected, Flavor: rs.Flavor, Chain: start, Class: "missing-chain", Msg: "start chain does not exist"}
	}
	res := &Result{}
	st := &evalState{pkt: *pkt, res: res}
	var stack []frame
	cur := frame{chain: c}
	res.Visited = append(res.Visited, c.Name)
	steps := 0
	enter := func(name string) (*Chain, error) {
		t := rs.chains[name]
		if t == nil {
			return nil, &Error{Kind: Rejected, Flavor: rs.Flavor, Chain: cur.chain.Name, Class: "missing-chain", Msg: "jump/goto to missing chain " + name}
		}
		seen := false
		for _, v := range res.Visited {
			if v == name {
				seen = true
				break
			}
		}
		if !seen {
			res.Visited = append(res.Visited, name)
		}
		return t, nil
	}
	for {
		rules := cur.chain.Rules
		nr := len(rules) + len(cur.chain.appended)
		if cur.idx >= nr {
			// end of chain: implicit return
			if len(stack) == 0 {
				res.Verdict, res.Mark = FellThrough, st.pkt.Mark
				return res, nil
			}
			cur = stack[len(stack)-1]
			stack = stack[:len(stack)-1]
			continue
		}
		steps++
		if steps > rs.MaxSteps {
			return nil, &Error{Kind: Runtime, Flavor: rs.Flavor, Chain: cur.chain.Name, Msg: "step limit exceeded (loop?)"}
		}
		var r *Rule
		if cur.idx < len(rules) {
			r = rules[cur.idx]
		} else {
			r = cur.chain.appended[cur.idx-len(rules)]
		}
		ruleIdx := cur.idx
		cur.idx++
		matched := true
		var term *action
	ops:
		for _, o := range r.ops {
			switch {
			case o.match != nil:
				if !o.match(st) {
					matched = false
					break ops
				}
			case o.act != nil:
				a := o.act
				switch a.kind {
				case actMark:
					st.pkt.Mark = (st.pkt.Mark & a.and) ^ a.xor
				case actNoTrack:
					res.NoTrack = true
				case actLog:
					res.Logs = append(res.Logs, a.log)
				case actConnMarkSet:
					v := a.xor
					res.ConnMark = &v
				case actConnMarkSave:
					v := st.pkt.Mark & a.and
					res.ConnMark = &v
				case actConnMarkRestore:
					st.pkt.Mark = st.pkt.Mark &^ a.and
				case actDSCP:
					v := a.dscp
					res.DSCP = &v
				case actFlowOffload:
					res.FlowOffload = true
				case actNone:
				default:
					term = a
					break ops
				}
			}
		}
		if !matched {
			continue
		}
		res.Trace = append(res.Trace, Step{Chain: cur.chain.Name, Index: ruleIdx, Text: r.Text})
		if term == nil {
			continue
		}
		if term.kind == actVMap {
			key := st.pkt.OutIface
			if term.vmapIn {
				key = st.pkt.InIface
			}
			m := rs.vmaps[term.target]
			if m == nil {
				return nil, &Error{Kind: Rejected, Flavor: rs.Flavor, Chain: cur.chain.Name, Text: r.Text, Class: "missing-vmap", Msg: "missing verdict map " + term.target}
			}
			e, ok := m[key]
			if !ok || key == "" {
				// no element: the rule does not match, evaluation continues
				res.Trace = res.Trace[:len(res.Trace)-1]
				continue
			}
			switch {
			case e.Goto != "" && e.Jump:
				term = &action{kind: actJump, target: e.Goto}
			case e.Goto != "":
				term = &action{kind: actGoto, target: e.Goto}
			case e.Action == "return":
				term = &action{kind: actReturn}
			case e.Action == "accept":
				term = &action{kind: actAccept}
			case e.Action == "drop":
				term = &action{kind: actDrop}
			default:
				continue
			}
		}
		switch term.kind {
		case actAccept:
			res.Verdict, res.Mark = Accept, st.pkt.Mark
			return res, nil
		case actDrop:
			res.Verdict, res.Mark = Drop, st.pkt.Mark
			return res, nil
		case actReject:
			res.Verdict, res.Mark = Reject, st.pkt.Mark
			return res, nil
		case actNAT:
			res.Verdict, res.Mark = NAT, st.pkt.Mark
			return res, nil
		case actReturn:
			if len(stack) == 0 {
				res.Verdict, res.Mark, res.Returned = FellThrough, st.pkt.Mark, true
				return res, nil
			}
			cur = stack[len(stack)-1]
			stack = stack[:len(stack)-1]
		case actJump:
			t, err := enter(term.target)
			if err != nil {
				return nil, err
			}
			stack = append(stack, cur)
			if len(stack) > 64 {
				return nil, &Error{Kind: Runtime, Flavor: rs.Flavor, Chain: cur.chain.Name, Text: r.Text, Msg: "jump stack deeper than 64"}
			}
			cur = frame{chain: t}
		case actGoto:
			t, err := enter(term.target)
			if err != nil {
				return nil, err
			}
			cur = frame{chain: t}
		}
	}
}

// ---- helpers shared by the parsers

var protoNumbers = map[string]int{
	"icmp": 1, "ipip": 4, "ipencap": 4, "tcp": 6, "udp": 17, "icmpv6": 58, "ipv6-icmp": 58, "sctp": 132, "udplite": 136,
	"esp": 50, "ah": 51, "gre": 47, "dccp": 33,
}

func lookupProto(s string) (int, bool) {
	if n, ok := protoNumbers[strings.ToLower(s)]; ok {
		return n, true
	}
	n := 0
	if s == "" {
		return 0, false
	}
	for _, ch := range s {
		if ch < '0' || ch > '9' {
			return 0, false
		}
		n = n*10 + int(ch-'0')
		if n > 255 {
			return 0, false
		}
	}
	return n, true
}

func ifaceMatch(pattern, wildcard, name string) bool {
	if name == "" {
		return false
	}
	if strings.HasSuffix(pattern, wildcard) {
		return strings.HasPrefix(name, strings.TrimSuffix(pattern, wildcard))
	}
	return pattern == name
}

// thPorts returns what a raw 16-bit read of the transport header at offsets 0 and 2 yields.
func thPorts(p *Packet) (sport, dport uint16) {
	switch {
	case refpolicy.HasPorts(p.Proto) || p.Proto == refpolicy.ProtoUDPLite || p.Proto == 33:
		return p.SrcPort, p.DstPort
	case p.Proto == refpolicy.ProtoICMP || p.Proto == refpolicy.ProtoICMPv6:
		return uint16(p.ICMPType)<<8 | uint16(p.ICMPCode), 0
	}
	return 0, 0
}

func unparsed(msg, text string) error { return &Error{Kind: Unparsed, Msg: msg, Text: text} }
func rejected(class, msg, text string) error {
	return &Error{Kind: Rejected, Class: class, Msg: msg, Text: text}
}

// Package dsched is a deterministic cooperative scheduler for checks that drive concurrent
// clients of internal/casstore.
//
// Client goroutines ("tasks") park in the store's pre-operation hook by calling Task.Yield; one
// scheduler goroutine (the caller of Run) waits until no task is running, picks exactly one
// parked task according to its strategy, records the pick and releases it.  Because the code
// between two datastore operations is pure computation, the recorded list of picks IS the
// schedule: Replay(decisions) re-executes it.
//
//	s := dsched.New(dsched.Options{Mode: dsched.PCT, Rand: c.R, Depth: 3, ExpectedSteps: 200})
//	for i, cl := range clients {
//	    t := s.Go(fmt.Sprintf("client-%d", i), func(t *dsched.Task) { runScript(cl) })
//	    taskOf[cl.ID] = t
//	}
//	store.PreOp = func(op *casstore.Op) casstore.Fault { taskOf[op.Client.ID].Yield(); return decideFault(op) }
//	err := s.Run(30 * time.Second)      // ErrStuck => the case is inconclusive
//	schedule := s.Decisions()
//
// Modes:
//
//	Uniform  every step picks uniformly among the parked tasks.
//	PCT      each task gets a distinct random priority; the highest-priority parked task runs;
//	         at Depth-1 random step numbers (drawn in [0,ExpectedSteps)) the task running at that
//	         step drops to the lowest priority (Burckhardt et al., "A randomized scheduler with
//	         probabilistic guarantees of finding bugs").
//	Replay   follows a recorded decision list; when the recorded task is not parked (divergence)
//	         Divergences is incremented.  Past the end of the list (and on divergence) the task
//	         that ran last keeps running if it is parked (no preemption), otherwise the
//	         lowest-numbered parked task runs.  A decision list may therefore be a PREFIX; this is
//	         what Explore uses to enumerate schedules systematically.
//	Free     no scheduling at all: tasks run as ordinary goroutines and Yield only occasionally
//	         calls runtime.Gosched.  Not replayable; for runs under the Go race detector.
//
// Determinism needs every task to have at most one goroutine inside the code under test at a
// time.  A second goroutine of the same task that reaches Yield while the task is already parked
// (the code under test fanned out) is let through without parking and counted in Overlaps;
// nothing deadlocks, but the run is then not exactly replayable.
//
// The PRNG passed in Options.Rand is only used by the scheduler goroutine between steps (while
// every task is parked), so tasks may use the same PRNG after Yield returns without racing.
package dsched

import (
	"errors"
	"math/rand"
	"runtime"
	"runtime/debug"
	"sort"
	"sync"
	"sync/atomic"
	"time"
)

// Mode selects the scheduling strategy.
type Mode int

const (
	Uniform Mode = iota
	PCT
	Replay
	Free
)

func (m Mode) String() string { return [...]string{"uniform", "pct", "replay", "free"}[m] }

// Options configures a Scheduler.
type Options struct {
	Mode Mode
	// Rand is the case PRNG (required for Uniform and PCT).
	Rand *rand.Rand
	// Depth is PCT's bug depth d (d-1 priority change points); default 3.
	Depth int
	// ExpectedSteps is PCT's estimate k of the number of scheduling steps; default 200.
	ExpectedSteps int
	// Decisions is the recorded schedule to follow in Replay mode.
	Decisions []int
}

// StepInfo describes one scheduling step: which tasks were parked, which one ran at the previous
// step (-1 at the start) and which one was chosen.
type StepInfo struct {
	Chosen int
	Parked []int
	Prev   int
}

// Panic is a panic recovered from a task function.
type Panic struct {
	Task  string
	Value any
	Stack string
}

// ErrStuck is returned by Run when the watchdog expired: some task neither finished nor reached
// a yield point (blocked outside the store).  The case must be reported as inconclusive.
var ErrStuck = errors.New("dsched: watchdog expired, a task is blocked outside a yield point")

const (
	stNew = iota
	stParked
	stRunning
	stDone
)

// Task is one logical thread of the schedule.
type Task struct {
	ID   int
	Name string

	s     *Scheduler
	fn    func(t *Task)
	state int
	wake  chan struct{}
	prio  int
}

// Scheduler coordinates the tasks of one case.
type Scheduler struct {
	opts Options

	mu        sync.Mutex
	cond      *sync.Cond
	tasks     []*Task
	running   int
	decisions []int
	trace     []StepInfo
	abandoned bool
	started   bool

	changeAt map[int]bool // PCT change points (step numbers)
	lowPrio  int

	// Overlaps counts Yield calls that found their task already parked (fan-out in the code
	// under test).  Divergences counts replay steps whose recorded task was not parked.
	Overlaps    atomic.Int64
	Divergences int
	Panics      []Panic // panics recovered from task functions (the task is marked done)
}

// New creates a scheduler.
func New(opts Options) *Scheduler {
	if opts.Depth <= 0 {
		opts.Depth = 3
	}
	if opts.ExpectedSteps <= 0 {
		opts.ExpectedSteps = 200
	}
	s := &Scheduler{opts: opts, changeAt: map[int]bool{}}
	s.cond = sync.NewCond(&s.mu)
	return s
}

// Mode returns the scheduler's mode.
func (s *Scheduler) Mode() Mode { return s.opts.Mode }

// Go registers a task.  Its function starts (parked, waiting for its first turn) when Run is
// called.  Must be called before Run.
func (s *Scheduler) Go(name string, fn func(t *Task)) *Task {
	t := &Task{ID: len(s.tasks), Name: name, s: s, fn: fn, wake: make(chan struct{}, 1)}
	s.tasks = append(s.tasks, t)
	return t
}

// Yield is the scheduling point: it parks the calling task until the scheduler picks it again.
// In Free mode it returns immediately (sometimes after runtime.Gosched).
func (t *Task) Yield() {
	s := t.s
	if s.opts.Mode == Free {
		if fastrand()%4 == 0 {
			runtime.Gosched()
		}
		return
	}
	s.mu.Lock()
	if s.abandoned {
		s.mu.Unlock()
		return
	}
	if t.state != stRunning {
		// Another goroutine of this task is already parked (or the task is finished): do not
		// park a second one, that could deadlock the code under test.
		s.mu.Unlock()
		s.Overlaps.Add(1)
		return
	}
	t.state = stParked
	s.running--
	s.cond.Broadcast()
	s.mu.Unlock()
	<-t.wake
}

var frState atomic.Uint64

func fastrand() uint64 {
	x := frState.Add(0x9e3779b97f4a7c15)
	x = (x ^ (x >> 30)) * 0xbf58476d1ce4e5b9
	x = (x ^ (x >> 27)) * 0x94d049bb133111eb
	return x ^ (x >> 31)
}

func (s *Scheduler) runTask(t *Task, wg *sync.WaitGroup) {
	defer wg.Done()
	if s.opts.Mode != Free {
		<-t.wake // first turn
	}
	defer func() {
		r := recover()
		stack := ""
		if r != nil {
			stack = string(debug.Stack())
		}
		s.mu.Lock()
		if r != nil {
			s.Panics = append(s.Panics, Panic{Task: t.Name, Value: r, Stack: stack})
		}
		if t.state == stRunning {
			s.running--
		}
		t.state = stDone
		s.cond.Broadcast()
		s.mu.Unlock()
	}()
	t.fn(t)
}

// Run starts every task and schedules them until all have finished.  It returns ErrStuck if the
// watchdog expires first; the remaining goroutines are then released to run freely (abandoned)
// so that they can drain.
func (s *Scheduler) Run(watchdog time.Duration) error {
	if s.started {
		return errors.New("dsched: Run called twice")
	}
	s.started = true
	var wg sync.WaitGroup
	wg.Add(len(s.tasks))

	if s.opts.Mode == Free {
		for _, t := range s.tasks {
			t.state = stRunning
			go s.runTask(t, &wg)
		}
		done := make(chan struct{})
		go func() { wg.Wait(); close(done) }()
		select {
		case <-done:
			return nil
		case <-time.After(watchdog):
			return ErrStuck
		}
	}

	if s.opts.Mode == PCT {
		// Distinct priorities d, d+1, ..., d+n-1 in random order; change points lower a task to
		// d-1, d-2, ...
		n := len(s.tasks)
		perm := s.opts.Rand.Perm(n)
		for i, t := range s.tasks {
			t.prio = s.opts.Depth + perm[i]
		}
		s.lowPrio = s.opts.Depth - 1
		for i := 0; i < s.opts.Depth-1; i++ {
			s.changeAt[s.opts.Rand.Intn(s.opts.ExpectedSteps)] = true
		}
	}

	for _, t := range s.tasks {
		t.state = stParked
		go s.runTask(t, &wg)
	}

	timedOut := false
	timer := time.AfterFunc(watchdog, func() {
		s.mu.Lock()
		timedOut = true
		s.cond.Broadcast()
		s.mu.Unlock()
	})
	defer timer.Stop()

	step := 0
	for {
		s.mu.Lock()
		for s.running > 0 && !timedOut {
			s.cond.Wait()
		}
		if timedOut && s.running > 0 {
			s.abandoned = true
			for _, t := range s.tasks {
				if t.state == stParked {
					t.state = stRunning
					select {
					case t.wake <- struct{}{}:
					default:
					}
				}
			}
			s.mu.Unlock()
			return ErrStuck
		}
		var parked []*Task
		for _, t := range s.tasks {
			if t.state == stParked {
				parked = append(parked, t)
			}
		}
		if len(parked) == 0 {
			s.mu.Unlock()
			break
		}
		ids := make([]int, len(parked))
		for i, t := range parked {
			ids[i] = t.ID
		}
		prev := -1
		if len(s.decisions) > 0 {
			prev = s.decisions[len(s.decisions)-1]
		}
		pick := s.choose(parked, step)
		s.decisions = append(s.decisions, pick.ID)
		s.trace = append(s.trace, StepInfo{Chosen: pick.ID, Parked: ids, Prev: prev})
		pick.state = stRunning
		s.running++
		s.mu.Unlock()
		pick.wake <- struct{}{}
		step++
	}
	wg.Wait()
	return nil
}

// choose picks the next task among the parked ones (sorted by ID).  Called with the lock held.
func (s *Scheduler) choose(parked []*Task, step int) *Task {
	switch s.opts.Mode {
	case Replay:
		if step < len(s.opts.Decisions) {
			want := s.opts.Decisions[step]
			for _, t := range parked {
				if t.ID == want {
					return t
				}
			}
			s.Divergences++
		}
		if n := len(s.decisions); n > 0 {
			for _, t := range parked {
				if t.ID == s.decisions[n-1] {
					return t // keep running the same task: no preemption
				}
			}
		}
		return parked[0]
	case PCT:
		byPrio := func(i, j int) bool { return parked[i].prio > parked[j].prio }
		sort.Slice(parked, byPrio)
		if s.changeAt[step] {
			// Change point: the task that would run now drops below everything else.
			parked[0].prio = s.lowPrio
			s.lowPrio--
			sort.Slice(parked, byPrio)
		}
		return parked[0]
	default:
		return parked[s.opts.Rand.Intn(len(parked))]
	}
}

// Decisions returns the recorded schedule: the task ID released at each step.
func (s *Scheduler) Decisions() []int {
	s.mu.Lock()
	defer s.mu.Unlock()
	return append([]int(nil), s.decisions...)
}

// Trace returns the recorded scheduling steps (with the alternatives that were available).
func (s *Scheduler) Trace() []StepInfo {
	s.mu.Lock()
	defer s.mu.Unlock()
	return append([]StepInfo(nil), s.trace...)
}

// Explore enumerates schedules depth-first, each exactly once, with at most maxPreempt
// preemptions (a preemption = running another task although the task that ran last is still
// parked, i.e. could have continued).  run must execute a FRESH instance of the scenario under a
// Replay scheduler whose Decisions are the given prefix and return that scheduler's Trace; it
// returns false to stop the exploration.  The scenario must be deterministic given the decisions.
// Explore stops after maxRuns runs (0 = unlimited) and reports whether it was cut short.
func Explore(maxPreempt, maxRuns int, run func(prefix []int) (trace []StepInfo, cont bool)) (runs int, truncated bool) {
	stack := [][]int{{}}
	for len(stack) > 0 {
		if maxRuns > 0 && runs >= maxRuns {
			return runs, true
		}
		prefix := stack[len(stack)-1]
		stack = stack[:len(stack)-1]
		trace, cont := run(prefix)
		runs++
		if !cont {
			return runs, len(stack) > 0
		}
		// cumulative preemption count along the trace
		pre := 0
		var children [][]int
		for i, st := range trace {
			prevParked := false
			for _, id := range st.Parked {
				if id == st.Prev {
					prevParked = true
				}
			}
			if i >= len(prefix) {
				for _, alt := range st.Parked {
					if alt == st.Chosen {
						continue
					}
					cost := pre
					if prevParked && alt != st.Prev {
						cost++
					}
					if cost > maxPreempt {
						continue
					}
					child := make([]int, i+1)
					for j := 0; j < i; j++ {
						child[j] = trace[j].Chosen
					}
					child[i] = alt
					children = append(children, child)
				}
			}
			if prevParked && st.Chosen != st.Prev {
				pre++
			}
		}
		// push in reverse so that the earliest branch point is explored first
		for i := len(children) - 1; i >= 0; i-- {
			stack = append(stack, children[i])
		}
	}
	return runs, false
}

// Steps returns the number of scheduling steps taken so far.
func (s *Scheduler) Steps() int {
	s.mu.Lock()
	defer s.mu.Unlock()
	return len(s.decisions)
}

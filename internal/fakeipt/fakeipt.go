// Package fakeipt is a fake of one IP version's iptables facility as seen through the
// iptables-save / iptables-restore command line tools, for driving felix/iptables.Table.
//
// What is modelled (and why this is the real behaviour):
//
//   - A table is a set of chains (built-in chains with a policy, user chains), each an ordered list of
//     rules.  Rules are stored and printed in iptables-save's canonical spelling, which differs from
//     what a client writes: long options are printed short (--jump X => -j X, --goto => -g, --protocol
//     => -p, --source => -s, ...), bare addresses get /32 (/128), comment / log-prefix values are
//     quoted only when they contain a character outside [_-0-9a-zA-Z] (xtables_save_string).  A client
//     must therefore not assume that rules round-trip textually (Felix's design goal 4).
//   - iptables-save -t T prints "# Generated", "*T", one ":CHAIN POLICY [pkts:bytes]" line per chain,
//     then the "-A CHAIN rule" lines, "COMMIT", "# Completed".
//   - iptables-restore --noflush parses each "*T ... COMMIT" block against a private copy of the
//     table and swaps the copy in at COMMIT: a block is ATOMIC (any refused line => nothing of that
//     block is applied, the tool stops with exit status 1; blocks committed earlier in the same
//     invocation stay committed - each COMMIT is its own kernel transaction).
//   - ":CHAIN - -" creates the user chain if missing and flushes it if present; -A/-I [n]/-R n/-D n/
//     -D spec/-F/-N/-X (--delete-chain) behave as in iptables(8).  Refused: any rule command on a
//     missing chain; rule number out of range; -D by spec with no matching rule; a rule whose -j/-g
//     target is neither a known extension target nor an existing user chain; jumping to a built-in
//     chain; -N of an existing chain; -X of a missing, built-in, non-empty or still referenced chain;
//     chain names longer than 28 characters; a jump loop (checked at COMMIT, as the kernel does).
//   - nft backend mode: a chain that had references when the block started cannot be deleted in that
//     block even if the referring rules are deleted earlier in the block (the behaviour Felix's
//     "restart the transaction between updates and deletions" workaround exists for).
//
// What is NOT modelled: rule semantics/validation of match options, packet counters (printed as
// arbitrary numbers), the xtables lock (no concurrent writers), policies being changed by restore,
// iptables-nft's rule-index bug in -R (<1.8.3), ip6tables-specific syntax, exit codes other than 0/1.
package fakeipt

import (
	"bytes"
	"errors"
	"fmt"
	"io"
	"math/rand"
	"sort"
	"strconv"
	"strings"
	"sync"

	"github.com/projectcalico/calico/felix/iptables/cmdshim"
)

// Chain is one chain of a table.
type Chain struct {
	Name    string
	Builtin bool
	Policy  string // built-in chains only
	Rules   []string
}

func (c *Chain) clone() *Chain {
	n := *c
	n.Rules = append([]string(nil), c.Rules...)
	return &n
}

// Table is one table.
type Table struct {
	Name   string
	Chains map[string]*Chain
	Order  []string // creation order
}

func (t *Table) clone() *Table {
	n := &Table{Name: t.Name, Chains: make(map[string]*Chain, len(t.Chains)), Order: append([]string(nil), t.Order...)}
	for k, c := range t.Chains {
		n.Chains[k] = c.clone()
	}
	return n
}

// Describe renders the table canonically (chains sorted), for comparisons and witnesses.
func (t *Table) Describe() []string {
	names := make([]string, 0, len(t.Chains))
	for n := range t.Chains {
		names = append(names, n)
	}
	sort.Strings(names)
	var out []string
	for _, n := range names {
		c := t.Chains[n]
		pol := "-"
		if c.Builtin {
			pol = c.Policy
		}
		out = append(out, ":"+n+" "+pol)
		for _, r := range c.Rules {
			out = append(out, "-A "+n+" "+r)
		}
	}
	return out
}

var builtinChains = map[string][]string{
	"filter": {"INPUT", "FORWARD", "OUTPUT"},
	"nat":    {"PREROUTING", "INPUT", "OUTPUT", "POSTROUTING"},
	"mangle": {"PREROUTING", "INPUT", "FORWARD", "OUTPUT", "POSTROUTING"},
	"raw":    {"PREROUTING", "OUTPUT"},
}

// extension targets (everything else after -j/-g must be a user chain).
var extTargets = map[string]bool{"ACCEPT": true, "DROP": true, "RETURN": true, "QUEUE": true, "REJECT": true, "LOG": true, "MARK": true,
	"CONNMARK": true, "NFLOG": true, "DNAT": true, "SNAT": true, "MASQUERADE": true, "NOTRACK": true, "CT": true, "DSCP": true,
	"TCPMSS": true, "REDIRECT": true, "CHECKSUM": true, "NFQUEUE": true, "TRACE": true, "TPROXY": true, "SET": true, "CLASSIFY": true}

// FaultPoint identifies where a command can fail.
type FaultPoint struct {
	Cmd   string // "save" | "restore"
	Seq   int    // 1-based per Cmd kind
	Block int    // restore: 0 = before the first block is parsed; b>0 = at the COMMIT of block b; -1 = after the last block
	Table string
}

// Fault modes.
const (
	SaveFailPipe     = "pipe"         // StdoutPipe() fails
	SaveFailStart    = "start"        // Start() fails
	SaveFailExit     = "fail"         // no output, exit status 1
	SaveTruncate     = "truncate"     // output stops half way, exit status 1
	SaveIncompatible = "incompatible" // nft: "# Table `x' is incompatible, use 'nft' tool." and exit status 0
	RestoreFail      = "fail"         // the block (Block>0) is not committed / nothing is parsed (Block==0) / exit 1 after everything was committed (Block==-1)
)

// Op is one parsed restore line.
type Op struct {
	Kind  string // ":" | "-A" | "-I" | "-R" | "-D" | "-X" | "-F" | "-N"
	Chain string
	Text  string
}

// Block is one *table ... COMMIT section of a restore invocation.
type Block struct {
	Table     string
	Ops       []Op
	Committed bool
	Err       string
	Before    *Table // state the block was applied to (set only when Kernel.KeepBefore)
}

// RestoreEvent describes one iptables-restore invocation.
type RestoreEvent struct {
	Seq    int
	Name   string
	Args   []string
	Blocks []Block
	Err    string
	Fault  string
}

// Kernel is the fake for one IP version.
type Kernel struct {
	mu        sync.Mutex
	IPVersion int
	Mode      string // "legacy" | "nft"
	tables    map[string]*Table
	rnd       *rand.Rand

	Fault      func(p FaultPoint) string
	OnSave     func(seq int, table string, fault string) // called (unlocked) when a save starts
	PreRestore func(seq int)                              // called (unlocked) before a restore parses its input
	OnRestore  func(ev *RestoreEvent)                     // called (unlocked) after a restore finished
	KeepBefore bool

	seq map[string]int
	Log []string
}

// New creates a kernel with the four standard tables, all built-in chains empty with policy ACCEPT.
func New(ipVersion int, mode string, seed int64) *Kernel {
	k := &Kernel{IPVersion: ipVersion, Mode: mode, tables: map[string]*Table{}, rnd: rand.New(rand.NewSource(seed)), seq: map[string]int{}}
	for name, chains := range builtinChains {
		t := &Table{Name: name, Chains: map[string]*Chain{}}
		for _, c := range chains {
			t.Chains[c] = &Chain{Name: c, Builtin: true, Policy: "ACCEPT"}
			t.Order = append(t.Order, c)
		}
		k.tables[name] = t
	}
	return k
}

func (k *Kernel) logf(format string, a ...any) {
	if len(k.Log) < 6000 {
		k.Log = append(k.Log, fmt.Sprintf(format, a...))
	}
}

// TailLog returns the last n log lines.
func (k *Kernel) TailLog(n int) []string {
	k.mu.Lock()
	defer k.mu.Unlock()
	if len(k.Log) <= n {
		return append([]string(nil), k.Log...)
	}
	return append([]string(nil), k.Log[len(k.Log)-n:]...)
}

// Snapshot returns a deep copy of a table.
func (k *Kernel) Snapshot(table string) *Table {
	k.mu.Lock()
	defer k.mu.Unlock()
	return k.tables[table].clone()
}

// Replace installs a whole table out of band (other software running iptables-restore without --noflush).
func (k *Kernel) Replace(t *Table) {
	k.mu.Lock()
	defer k.mu.Unlock()
	k.tables[t.Name] = t.clone()
	k.logf("OOB replace table %s", t.Name)
}

// Edit runs fn on the live table out of band; fn must keep the table consistent (use the helpers).
func (k *Kernel) Edit(table string, what string, fn func(t *Table)) {
	k.mu.Lock()
	defer k.mu.Unlock()
	fn(k.tables[table])
	k.logf("OOB %s", what)
}

// SeqCounts returns the number of commands started per kind.
func (k *Kernel) SeqCounts() map[string]int {
	k.mu.Lock()
	defer k.mu.Unlock()
	m := map[string]int{}
	for n, v := range k.seq {
		m[n] = v
	}
	return m
}

// ---- rule text ----

// Tokenise splits a rule on spaces, honouring double quotes and backslash escapes inside them.
func Tokenise(s string) ([]string, error) {
	var out []string
	var cur strings.Builder
	inTok, inQ := false, false
	for i := 0; i < len(s); i++ {
		ch := s[i]
		switch {
		case inQ:
			if ch == '\\' && i+1 < len(s) {
				i++
				cur.WriteByte(s[i])
			} else if ch == '"' {
				inQ = false
			} else {
				cur.WriteByte(ch)
			}
		case ch == '"':
			inQ, inTok = true, true
		case ch == ' ' || ch == '\t':
			if inTok {
				out = append(out, cur.String())
				cur.Reset()
				inTok = false
			}
		default:
			inTok = true
			cur.WriteByte(ch)
		}
	}
	if inQ {
		return nil, errors.New("unbalanced quote")
	}
	if inTok {
		out = append(out, cur.String())
	}
	return out, nil
}

var longToShort = map[string]string{"--jump": "-j", "--goto": "-g", "--protocol": "-p", "--proto": "-p", "--source": "-s", "--src": "-s",
	"--destination": "-d", "--dst": "-d", "--in-interface": "-i", "--out-interface": "-o", "--match": "-m"}

const noQuoteChars = "_-0123456789abcdefghijklmnopqrstuvwxyzABCDEFGHIJKLMNOPQRSTUVWXYZ"

func saveString(v string) string {
	if v != "" && strings.Trim(v, noQuoteChars) == "" {
		return v
	}
	var b strings.Builder
	b.WriteByte('"')
	for i := 0; i < len(v); i++ {
		if v[i] == '"' || v[i] == '\\' {
			b.WriteByte('\\')
		}
		b.WriteByte(v[i])
	}
	b.WriteByte('"')
	return b.String()
}

// NormaliseTokens returns the iptables-save spelling of a rule given as tokens.
func NormaliseTokens(tok []string, ipVersion int) string {
	out := make([]string, 0, len(tok))
	for i := 0; i < len(tok); i++ {
		t := tok[i]
		if s, ok := longToShort[t]; ok {
			t = s
		}
		out = append(out, t)
		switch t {
		case "--comment", "--log-prefix", "--nflog-prefix":
			if i+1 < len(tok) {
				i++
				out = append(out, saveString(tok[i]))
			}
		case "-s", "-d":
			if i+1 < len(tok) {
				i++
				v := tok[i]
				if !strings.Contains(v, "/") {
					if ipVersion == 6 {
						v += "/128"
					} else {
						v += "/32"
					}
				}
				out = append(out, v)
			}
		}
	}
	return strings.Join(out, " ")
}

// NormaliseRule is NormaliseTokens(Tokenise(s)).
func NormaliseRule(s string, ipVersion int) (string, error) {
	tok, err := Tokenise(s)
	if err != nil {
		return "", err
	}
	return NormaliseTokens(tok, ipVersion), nil
}

// Target returns the -j/-g target of a normalised rule ("" if none) and whether it is a goto.
func Target(rule string) (string, bool) {
	tok, err := Tokenise(rule)
	if err != nil {
		return "", false
	}
	for i := 0; i+1 < len(tok); i++ {
		switch tok[i] {
		case "-j", "--jump":
			return tok[i+1], false
		case "-g", "--goto":
			return tok[i+1], true
		}
	}
	return "", false
}

// refCounts returns how many rules jump to each user chain.
func refCounts(t *Table) map[string]int {
	m := map[string]int{}
	for _, c := range t.Chains {
		for _, r := range c.Rules {
			if tg, _ := Target(r); tg != "" && !extTargets[tg] {
				m[tg]++
			}
		}
	}
	return m
}

func hasLoop(t *Table) bool {
	state := map[string]int{}
	var visit func(n string) bool
	visit = func(n string) bool {
		switch state[n] {
		case 1:
			return true
		case 2:
			return false
		}
		state[n] = 1
		if c := t.Chains[n]; c != nil {
			for _, r := range c.Rules {
				if tg, _ := Target(r); tg != "" && !extTargets[tg] {
					if visit(tg) {
						return true
					}
				}
			}
		}
		state[n] = 2
		return false
	}
	for n := range t.Chains {
		if visit(n) {
			return true
		}
	}
	return false
}

// ---- restore ----

type blockState struct {
	t        *Table
	refStart map[string]int
}

func (k *Kernel) checkRule(t *Table, rule string) error {
	tg, _ := Target(rule)
	if tg == "" || extTargets[tg] {
		return nil
	}
	c, ok := t.Chains[tg]
	if !ok {
		return fmt.Errorf("Couldn't load target `%s':No such file or directory", tg)
	}
	if c.Builtin {
		return fmt.Errorf("Invalid target name `%s' (built-in chain)", tg)
	}
	return nil
}

// applyLine applies one line to the working copy.
func (k *Kernel) applyLine(bs *blockState, line string) (Op, error) {
	t := bs.t
	if strings.HasPrefix(line, ":") {
		parts := strings.Fields(line[1:])
		if len(parts) < 1 {
			return Op{}, errors.New("bad chain declaration")
		}
		name := parts[0]
		op := Op{Kind: ":", Chain: name, Text: line}
		if len(name) > 28 {
			return op, fmt.Errorf("Invalid chain name `%s' (28 chars max)", name)
		}
		if c, ok := t.Chains[name]; ok {
			if !c.Builtin {
				c.Rules = nil // user chain: flushed
			}
			return op, nil
		}
		t.Chains[name] = &Chain{Name: name}
		t.Order = append(t.Order, name)
		return op, nil
	}
	tok, err := Tokenise(line)
	if err != nil || len(tok) < 2 {
		return Op{Text: line}, fmt.Errorf("Bad argument `%s'", line)
	}
	kind := tok[0]
	switch kind {
	case "--append":
		kind = "-A"
	case "--insert":
		kind = "-I"
	case "--replace":
		kind = "-R"
	case "--delete":
		kind = "-D"
	case "--delete-chain":
		kind = "-X"
	case "--flush":
		kind = "-F"
	case "--new-chain":
		kind = "-N"
	}
	name := tok[1]
	op := Op{Kind: kind, Chain: name, Text: line}
	c, exists := t.Chains[name]
	num := func(i int) (int, bool) {
		if i >= len(tok) {
			return 0, false
		}
		n, err := strconv.Atoi(tok[i])
		return n, err == nil
	}
	switch kind {
	case "-N":
		if exists {
			return op, errors.New("Chain already exists.")
		}
		if len(name) > 28 {
			return op, fmt.Errorf("Invalid chain name `%s' (28 chars max)", name)
		}
		t.Chains[name] = &Chain{Name: name}
		t.Order = append(t.Order, name)
	case "-F":
		if !exists {
			return op, errors.New("No chain/target/match by that name.")
		}
		c.Rules = nil
	case "-X":
		if len(tok) != 2 {
			return op, errors.New("--delete-chain takes one argument")
		}
		if !exists {
			return op, errors.New("No chain/target/match by that name.")
		}
		if c.Builtin {
			return op, errors.New("Can't delete built-in chain.")
		}
		if len(c.Rules) > 0 {
			return op, errors.New("Directory not empty.")
		}
		if refCounts(t)[name] > 0 {
			return op, errors.New("Too many links.")
		}
		if k.Mode == "nft" && bs.refStart[name] > 0 {
			return op, errors.New("Device or resource busy (chain was referenced when the transaction started).")
		}
		delete(t.Chains, name)
		for i, n := range t.Order {
			if n == name {
				t.Order = append(t.Order[:i:i], t.Order[i+1:]...)
				break
			}
		}
	case "-A":
		if !exists {
			return op, errors.New("No chain/target/match by that name.")
		}
		rule := NormaliseTokens(tok[2:], k.IPVersion)
		if err := k.checkRule(t, rule); err != nil {
			return op, err
		}
		c.Rules = append(c.Rules, rule)
	case "-I":
		if !exists {
			return op, errors.New("No chain/target/match by that name.")
		}
		pos, rest := 1, tok[2:]
		if n, ok := num(2); ok {
			pos, rest = n, tok[3:]
		}
		if pos < 1 || pos > len(c.Rules)+1 {
			return op, errors.New("Index of insertion too big.")
		}
		rule := NormaliseTokens(rest, k.IPVersion)
		if err := k.checkRule(t, rule); err != nil {
			return op, err
		}
		c.Rules = append(c.Rules, "")
		copy(c.Rules[pos:], c.Rules[pos-1:])
		c.Rules[pos-1] = rule
	case "-R":
		if !exists {
			return op, errors.New("No chain/target/match by that name.")
		}
		n, ok := num(2)
		if !ok {
			return op, errors.New("-R needs a rule number")
		}
		if n < 1 || n > len(c.Rules) {
			return op, errors.New("Index of replacement too big.")
		}
		rule := NormaliseTokens(tok[3:], k.IPVersion)
		if err := k.checkRule(t, rule); err != nil {
			return op, err
		}
		c.Rules[n-1] = rule
	case "-D":
		if !exists {
			return op, errors.New("No chain/target/match by that name.")
		}
		if n, ok := num(2); ok && len(tok) == 3 {
			if n < 1 || n > len(c.Rules) {
				return op, errors.New("Index of deletion too big.")
			}
			c.Rules = append(c.Rules[:n-1], c.Rules[n:]...)
			return op, nil
		}
		rule := NormaliseTokens(tok[2:], k.IPVersion)
		for i, r := range c.Rules {
			if r == rule {
				c.Rules = append(c.Rules[:i], c.Rules[i+1:]...)
				return op, nil
			}
		}
		return op, errors.New("Bad rule (does a matching rule exist in that chain?).")
	default:
		return op, fmt.Errorf("unknown option %q", tok[0])
	}
	return op, nil
}

func (k *Kernel) runRestore(c *Cmd) error {
	k.mu.Lock()
	seq := k.seq["restore"] + 1
	k.seq["restore"] = seq
	k.mu.Unlock()
	if k.PreRestore != nil {
		k.PreRestore(seq)
	}
	var input []byte
	if c.stdin != nil {
		input, _ = io.ReadAll(c.stdin)
	}
	ev := &RestoreEvent{Seq: seq, Name: c.name, Args: c.args}
	k.mu.Lock()
	err := k.restoreLocked(c, ev, string(input))
	k.mu.Unlock()
	if k.OnRestore != nil {
		k.OnRestore(ev)
	}
	return err
}

var errExit1 = errors.New("exit status 1")

func (k *Kernel) fault(p FaultPoint) string {
	if k.Fault == nil {
		return ""
	}
	return k.Fault(p)
}

func (k *Kernel) restoreLocked(c *Cmd, ev *RestoreEvent, input string) error {
	fail := func(msg string) error {
		ev.Err = msg
		if c.stderr != nil {
			fmt.Fprintf(c.stderr, "%s: %s\n", c.name, msg)
		}
		k.logf("restore#%d FAILED: %s", ev.Seq, msg)
		return errExit1
	}
	noflush := false
	for _, a := range c.args {
		if a == "--noflush" || a == "-n" {
			noflush = true
		}
	}
	if !noflush {
		return fail("the fake only supports --noflush")
	}
	if mode := k.fault(FaultPoint{Cmd: "restore", Seq: ev.Seq, Block: 0}); mode != "" {
		ev.Fault = mode
		return fail("Another app is currently holding the xtables lock. Stopped waiting after 10s.")
	}
	var bs *blockState
	var cur *Block
	lines := strings.Split(input, "\n")
	for i, raw := range lines {
		line := strings.TrimSpace(raw)
		if line == "" || strings.HasPrefix(line, "#") {
			continue
		}
		if strings.HasPrefix(line, "*") {
			if bs != nil {
				return fail(fmt.Sprintf("line %d failed: table start inside a transaction", i+1))
			}
			t, ok := k.tables[line[1:]]
			if !ok {
				return fail(fmt.Sprintf("line %d failed: can't initialize iptables table `%s': Table does not exist", i+1, line[1:]))
			}
			bs = &blockState{t: t.clone(), refStart: refCounts(t)}
			ev.Blocks = append(ev.Blocks, Block{Table: t.Name})
			cur = &ev.Blocks[len(ev.Blocks)-1]
			if k.KeepBefore {
				cur.Before = t.clone()
			}
			k.logf("restore#%d *%s", ev.Seq, t.Name)
			continue
		}
		if bs == nil {
			return fail(fmt.Sprintf("line %d failed: no table specified", i+1))
		}
		if line == "COMMIT" {
			if mode := k.fault(FaultPoint{Cmd: "restore", Seq: ev.Seq, Block: len(ev.Blocks), Table: cur.Table}); mode != "" {
				ev.Fault = mode
				cur.Err = "injected"
				return fail(fmt.Sprintf("line %d failed (COMMIT): Resource temporarily unavailable", i+1))
			}
			if hasLoop(bs.t) {
				cur.Err = "loop"
				return fail(fmt.Sprintf("line %d failed: Too many levels of symbolic links", i+1))
			}
			k.tables[cur.Table] = bs.t
			cur.Committed = true
			k.logf("restore#%d COMMIT %s", ev.Seq, cur.Table)
			bs, cur = nil, nil
			continue
		}
		op, err := k.applyLine(bs, line)
		cur.Ops = append(cur.Ops, op)
		if err != nil {
			cur.Err = err.Error()
			k.logf("restore#%d   REFUSED %q: %v", ev.Seq, line, err)
			return fail(fmt.Sprintf("line %d failed: %v", i+1, err))
		}
		k.logf("restore#%d   %s", ev.Seq, line)
	}
	if bs != nil {
		// EOF without COMMIT: iptables-restore does not commit.
		cur.Err = "no COMMIT"
		return fail("input ended without COMMIT")
	}
	if mode := k.fault(FaultPoint{Cmd: "restore", Seq: ev.Seq, Block: -1}); mode != "" {
		ev.Fault = mode
		return fail("killed after the last COMMIT")
	}
	k.logf("restore#%d ok", ev.Seq)
	return nil
}

// ---- save ----

func (k *Kernel) saveOutput(table string) []byte {
	t := k.tables[table]
	var b bytes.Buffer
	fmt.Fprintf(&b, "# Generated by ip%stables-save v1.8.9 on Mon Jan  1 00:00:00 2024\n*%s\n", map[int]string{4: "", 6: "6"}[k.IPVersion], table)
	var user []string
	for _, n := range t.Order {
		if !t.Chains[n].Builtin {
			user = append(user, n)
		}
	}
	if k.Mode == "legacy" {
		sort.Strings(user) // libiptc keeps user chains sorted
	}
	var order []string
	for _, n := range builtinChains[table] {
		order = append(order, n)
	}
	order = append(order, user...)
	for _, n := range order {
		c := t.Chains[n]
		pol := "-"
		if c.Builtin {
			pol = c.Policy
		}
		fmt.Fprintf(&b, ":%s %s [%d:%d]\n", n, pol, k.rnd.Intn(1000), k.rnd.Intn(100000))
	}
	for _, n := range order {
		for _, r := range t.Chains[n].Rules {
			fmt.Fprintf(&b, "-A %s %s\n", n, r)
		}
	}
	b.WriteString("COMMIT\n# Completed on Mon Jan  1 00:00:00 2024\n")
	return b.Bytes()
}

// ---- command shim ----

// Cmd implements cmdshim.CmdIface.
type Cmd struct {
	k      *Kernel
	name   string
	args   []string
	stdin  io.Reader
	stdout io.Writer
	stderr io.Writer

	kind    string // "save" | "restore"
	table   string
	pipe    *pipeReader
	started bool
	waitErr error
	fault   string
	seq     int
}

var _ cmdshim.CmdIface = (*Cmd)(nil)

type pipeReader struct {
	r      *bytes.Reader
	closed bool
}

func (p *pipeReader) Read(b []byte) (int, error) {
	if p.closed {
		return 0, errors.New("read |0: file already closed")
	}
	if p.r == nil {
		return 0, io.EOF
	}
	return p.r.Read(b)
}
func (p *pipeReader) Close() error { p.closed = true; return nil }

// NewCmd is the cmdshim.CmdFactory.
func (k *Kernel) NewCmd(name string, arg ...string) cmdshim.CmdIface {
	c := &Cmd{k: k, name: name, args: append([]string(nil), arg...)}
	pfx := "iptables"
	if k.IPVersion == 6 {
		pfx = "ip6tables"
	}
	base := strings.TrimPrefix(name, pfx)
	if base == name {
		panic(fmt.Sprintf("fakeipt(v%d): unexpected command %s %v", k.IPVersion, name, arg))
	}
	switch base {
	case "-save", "-legacy-save", "-nft-save":
		c.kind = "save"
	case "-restore", "-legacy-restore", "-nft-restore":
		c.kind = "restore"
	default:
		panic(fmt.Sprintf("fakeipt: unexpected command %s %v", name, arg))
	}
	if (strings.Contains(base, "-nft-") && k.Mode != "nft") || (strings.Contains(base, "-legacy-") && k.Mode != "legacy") {
		panic(fmt.Sprintf("fakeipt: %s used on a %s kernel (harness misconfiguration)", name, k.Mode))
	}
	if c.kind == "save" {
		if len(arg) != 2 || arg[0] != "-t" {
			panic(fmt.Sprintf("fakeipt: unsupported save arguments %v", arg))
		}
		c.table = arg[1]
	}
	return c
}

func (c *Cmd) String() string        { return c.name + " " + strings.Join(c.args, " ") }
func (c *Cmd) SetStdin(r io.Reader)  { c.stdin = r }
func (c *Cmd) SetStdout(w io.Writer) { c.stdout = w }
func (c *Cmd) SetStderr(w io.Writer) { c.stderr = w }
func (c *Cmd) Kill() error           { return nil }

// beginSave allocates the sequence number and consults the fault plan once per command.
func (c *Cmd) beginSave() {
	if c.seq != 0 {
		return
	}
	k := c.k
	k.mu.Lock()
	c.seq = k.seq["save"] + 1
	k.seq["save"] = c.seq
	c.fault = k.fault(FaultPoint{Cmd: "save", Seq: c.seq, Table: c.table})
	k.logf("save#%d -t %s fault=%q", c.seq, c.table, c.fault)
	k.mu.Unlock()
	if k.OnSave != nil {
		k.OnSave(c.seq, c.table, c.fault)
	}
}

func (c *Cmd) StdoutPipe() (io.ReadCloser, error) {
	if c.kind != "save" {
		return nil, errors.New("fakeipt: StdoutPipe only for save")
	}
	c.beginSave()
	if c.fault == SaveFailPipe {
		return nil, errors.New("pipe: too many open files")
	}
	c.pipe = &pipeReader{}
	return c.pipe, nil
}

func (c *Cmd) produce() []byte {
	k := c.k
	k.mu.Lock()
	defer k.mu.Unlock()
	if _, ok := k.tables[c.table]; !ok {
		c.waitErr = errExit1
		return nil
	}
	out := k.saveOutput(c.table)
	switch c.fault {
	case SaveFailExit:
		c.waitErr = errExit1
		return nil
	case SaveTruncate:
		c.waitErr = errExit1
		n := bytes.Count(out, []byte("\n"))
		keep := k.rnd.Intn(n)
		idx := 0
		for i := 0; i < keep; i++ {
			idx += bytes.IndexByte(out[idx:], '\n') + 1
		}
		return out[:idx]
	case SaveIncompatible:
		return []byte("# Table `" + c.table + "' is incompatible, use 'nft' tool.\n")
	}
	return out
}

func (c *Cmd) Start() error {
	if c.kind != "save" {
		return errors.New("fakeipt: Start only for save")
	}
	c.beginSave()
	if c.fault == SaveFailStart {
		return errors.New("fork/exec: resource temporarily unavailable")
	}
	c.started = true
	out := c.produce()
	if c.pipe != nil {
		c.pipe.r = bytes.NewReader(out)
	}
	return nil
}

func (c *Cmd) Wait() error {
	if !c.started {
		return errors.New("exec: not started")
	}
	return c.waitErr
}

func (c *Cmd) Output() ([]byte, error) {
	if c.kind != "save" {
		return nil, errors.New("fakeipt: Output only for save")
	}
	c.beginSave()
	if c.fault == SaveFailStart || c.fault == SaveFailPipe {
		return nil, errors.New("fork/exec: resource temporarily unavailable")
	}
	c.started = true
	out := c.produce()
	return out, c.waitErr
}

func (c *Cmd) Run() error {
	if c.kind != "restore" {
		return errors.New("fakeipt: Run only for restore")
	}
	return c.k.runRestore(c)
}

// ---- helpers for out-of-band edits (harness side) ----

// AddChain creates a user chain if missing.
func (t *Table) AddChain(name string) *Chain {
	if c, ok := t.Chains[name]; ok {
		return c
	}
	c := &Chain{Name: name}
	t.Chains[name] = c
	t.Order = append(t.Order, name)
	return c
}

// DelChain removes a user chain unconditionally (the caller keeps the table consistent).
func (t *Table) DelChain(name string) {
	delete(t.Chains, name)
	for i, n := range t.Order {
		if n == name {
			t.Order = append(t.Order[:i:i], t.Order[i+1:]...)
			break
		}
	}
}

// HasLoop reports whether the chain graph contains a jump/goto cycle (the kernel never holds one).
func (t *Table) HasLoop() bool { return hasLoop(t) }

// Refs returns how many rules reference each user chain.
func (t *Table) Refs() map[string]int { return refCounts(t) }

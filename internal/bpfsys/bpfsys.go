// Package bpfsys is a minimal pure-Go wrapper over the bpf(2) system call: just enough to create
// maps, load raw instruction streams (what felix/bpf/polprog emits) into the REAL kernel verifier and
// run them with BPF_PROG_TEST_RUN.  libbpf is not available in this sandbox (CGO off), and the repo's
// own syscall wrappers are cgo-only.
//
// Every entry point returns an error instead of panicking; callers degrade (interpreter only, with a
// note in the evidence) when Available() reports that bpf() is refused.
package bpfsys

import (
	"errors"
	"fmt"
	"os"
	"runtime"
	"sync"
	"unsafe"

	"golang.org/x/sys/unix"
)

// bpf(2) commands
const (
	cmdMapCreate     = 0
	cmdMapLookupElem = 1
	cmdMapUpdateElem = 2
	cmdMapDeleteElem = 3
	cmdProgLoad      = 5
	cmdProgTestRun   = 10
)

// Map and program types used by the checks.
const (
	MapTypeHash      = 1
	MapTypeArray     = 2
	MapTypeProgArray = 3
	MapTypeLPMTrie   = 11

	ProgTypeSchedCLS = 3
	ProgTypeXDP      = 6

	FlagNoPrealloc = 1
)

const attrSize = 160 // >= every attr variant used here; the kernel accepts a larger, zero-padded attr

func bpf(cmd int, attr *[attrSize]byte) (uintptr, error) {
	r, _, e := unix.Syscall(unix.SYS_BPF, uintptr(cmd), uintptr(unsafe.Pointer(attr)), attrSize)
	runtime.KeepAlive(attr)
	if e != 0 {
		return 0, e
	}
	return r, nil
}

func put32(a *[attrSize]byte, off int, v uint32) { *(*uint32)(unsafe.Pointer(&a[off])) = v }
func put64(a *[attrSize]byte, off int, v uint64) { *(*uint64)(unsafe.Pointer(&a[off])) = v }
func get32(a *[attrSize]byte, off int) uint32    { return *(*uint32)(unsafe.Pointer(&a[off])) }

func ptr(b []byte) uint64 {
	if len(b) == 0 {
		return 0
	}
	return uint64(uintptr(unsafe.Pointer(&b[0])))
}

// Map is an open BPF map.
type Map struct {
	FD        int
	KeySize   int
	ValueSize int
}

// CreateMap creates an anonymous map.
func CreateMap(typ, keySize, valueSize, maxEntries, flags uint32, name string) (*Map, error) {
	var a [attrSize]byte
	put32(&a, 0, typ)
	put32(&a, 4, keySize)
	put32(&a, 8, valueSize)
	put32(&a, 12, maxEntries)
	put32(&a, 16, flags)
	copy(a[28:28+15], name)
	fd, err := bpf(cmdMapCreate, &a)
	if err != nil {
		return nil, fmt.Errorf("BPF_MAP_CREATE(%s type=%d k=%d v=%d): %w", name, typ, keySize, valueSize, err)
	}
	return &Map{FD: int(fd), KeySize: int(keySize), ValueSize: int(valueSize)}, nil
}

// Close releases the map's descriptor.
func (m *Map) Close() {
	if m != nil && m.FD > 0 {
		_ = unix.Close(m.FD)
		m.FD = -1
	}
}

// Update writes one element.
func (m *Map) Update(k, v []byte, flags uint64) error {
	if len(k) != m.KeySize || len(v) != m.ValueSize {
		return fmt.Errorf("bpfsys: update with key %d/value %d bytes on a %d/%d map", len(k), len(v), m.KeySize, m.ValueSize)
	}
	var a [attrSize]byte
	put32(&a, 0, uint32(m.FD))
	put64(&a, 8, ptr(k))
	put64(&a, 16, ptr(v))
	put64(&a, 24, flags)
	_, err := bpf(cmdMapUpdateElem, &a)
	runtime.KeepAlive(k)
	runtime.KeepAlive(v)
	return err
}

// Lookup reads one element.
func (m *Map) Lookup(k []byte) ([]byte, error) {
	if len(k) != m.KeySize {
		return nil, fmt.Errorf("bpfsys: lookup with key of %d bytes on a map with %d-byte keys", len(k), m.KeySize)
	}
	v := make([]byte, m.ValueSize)
	var a [attrSize]byte
	put32(&a, 0, uint32(m.FD))
	put64(&a, 8, ptr(k))
	put64(&a, 16, ptr(v))
	_, err := bpf(cmdMapLookupElem, &a)
	runtime.KeepAlive(k)
	runtime.KeepAlive(v)
	if err != nil {
		return nil, err
	}
	return v, nil
}

// Delete removes one element.
func (m *Map) Delete(k []byte) error {
	var a [attrSize]byte
	put32(&a, 0, uint32(m.FD))
	put64(&a, 8, ptr(k))
	_, err := bpf(cmdMapDeleteElem, &a)
	runtime.KeepAlive(k)
	return err
}

// Prog is a loaded program.
type Prog struct {
	FD int
}

// Close releases the program's descriptor.
func (p *Prog) Close() {
	if p != nil && p.FD > 0 {
		_ = unix.Close(p.FD)
		p.FD = -1
	}
}

// LoadProg loads raw instructions (8 bytes each).  On failure the verifier log (if any) is returned
// with the error; errno is preserved (errors.Is(err, unix.ERANGE) etc.).
func LoadProg(progType uint32, insns []byte, name string) (*Prog, string, error) {
	if len(insns) == 0 || len(insns)%8 != 0 {
		return nil, "", fmt.Errorf("bpfsys: instruction stream of %d bytes", len(insns))
	}
	license := []byte("GPL\x00")
	try := func(logBuf []byte) (uintptr, error) {
		var a [attrSize]byte
		put32(&a, 0, progType)
		put32(&a, 4, uint32(len(insns)/8))
		put64(&a, 8, ptr(insns))
		put64(&a, 16, ptr(license))
		if len(logBuf) > 0 {
			put32(&a, 24, 1)
			put32(&a, 28, uint32(len(logBuf)))
			put64(&a, 32, ptr(logBuf))
		}
		copy(a[48:48+15], name)
		// The verifier gives up with EAGAIN when a signal is pending, and the Go runtime preempts threads
		// with signals all the time; like libbpf, try again (a long verification needs several attempts).
		var fd uintptr
		var err error
		for attempt := 0; attempt < 50; attempt++ {
			fd, err = bpf(cmdProgLoad, &a)
			if err != unix.EAGAIN && err != unix.EINTR {
				break
			}
		}
		runtime.KeepAlive(insns)
		runtime.KeepAlive(license)
		runtime.KeepAlive(logBuf)
		return fd, err
	}
	fd, err := try(nil)
	if err == nil {
		return &Prog{FD: int(fd)}, "", nil
	}
	// again with a log buffer to get the verifier's explanation
	logBuf := make([]byte, 1<<20)
	fd2, err2 := try(logBuf)
	if err2 == nil {
		return &Prog{FD: int(fd2)}, "", nil
	}
	n := 0
	for n < len(logBuf) && logBuf[n] != 0 {
		n++
	}
	log := string(logBuf[:n])
	if len(log) > 6000 {
		log = log[:1500] + "\n...\n" + log[len(log)-4000:]
	}
	return nil, log, fmt.Errorf("BPF_PROG_LOAD(%s, %d insns): %w", name, len(insns)/8, err)
}

// TestRun runs the program once over dataIn with an optional context (struct __sk_buff / xdp_md
// image).  It returns the program's return value and the context after the run.
func TestRun(p *Prog, dataIn, ctxIn []byte) (retval uint32, ctxOut []byte, err error) {
	var a [attrSize]byte
	dataOut := make([]byte, len(dataIn)+256)
	put32(&a, 0, uint32(p.FD))
	put32(&a, 8, uint32(len(dataIn)))
	put32(&a, 12, uint32(len(dataOut)))
	put64(&a, 16, ptr(dataIn))
	put64(&a, 24, ptr(dataOut))
	put32(&a, 32, 1) // repeat
	if len(ctxIn) > 0 {
		ctxOut = make([]byte, len(ctxIn))
		put32(&a, 40, uint32(len(ctxIn)))
		put32(&a, 44, uint32(len(ctxOut)))
		put64(&a, 48, ptr(ctxIn))
		put64(&a, 56, ptr(ctxOut))
	}
	_, err = bpf(cmdProgTestRun, &a)
	runtime.KeepAlive(dataIn)
	runtime.KeepAlive(dataOut)
	runtime.KeepAlive(ctxIn)
	runtime.KeepAlive(ctxOut)
	if err != nil {
		return 0, nil, fmt.Errorf("BPF_PROG_TEST_RUN: %w", err)
	}
	return get32(&a, 4), ctxOut, nil
}

var (
	availOnce sync.Once
	availErr  error
)

// Transient reports whether err is a resource or scheduling condition of the machine (not a verdict
// on the program): out of memory, too many open files, interrupted.
func Transient(err error) bool {
	for _, e := range []error{unix.EAGAIN, unix.EINTR, unix.ENOMEM, unix.EMFILE, unix.ENFILE, unix.ENOSPC, unix.EBUSY} {
		if errors.Is(err, e) {
			return true
		}
	}
	return false
}

// Available reports (once) whether this process may create maps and load programs.
func Available() error {
	availOnce.Do(func() {
		if os.Getenv("VERIF_NO_BPF") != "" {
			// lets the interpreter-only path of the checks be exercised on a machine where bpf() works
			availErr = errors.New("bpf() disabled by VERIF_NO_BPF")
			return
		}
		m, err := CreateMap(MapTypeArray, 4, 8, 1, 0, "verif_probe")
		if err != nil {
			availErr = err
			return
		}
		defer m.Close()
		// r0 = 0; exit
		insns := []byte{0xb7, 0, 0, 0, 0, 0, 0, 0, 0x95, 0, 0, 0, 0, 0, 0, 0}
		p, _, err := LoadProg(ProgTypeSchedCLS, insns, "verif_probe")
		if err != nil {
			availErr = err
			return
		}
		defer p.Close()
		if _, _, err := TestRun(p, make([]byte, 64), nil); err != nil {
			availErr = err
		}
	})
	return availErr
}

package calcgen

import (
	"fmt"
	"math"
	"sort"
	"strings"

	v3 "github.com/projectcalico/api/pkg/apis/projectcalico/v3"

	"github.com/projectcalico/calico/felix/proto"
	"github.com/projectcalico/calico/libcalico-go/lib/backend/model"
	"github.com/projectcalico/calico/libcalico-go/lib/selector"
)

// This file is the small reference used by C03: from a datastore State (not from anything the
// graph computed) it derives, for every local endpoint, the set of policies whose selector matches
// the endpoint's effective labels, and the sort keys of tiers and policies.  Selector parsing and
// evaluation use libcalico-go/lib/selector (trusted).

// RefPolicy is the reference view of one valid policy of the state.
type RefPolicy struct {
	ID         string // shadowdp.PolicyKey form: kind|namespace|name
	Name       string
	Tier       string
	Order      float64 // +Inf when unset
	Ingress    bool
	Egress     bool
	Untracked  bool
	PreDNAT    bool
	Forward    bool // ApplyOnForward
	Always     bool // AssumeNeededOnEveryNode hint
	sel        *selector.Selector
	SelectorSt string
}

// RefTier is the reference view of one present Tier resource.
type RefTier struct {
	Name  string
	Order float64 // +Inf when unset
}

// RefEndpoint is the reference view of one local endpoint.
type RefEndpoint struct {
	ID       string // shadow key: "orch/workload/endpoint" for WEPs, endpoint id for HEPs
	IsHost   bool
	Labels   map[string]string // effective labels: own labels over labels inherited from profiles
	Matching map[string]*RefPolicy
}

// Reference is the reference view of a whole state.
type Reference struct {
	Policies  map[string]*RefPolicy
	Tiers     map[string]*RefTier
	Endpoints map[string]*RefEndpoint
}

// PolicyID renders a model.PolicyKey the way shadowdp keys policies.
func PolicyID(k model.PolicyKey) string { return k.Kind + "|" + k.Namespace + "|" + k.Name }

// NewReference computes the reference view of state s.
func NewReference(u *Universe, s State) (*Reference, error) {
	ref := &Reference{Policies: map[string]*RefPolicy{}, Tiers: map[string]*RefTier{}, Endpoints: map[string]*RefEndpoint{}}
	profileLabels := map[string]map[string]string{}
	for k, ks := range u.Keys {
		val := u.EffectiveValue(s, k)
		if val == nil {
			continue
		}
		switch key := ks.Key.(type) {
		case model.TierKey:
			t := val.(*model.Tier)
			rt := &RefTier{Name: key.Name, Order: math.Inf(1)}
			if t.Order != nil {
				rt.Order = *t.Order
			}
			ref.Tiers[key.Name] = rt
		case model.PolicyKey:
			p := val.(*model.Policy)
			sel, err := selector.Parse(p.Selector)
			if err != nil {
				return nil, fmt.Errorf("valid-tagged policy %v has unparseable selector %q: %v", key, p.Selector, err)
			}
			rp := &RefPolicy{ID: PolicyID(key), Name: key.Name, Tier: p.Tier, Order: math.Inf(1), sel: sel, SelectorSt: p.Selector,
				Untracked: p.DoNotTrack, PreDNAT: p.PreDNAT, Forward: p.ApplyOnForward}
			if p.Order != nil {
				rp.Order = *p.Order
			}
			if len(p.Types) == 0 {
				rp.Ingress, rp.Egress = true, true
			}
			for _, t := range p.Types {
				switch strings.ToLower(t) {
				case "ingress":
					rp.Ingress = true
				case "egress":
					rp.Egress = true
				}
			}
			for _, h := range p.PerformanceHints {
				if h == v3.PerfHintAssumeNeededOnEveryNode {
					rp.Always = true
				}
			}
			ref.Policies[rp.ID] = rp
		case model.ResourceKey:
			if key.Kind == v3.KindProfile {
				profileLabels[key.Name] = val.(*v3.Profile).Spec.LabelsToApply
			}
		}
	}
	for k, ks := range u.Keys {
		if !ks.Local {
			continue
		}
		val := u.EffectiveValue(s, k)
		if val == nil {
			continue
		}
		var ep *RefEndpoint
		var own map[string]string
		var profs []string
		switch key := ks.Key.(type) {
		case model.WorkloadEndpointKey:
			w := val.(*model.WorkloadEndpoint)
			ep = &RefEndpoint{ID: key.OrchestratorID + "/" + key.WorkloadID + "/" + key.EndpointID}
			own, profs = w.Labels.RecomputeOriginalMap(), w.ProfileIDs
		case model.HostEndpointKey:
			h := val.(*model.HostEndpoint)
			ep = &RefEndpoint{ID: key.EndpointID, IsHost: true}
			own, profs = h.Labels.RecomputeOriginalMap(), h.ProfileIDs
		default:
			continue
		}
		ep.Labels = map[string]string{}
		// Inherited first (the generator never lets two profiles disagree on a key), own on top.
		for _, p := range profs {
			for lk, lv := range profileLabels[p] {
				ep.Labels[lk] = lv
			}
		}
		for lk, lv := range own {
			ep.Labels[lk] = lv
		}
		ep.Matching = map[string]*RefPolicy{}
		for id, p := range ref.Policies {
			if p.sel.Evaluate(ep.Labels) {
				ep.Matching[id] = p
			}
		}
		ref.Endpoints[ep.ID] = ep
	}
	return ref, nil
}

func lessOrderName(o1 float64, n1 string, o2 float64, n2 string) bool {
	if o1 != o2 {
		return o1 < o2
	}
	return n1 < n2
}

// CheckTiers judges one emitted tier list of an endpoint against the reference.
//
//   - want(p) selects which matching policies belong in this list (normal / untracked / pre-DNAT /
//     forward; ingress or egress is decided per policy from its types);
//   - tiers whose Tier resource is absent are not judged for presence or position, only that what
//     they list are matching policies of that tier;
//   - the relative order of two policies (or tiers) with equal order AND equal name is not judged.
//
// It returns one string per defect.
func (ref *Reference) CheckTiers(ep *RefEndpoint, what string, tiers []*proto.TierInfo, want func(p *RefPolicy) bool, egressAllowed bool) []string {
	// Untracked and pre-DNAT policies only have a meaning on host endpoints; whether a workload
	// endpoint lists one that matches it is not fixed by the property, so such entries are skipped.
	lenientHostOnly := !ep.IsHost
	var defects []string
	bad := func(format string, args ...any) {
		defects = append(defects, fmt.Sprintf("endpoint %s %s: ", ep.ID, what)+fmt.Sprintf(format, args...))
	}
	pid := func(id *proto.PolicyID) string { return id.GetKind() + "|" + id.GetNamespace() + "|" + id.GetName() }

	// Expected membership for valid tiers.
	expIn, expOut := map[string]map[string]bool{}, map[string]map[string]bool{}
	for id, p := range ep.Matching {
		if !want(p) {
			continue
		}
		if _, ok := ref.Tiers[p.Tier]; !ok {
			continue
		}
		if p.Ingress {
			if expIn[p.Tier] == nil {
				expIn[p.Tier] = map[string]bool{}
			}
			expIn[p.Tier][id] = true
		}
		if p.Egress && egressAllowed {
			if expOut[p.Tier] == nil {
				expOut[p.Tier] = map[string]bool{}
			}
			expOut[p.Tier][id] = true
		}
	}
	seenTier := map[string]bool{}
	var prevValid *RefTier
	for _, t := range tiers {
		if seenTier[t.Name] {
			bad("tier %q listed twice", t.Name)
		}
		seenTier[t.Name] = true
		rt, valid := ref.Tiers[t.Name]
		checkList := func(dir string, ids []*proto.PolicyID, exp map[string]bool, ingress bool) {
			seen := map[string]bool{}
			var prev *RefPolicy
			for _, id := range ids {
				k := pid(id)
				if seen[k] {
					bad("tier %q %s lists policy %s twice", t.Name, dir, k)
				}
				seen[k] = true
				p, ok := ep.Matching[k]
				if !ok {
					bad("tier %q %s lists policy %s whose selector does not match the endpoint (labels %v)", t.Name, dir, k, ep.Labels)
					continue
				}
				if p.Tier != t.Name {
					bad("policy %s of tier %q listed under tier %q", k, p.Tier, t.Name)
				}
				if lenientHostOnly && (p.Untracked || p.PreDNAT) {
					continue
				}
				if !want(p) {
					bad("tier %q %s lists policy %s which does not belong in this list (untracked=%v preDNAT=%v forward=%v)", t.Name, dir, k, p.Untracked, p.PreDNAT, p.Forward)
				}
				if (ingress && !p.Ingress) || (!ingress && !p.Egress) {
					bad("tier %q %s lists policy %s whose types exclude that direction", t.Name, dir, k)
				}
				if prev != nil && lessOrderName(p.Order, p.Name, prev.Order, prev.Name) {
					bad("tier %q %s: policy %s (order %v) listed after %s (order %v)", t.Name, dir, k, p.Order, prev.ID, prev.Order)
				}
				prev = p
			}
			if valid {
				for k := range exp {
					if !seen[k] {
						bad("tier %q %s misses matching policy %s", t.Name, dir, k)
					}
				}
			}
		}
		checkList("ingress", t.IngressPolicies, expIn[t.Name], true)
		checkList("egress", t.EgressPolicies, expOut[t.Name], false)
		if valid {
			if prevValid != nil && lessOrderName(rt.Order, rt.Name, prevValid.Order, prevValid.Name) {
				bad("tier %q (order %v) listed after tier %q (order %v)", rt.Name, rt.Order, prevValid.Name, prevValid.Order)
			}
			prevValid = rt
		}
	}
	// Every valid tier with at least one expected policy must be present.
	var names []string
	for n := range ref.Tiers {
		names = append(names, n)
	}
	sort.Strings(names)
	for _, n := range names {
		if len(expIn[n])+len(expOut[n]) > 0 && !seenTier[n] {
			bad("tier %q with matching policies %v/%v is missing", n, keysOf(expIn[n]), keysOf(expOut[n]))
		}
	}
	return defects
}

func keysOf(m map[string]bool) []string {
	out := make([]string, 0, len(m))
	for k := range m {
		out = append(out, k)
	}
	sort.Strings(out)
	return out
}

// Selectors for CheckTiers.
func WantNormal(p *RefPolicy) bool    { return !p.Untracked && !p.PreDNAT }
func WantUntracked(p *RefPolicy) bool { return p.Untracked }
func WantPreDNAT(p *RefPolicy) bool   { return !p.Untracked && p.PreDNAT }
func WantForward(p *RefPolicy) bool   { return !p.Untracked && !p.PreDNAT && p.Forward }

// ActiveBounds returns the policies that must be active (they match a local endpoint, sit in a
// present tier and appear in one of its emitted lists) and those that may be active (any matching
// policy, plus every policy carrying the AssumeNeededOnEveryNode hint).
func (ref *Reference) ActiveBounds() (must, may map[string]bool) {
	must, may = map[string]bool{}, map[string]bool{}
	for _, ep := range ref.Endpoints {
		for id, p := range ep.Matching {
			may[id] = true
			if _, ok := ref.Tiers[p.Tier]; !ok {
				continue
			}
			if !ep.IsHost && (p.Untracked || p.PreDNAT) {
				continue // host-only policy kinds on a workload endpoint: not judged
			}
			if p.Ingress || (p.Egress && !p.PreDNAT) {
				must[id] = true
			}
		}
	}
	for id, p := range ref.Policies {
		if p.Always {
			may[id] = true
		}
	}
	return
}

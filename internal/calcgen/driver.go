package calcgen

import (
	"fmt"
	"io"
	"reflect"
	"sync"
	"time"

	"github.com/sirupsen/logrus"
	googleproto "google.golang.org/protobuf/proto"
	kapiv1 "k8s.io/api/core/v1"
	metav1 "k8s.io/apimachinery/pkg/apis/meta/v1"

	"github.com/projectcalico/calico/felix/calc"
	"github.com/projectcalico/calico/felix/config"
	"github.com/projectcalico/calico/felix/proto"
	"github.com/projectcalico/calico/libcalico-go/lib/backend/api"
	"github.com/projectcalico/calico/libcalico-go/lib/backend/model"
)

// GraphOptions select the Felix configuration the graph is built with.  The zero value is the FV
// suite's configuration: BPF on, VXLAN v4+v6 on, Istio ambient mode on, RouteSource CalicoIPAM,
// nftables off.
type GraphOptions struct {
	RouteSource string // "" or "CalicoIPAM" | "WorkloadIPs"
	NFTables    bool   // NFTablesMode=Enabled: IP set member overlap suppression on
	NoLookups   bool   // build the graph without a LookupsCache
}

var quietOnce sync.Once

// Quiet silences logrus for the process and turns log.Fatal into a panic (so that the harness
// records it instead of the process dying silently).  The drivers call it.
func Quiet() {
	quietOnce.Do(func() {
		logrus.SetOutput(io.Discard)
		logrus.SetLevel(logrus.PanicLevel)
		logrus.StandardLogger().ExitFunc = func(code int) { panic(fmt.Sprintf("logrus.Fatal called (exit %d)", code)) }
	})
}

// NewConfig returns the Felix configuration for opts (as calc_graph_fv_test.go builds it).
func NewConfig(opts GraphOptions) *config.Config {
	conf := config.New()
	conf.FelixHostname = LocalHost
	conf.BPFEnabled = true
	conf.IstioAmbientMode = "Enabled"
	if opts.RouteSource != "" {
		conf.RouteSource = opts.RouteSource
	}
	if opts.NFTables {
		conf.NFTablesMode = "Enabled"
	} else {
		conf.NFTablesMode = "Disabled"
	}
	conf.Encapsulation = config.Encapsulation{VXLANEnabled: true, VXLANEnabledV6: true}
	return conf
}

// inertConfig is the EventSequencer's config sink in the synchronous driver; like the FV suite's
// mock dataplane it never reports a change, so no ConfigUpdate is emitted and the graph's own
// config object is never mutated mid-run.
type inertConfig struct{}

func (inertConfig) UpdateFrom(map[string]string, config.Source) (bool, error) { return false, nil }
func (inertConfig) RawValues() map[string]string                              { return map[string]string{} }
func (inertConfig) ToConfigUpdate() *proto.ConfigUpdate                       { return &proto.ConfigUpdate{} }

// CloneMsg deep-copies an emitted message (proto messages via proto.Clone; anything else as is).
func CloneMsg(msg any) any {
	if pm, ok := msg.(googleproto.Message); ok {
		if v := reflect.ValueOf(msg); v.Kind() == reflect.Pointer && v.IsNil() {
			return msg
		}
		return googleproto.Clone(pm)
	}
	return msg
}

// Driver is the real calculation graph assembled as in the FV suite and driven synchronously:
//
//	ValidationFilter -> CalcGraph (AllUpdDispatcher ...) -> EventSequencer -> out(msg)
//
// out is called synchronously from inside Flush for every emitted message, with the original
// message object (clone it if you keep it; see CloneMsg).
type Driver struct {
	U         *Universe
	Conf      *config.Config
	Graph     *calc.CalcGraph
	Sequencer *calc.EventSequencer
	Filter    *calc.ValidationFilter
	Lookups   *calc.LookupsCache

	delivered State
	inSync    bool
	flushes   int
	out       func(msg any)
}

// NewDriver assembles a fresh graph.  u may be nil if only OnUpdates/OnStatus/Flush are used.
func NewDriver(u *Universe, opts GraphOptions, out func(msg any)) *Driver {
	Quiet()
	d := &Driver{U: u, out: out}
	d.Conf = NewConfig(opts)
	if !opts.NoLookups {
		d.Lookups = calc.NewLookupsCache()
	}
	d.Sequencer = calc.NewEventSequencer(inertConfig{})
	d.Sequencer.Callback = func(msg any) { d.out(msg) }
	d.Graph = calc.NewCalculationGraph(d.Sequencer, d.Lookups, d.Conf, func() {})
	d.Filter = calc.NewValidationFilter(d.Graph, d.Conf)
	if u != nil {
		d.delivered = u.EmptyState()
	}
	return d
}

// OnUpdates delivers raw updates through the validation filter.
func (d *Driver) OnUpdates(upds []api.Update) { d.Filter.OnUpdates(upds) }

// OnStatus delivers a sync status through the validation filter.
func (d *Driver) OnStatus(s api.SyncStatus) {
	if s == api.InSync {
		d.inSync = true
	}
	d.Filter.OnStatusUpdated(s)
}

// Flush flushes the graph and then the event sequencer, as the FV suite and AsyncCalcGraph do.
func (d *Driver) Flush() {
	d.Graph.Flush()
	d.Sequencer.Flush()
	d.flushes++
}

// Apply executes one Op.  Update types are set the way the syncer sets them (new / updated /
// deleted relative to what was delivered before).
func (d *Driver) Apply(op Op) {
	switch op.Kind {
	case OpUpdates:
		upds := make([]api.Update, 0, len(op.KVs))
		for _, kv := range op.KVs {
			ut := api.UpdateTypeKVUpdated
			switch {
			case kv.Val == Absent:
				ut = api.UpdateTypeKVDeleted
			case d.delivered[kv.Key] == Absent:
				ut = api.UpdateTypeKVNew
			}
			upds = append(upds, d.U.Update(kv, ut))
			d.delivered[kv.Key] = kv.Val
		}
		d.OnUpdates(upds)
	case OpInSync:
		d.OnStatus(api.InSync)
	case OpResync:
		d.OnStatus(api.ResyncInProgress)
	case OpFlush:
		d.Flush()
	}
}

// Delivered is the state the graph has been told so far (live; clone to keep).
func (d *Driver) Delivered() State { return d.delivered }

// InSync reports whether api.InSync has been delivered.
func (d *Driver) InSync() bool { return d.inSync }

// Hooks observe a synchronous run.
type Hooks struct {
	// BeforeOp runs before each op.
	BeforeOp func(i int, op Op)
	// AfterOp runs after each op (for OpFlush: after both flushes completed).
	AfterOp func(i int, op Op, d *Driver)
}

// RunSync runs ops on a fresh graph, sending every emitted message to out.
func RunSync(u *Universe, opts GraphOptions, ops []Op, out func(msg any), hooks Hooks) *Driver {
	d := NewDriver(u, opts, out)
	for i, op := range ops {
		if hooks.BeforeOp != nil {
			hooks.BeforeOp(i, op)
		}
		d.Apply(op)
		if hooks.AfterOp != nil {
			hooks.AfterOp(i, op, d)
		}
	}
	return d
}

// ---------------------------------------------------------------------------------------------
// asynchronous driver

// SentinelServiceName names the Kubernetes Service the async driver injects after the last op.
// EventSequencer.Flush emits service updates last, so its ServiceUpdate marks the end of the flush
// that carried everything delivered before it.
const (
	SentinelServiceNamespace = "verif"
	SentinelServiceName      = "sentinel"
)

// AsyncResult is what RunAsync observed.
type AsyncResult struct {
	// Msgs is every message read from the output channel, cloned at receipt, in order, excluding
	// the sentinel ServiceUpdate.
	Msgs []any
	// InSyncDeliveredBefore is the number of messages that had been READ when the harness
	// delivered api.InSync (messages with a smaller index were certainly emitted before it).
	InSyncDeliveredBefore int
	// InSyncMsgIndex is the index in Msgs of proto.InSync, -1 if never seen.
	InSyncMsgIndex int
	// TimedOut: the watchdog fired before the sentinel and in-sync were seen (inconclusive).
	TimedOut bool
}

// RunAsync drives calc.NewAsyncCalcGraph (its own goroutine, flushing on its own timer) the way the
// FV suite's async tests do: a SyncerCallbacksDecoupler goroutine feeds the ValidationFilter, an
// injector goroutine delivers ops (OpFlush is ignored), the calling goroutine drains the output
// channel.  onMsg, if non-nil, is called from the calling goroutine for each message as it is read
// (before cloning), with inSyncDelivered telling whether api.InSync had been handed to the decoupler
// by then.  The run ends when both proto.InSync and the sentinel ServiceUpdate have been read, or
// when the watchdog fires.  The graph's goroutine cannot be stopped (Felix never stops it) and is
// left blocked on its input channel.
func RunAsync(u *Universe, opts GraphOptions, ops []Op, watchdog time.Duration, onMsg func(msg any, inSyncDelivered bool)) *AsyncResult {
	Quiet()
	conf := NewConfig(opts)
	outC := make(chan any)
	var lookups *calc.LookupsCache
	if !opts.NoLookups {
		lookups = calc.NewLookupsCache()
	}
	// As felix/daemon does: the graph gets its own copy of the config ("Copy to avoid concurrent
	// access"), the validation filter keeps the original.
	acg := calc.NewAsyncCalcGraph(conf.Copy(), []chan<- any{outC}, nil, lookups)
	filter := calc.NewValidationFilter(acg, conf)
	dec := calc.NewSyncerCallbacksDecoupler()
	go dec.SendTo(filter)
	acg.Start()

	var mu sync.Mutex
	inSyncDelivered := false
	go func() {
		delivered := u.EmptyState()
		for _, op := range ops {
			switch op.Kind {
			case OpUpdates:
				upds := make([]api.Update, 0, len(op.KVs))
				for _, kv := range op.KVs {
					ut := api.UpdateTypeKVUpdated
					switch {
					case kv.Val == Absent:
						ut = api.UpdateTypeKVDeleted
					case delivered[kv.Key] == Absent:
						ut = api.UpdateTypeKVNew
					}
					upds = append(upds, u.Update(kv, ut))
					delivered[kv.Key] = kv.Val
				}
				dec.OnUpdates(upds)
			case OpInSync:
				mu.Lock()
				inSyncDelivered = true
				mu.Unlock()
				dec.OnStatusUpdated(api.InSync)
			case OpResync:
				dec.OnStatusUpdated(api.ResyncInProgress)
			}
		}
		dec.OnUpdates([]api.Update{{
			KVPair: model.KVPair{
				Key: model.ResourceKey{Kind: model.KindKubernetesService, Namespace: SentinelServiceNamespace, Name: SentinelServiceName},
				Value: &kapiv1.Service{
					ObjectMeta: metav1.ObjectMeta{Namespace: SentinelServiceNamespace, Name: SentinelServiceName},
					Spec:       kapiv1.ServiceSpec{Type: kapiv1.ServiceTypeClusterIP, ClusterIPs: []string{"10.96.0.1"}},
				},
			},
			UpdateType: api.UpdateTypeKVNew,
		}})
	}()

	res := &AsyncResult{InSyncMsgIndex: -1, InSyncDeliveredBefore: -1}
	timer := time.NewTimer(watchdog)
	defer timer.Stop()
	sawSentinel := false
	for !(sawSentinel && res.InSyncMsgIndex >= 0) {
		select {
		case msg := <-outC:
			mu.Lock()
			isd := inSyncDelivered
			mu.Unlock()
			if isd && res.InSyncDeliveredBefore < 0 {
				res.InSyncDeliveredBefore = len(res.Msgs)
			}
			if su, ok := msg.(*proto.ServiceUpdate); ok && su.Namespace == SentinelServiceNamespace && su.Name == SentinelServiceName {
				sawSentinel = true
				continue
			}
			if onMsg != nil {
				onMsg(msg, isd)
			}
			if _, ok := msg.(*proto.InSync); ok {
				res.InSyncMsgIndex = len(res.Msgs)
			}
			res.Msgs = append(res.Msgs, CloneMsg(msg))
		case <-timer.C:
			res.TimedOut = true
			// Keep draining in the background so the graph goroutine is not wedged forever on a
			// send while holding references.
			go func() {
				for range outC {
				}
			}()
			return res
		}
	}
	if res.InSyncDeliveredBefore < 0 {
		res.InSyncDeliveredBefore = len(res.Msgs)
	}
	return res
}

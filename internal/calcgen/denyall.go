package calcgen

import (
	"fmt"
	"net/netip"
	"strings"

	"github.com/projectcalico/calico/felix/proto"

	"verif/internal/shadowdp"
)

// A tiny reference evaluator of emitted proto.Rule lists on probe packets, used by C05 to decide
// whether a profile's emitted rules "deny everything".  Written from the rule documentation in
// felix/proto/felixbackend.proto (all positive criteria must hold, no negated criterion may hold;
// "log" rules do not terminate).  Criteria it does not model make the verdict unknown.

// Packet is one probe packet.
type Packet struct {
	IPVersion int
	Proto     string // "tcp", "udp", "sctp", "icmp", "icmpv6", "other"
	Src, Dst  netip.Addr
	SPort     int
	DPort     int
	ICMPType  int
	ICMPCode  int
}

// ProbePackets is a small fixed probe set: both IP versions, port-carrying / ICMP / other
// protocols, addresses inside and outside the nets and IP sets the generator uses.
func ProbePackets() []Packet {
	var out []Packet
	v4 := []string{"10.0.0.1", "10.0.1.2", "192.168.5.5", "12.0.0.5", "8.8.8.8"}
	v6 := []string{"fd00::1", "feed:beef::1", "2001:db8::1"}
	for _, pr := range []string{"tcp", "udp", "sctp", "icmp", "other"} {
		for i, s := range v4 {
			d := v4[(i+1)%len(v4)]
			p := Packet{IPVersion: 4, Proto: pr, Src: netip.MustParseAddr(s), Dst: netip.MustParseAddr(d), SPort: 1000 + i, DPort: []int{80, 53, 8080, 9090, 443}[i], ICMPType: 8, ICMPCode: 0}
			out = append(out, p)
		}
	}
	for _, pr := range []string{"tcp", "udp", "icmpv6", "other"} {
		for i, s := range v6 {
			d := v6[(i+1)%len(v6)]
			out = append(out, Packet{IPVersion: 6, Proto: pr, Src: netip.MustParseAddr(s), Dst: netip.MustParseAddr(d), SPort: 2000 + i, DPort: []int{80, 53, 443}[i], ICMPType: 128})
		}
	}
	return out
}

func protoNumber(name string) int {
	switch strings.ToLower(name) {
	case "tcp":
		return 6
	case "udp":
		return 17
	case "icmp":
		return 1
	case "icmpv6":
		return 58
	case "sctp":
		return 132
	case "udplite":
		return 136
	}
	return 253
}

func protoMatches(p *proto.Protocol, pkt Packet) bool {
	switch v := p.GetNumberOrName().(type) {
	case *proto.Protocol_Name:
		return protoNumber(v.Name) == protoNumber(pkt.Proto)
	case *proto.Protocol_Number:
		return int(v.Number) == protoNumber(pkt.Proto)
	}
	return false
}

func inNets(nets []string, a netip.Addr) (bool, error) {
	for _, n := range nets {
		pfx, err := netip.ParsePrefix(n)
		if err != nil {
			return false, err
		}
		if pfx.Contains(a) {
			return true, nil
		}
	}
	return false, nil
}

func inPorts(ports []*proto.PortRange, p int) bool {
	for _, r := range ports {
		if int(r.First) <= p && p <= int(r.Last) {
			return true
		}
	}
	return false
}

func hasPorts(pkt Packet) bool { return pkt.Proto == "tcp" || pkt.Proto == "udp" || pkt.Proto == "sctp" }

func inIPSet(sets map[string]*shadowdp.IPSet, id string, a netip.Addr) (bool, error) {
	s, ok := sets[id]
	if !ok {
		return false, fmt.Errorf("unknown ip set %s", id)
	}
	for m := range s.Members {
		if strings.Contains(m, ",") {
			return false, fmt.Errorf("ip set %s is not a plain net set", id)
		}
		if pfx, err := netip.ParsePrefix(m); err == nil {
			if pfx.Contains(a) {
				return true, nil
			}
			continue
		}
		if addr, err := netip.ParseAddr(m); err == nil {
			if addr == a {
				return true, nil
			}
			continue
		}
		return false, fmt.Errorf("ip set %s has unparseable member %q", id, m)
	}
	return false, nil
}

func inNamedPortSet(sets map[string]*shadowdp.IPSet, id string, a netip.Addr, pr string, port int) (bool, error) {
	s, ok := sets[id]
	if !ok {
		return false, fmt.Errorf("unknown ip set %s", id)
	}
	_, ok = s.Members[fmt.Sprintf("%s,%s:%d", a, pr, port)]
	return ok, nil
}

// RuleMatches evaluates one emitted rule on a packet.  err != nil means "unknown" (the rule uses a
// criterion this evaluator does not model, or refers to an IP set the dataplane lacks).
func RuleMatches(r *proto.Rule, pkt Packet, sets map[string]*shadowdp.IPSet) (bool, error) {
	if r.HttpMatch != nil || r.SrcServiceAccountMatch != nil || r.DstServiceAccountMatch != nil || len(r.DstIpPortSetIds) > 0 {
		return false, fmt.Errorf("unmodelled criterion")
	}
	if r.IpVersion != proto.IPVersion_ANY && int(r.IpVersion) != pkt.IPVersion {
		return false, nil
	}
	if r.Protocol != nil && !protoMatches(r.Protocol, pkt) {
		return false, nil
	}
	if r.NotProtocol != nil && protoMatches(r.NotProtocol, pkt) {
		return false, nil
	}
	type side struct {
		addr                  netip.Addr
		port                  int
		nets, notNets         []string
		ports, notPorts       []*proto.PortRange
		sets, notSets         []string
		npSets, notNPSets     []string
	}
	for _, s := range []side{
		{pkt.Src, pkt.SPort, r.SrcNet, r.NotSrcNet, r.SrcPorts, r.NotSrcPorts, r.SrcIpSetIds, r.NotSrcIpSetIds, r.SrcNamedPortIpSetIds, r.NotSrcNamedPortIpSetIds},
		{pkt.Dst, pkt.DPort, r.DstNet, r.NotDstNet, r.DstPorts, r.NotDstPorts, r.DstIpSetIds, r.NotDstIpSetIds, r.DstNamedPortIpSetIds, r.NotDstNamedPortIpSetIds},
	} {
		if len(s.nets) > 0 {
			in, err := inNets(s.nets, s.addr)
			if err != nil {
				return false, err
			}
			if !in {
				return false, nil
			}
		}
		if len(s.notNets) > 0 {
			in, err := inNets(s.notNets, s.addr)
			if err != nil {
				return false, err
			}
			if in {
				return false, nil
			}
		}
		for _, id := range s.sets {
			in, err := inIPSet(sets, id, s.addr)
			if err != nil {
				return false, err
			}
			if !in {
				return false, nil
			}
		}
		for _, id := range s.notSets {
			in, err := inIPSet(sets, id, s.addr)
			if err != nil {
				return false, err
			}
			if in {
				return false, nil
			}
		}
		if len(s.ports)+len(s.npSets) > 0 {
			if !hasPorts(pkt) {
				return false, nil
			}
			ok := inPorts(s.ports, s.port)
			for _, id := range s.npSets {
				in, err := inNamedPortSet(sets, id, s.addr, pkt.Proto, s.port)
				if err != nil {
					return false, err
				}
				ok = ok || in
			}
			if !ok {
				return false, nil
			}
		}
		if len(s.notPorts)+len(s.notNPSets) > 0 && hasPorts(pkt) {
			if inPorts(s.notPorts, s.port) {
				return false, nil
			}
			for _, id := range s.notNPSets {
				in, err := inNamedPortSet(sets, id, s.addr, pkt.Proto, s.port)
				if err != nil {
					return false, err
				}
				if in {
					return false, nil
				}
			}
		}
	}
	isICMP := pkt.Proto == "icmp" || pkt.Proto == "icmpv6"
	switch v := r.Icmp.(type) {
	case *proto.Rule_IcmpType:
		if !isICMP || int(v.IcmpType) != pkt.ICMPType {
			return false, nil
		}
	case *proto.Rule_IcmpTypeCode:
		if !isICMP || int(v.IcmpTypeCode.Type) != pkt.ICMPType || int(v.IcmpTypeCode.Code) != pkt.ICMPCode {
			return false, nil
		}
	}
	switch v := r.NotIcmp.(type) {
	case *proto.Rule_NotIcmpType:
		if isICMP && int(v.NotIcmpType) == pkt.ICMPType {
			return false, nil
		}
	case *proto.Rule_NotIcmpTypeCode:
		if isICMP && int(v.NotIcmpTypeCode.Type) == pkt.ICMPType && int(v.NotIcmpTypeCode.Code) == pkt.ICMPCode {
			return false, nil
		}
	}
	return true, nil
}

// DeniesAll decides whether a rule list denies every probe packet: for each packet the first
// matching non-log rule must have action "deny".  It returns (true, "", nil) if so, (false, why,
// nil) with a counter-example otherwise, and a non-nil error if the verdict is unknown.
func DeniesAll(rules []*proto.Rule, sets map[string]*shadowdp.IPSet) (bool, string, error) {
	for _, pkt := range ProbePackets() {
		verdict := ""
		for i, r := range rules {
			m, err := RuleMatches(r, pkt, sets)
			if err != nil {
				return false, "", err
			}
			if !m {
				continue
			}
			if strings.EqualFold(r.Action, "log") {
				continue
			}
			verdict = fmt.Sprintf("rule %d action %q", i, r.Action)
			if !strings.EqualFold(r.Action, "deny") {
				return false, fmt.Sprintf("packet %+v is not denied: first matching %s", pkt, verdict), nil
			}
			break
		}
		if verdict == "" {
			return false, fmt.Sprintf("packet %+v matches no rule (falls through to the next profile)", pkt), nil
		}
	}
	return true, "", nil
}

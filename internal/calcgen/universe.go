// Package calcgen generates datastore states and update histories for Felix's calculation graph
// over a small bounded universe, and drives the real graph (calc.NewCalculationGraph +
// NewEventSequencer + NewValidationFilter, assembled as felix/calc/calc_graph_fv_test.go does) with
// them.
//
// The three layers are independent and small:
//
//	Universe   — a fixed list of datastore keys, each with a handful of candidate values (some
//	             deliberately invalid and tagged so); NewUniverse(r, size).
//	History    — a list of Ops (update batches, in-sync, flush) produced by a random walk over the
//	             universe plus the upstream-contract distortions of felix/design/calc-graph.md;
//	             GenHistory(r, u, opts).  FreshOps(u, state, order) is the "fresh Felix" history.
//	Driver     — the assembled real graph; NewDriver(u, opts, out) / Apply(op) for the synchronous
//	             graph, RunAsync(u, opts, ops) for calc.NewAsyncCalcGraph with real goroutines.
//
// Everything is deterministic from the *rand.Rand handed in.
package calcgen

import (
	"fmt"
	"math/rand"
	gonet "net"
	"net/netip"
	"sort"
	"strings"

	v3 "github.com/projectcalico/api/pkg/apis/projectcalico/v3"
	"github.com/projectcalico/api/pkg/lib/numorstring"
	kapiv1 "k8s.io/api/core/v1"
	discovery "k8s.io/api/discovery/v1"
	metav1 "k8s.io/apimachinery/pkg/apis/meta/v1"

	"github.com/projectcalico/calico/lib/std/uniquelabels"
	"github.com/projectcalico/calico/libcalico-go/lib/apis/internalapi"
	"github.com/projectcalico/calico/libcalico-go/lib/backend/api"
	"github.com/projectcalico/calico/libcalico-go/lib/backend/encap"
	"github.com/projectcalico/calico/libcalico-go/lib/backend/model"
	cnet "github.com/projectcalico/calico/libcalico-go/lib/net"
)

// Hostnames of the universe.  LocalHost is the node Felix runs on.
const (
	LocalHost   = "node-a"
	RemoteHostB = "node-b"
	RemoteHostC = "node-c"
)

// Class names of keys (KeySpec.Class).
const (
	ClassWEP           = "wep"
	ClassHEP           = "hep"
	ClassProfileRules  = "profile-rules"
	ClassProfileLabels = "profile-labels"
	ClassTier          = "tier"
	ClassPolicy        = "policy"
	ClassNetSet        = "netset"
	ClassPool          = "ippool"
	ClassBlock         = "block"
	ClassNode          = "node"
	ClassHostConfig    = "hostconfig"
	ClassWireguard     = "wireguard"
	ClassConfig        = "config"
	ClassService       = "service"
)

// Value is one candidate value of a key.
type Value struct {
	// Desc is a short deterministic description (used in witnesses).
	Desc string
	// Valid is the generator's tag: false means the value is built to fail the repo's validation
	// (calc.ValidationFilter must nil it out).  Universe.SelfCheck verifies the tags against the
	// real validators.
	Valid bool
	// New builds a fresh copy of the value (pointer to a model/v3 struct, or a plain string for
	// config keys), so that no two deliveries share memory.
	New func() any
}

// KeySpec is one datastore key with its candidate values.
type KeySpec struct {
	Key    model.Key
	Class  string
	Local  bool // endpoint keys: hosted on LocalHost
	Values []Value
}

// Universe is the bounded set of keys and candidate values of one case.
type Universe struct {
	Keys         []KeySpec
	ProfileNames []string
	TierNames    []string
	Size         Size
}

// Size selects how rich the universe is.
type Size struct {
	// Routes adds IP pools, IPAM blocks, Node resources, host config (VXLAN tunnel addresses) and
	// wireguard keys, which drive the L3 route resolver, the VXLAN resolver and the passthrough.
	Routes bool
	// Extra adds more endpoints / policies (thorough tier).
	Extra bool
	// ProfileChurn biases endpoint values towards naming profiles (incl. absent ones) and adds
	// more invalid candidates (C05 mode).
	ProfileChurn bool
}

// State assigns to each key of the universe the index of its current candidate value, or -1 for
// "absent".
type State []int

// Clone copies the state.
func (s State) Clone() State { return append(State(nil), s...) }

// Absent is the value index meaning "the key does not exist".
const Absent = -1

// KV names one (key, value) pair of the universe by index; Val == Absent is a deletion.
type KV struct {
	Key int `json:"k"`
	Val int `json:"v"`
}

// Update renders a KV as the api.Update the syncer would deliver, with a fresh value object.
func (u *Universe) Update(kv KV, ut api.UpdateType) api.Update {
	var val any
	if kv.Val != Absent {
		val = u.Keys[kv.Key].Values[kv.Val].New()
	}
	return api.Update{KVPair: model.KVPair{Key: u.Keys[kv.Key].Key, Value: val}, UpdateType: ut}
}

// Describe renders a KV for witnesses.
func (u *Universe) Describe(kv KV) string {
	k := u.Keys[kv.Key]
	if kv.Val == Absent {
		return fmt.Sprintf("%v = <deleted>", k.Key)
	}
	v := k.Values[kv.Val]
	tag := ""
	if !v.Valid {
		tag = " [INVALID]"
	}
	return fmt.Sprintf("%v = #%d %s%s", k.Key, kv.Val, v.Desc, tag)
}

// DescribeState lists the non-absent keys of a state.
func (u *Universe) DescribeState(s State) []string {
	var out []string
	for k, v := range s {
		if v != Absent {
			out = append(out, u.Describe(KV{k, v}))
		}
	}
	return out
}

// EmptyState returns the state in which every key is absent.
func (u *Universe) EmptyState() State {
	s := make(State, len(u.Keys))
	for i := range s {
		s[i] = Absent
	}
	return s
}

// EffectiveValue returns the value the graph sees behind the validation filter for key k in state
// s: a fresh object, or nil if the key is absent or its value is tagged invalid.
func (u *Universe) EffectiveValue(s State, k int) any {
	if s[k] == Absent || !u.Keys[k].Values[s[k]].Valid {
		return nil
	}
	return u.Keys[k].Values[s[k]].New()
}

// WithoutInvalid returns a copy of s in which every invalid value is replaced by absence.
func (u *Universe) WithoutInvalid(s State) State {
	out := s.Clone()
	for k, v := range s {
		if v != Absent && !u.Keys[k].Values[v].Valid {
			out[k] = Absent
		}
	}
	return out
}

// ---------------------------------------------------------------------------------------------
// small helpers

func mustNet(s string) cnet.IPNet {
	_, n, err := cnet.ParseCIDR(s)
	if err != nil {
		panic(err)
	}
	return *n
}

func mustNetPtr(s string) *cnet.IPNet {
	n := mustNet(s)
	return &n
}

func mustIP(s string) cnet.IP { return cnet.IP{IP: gonet.ParseIP(s)} }

func mustMAC(s string) *cnet.MAC {
	hw, err := gonet.ParseMAC(s)
	if err != nil {
		panic(err)
	}
	return &cnet.MAC{HardwareAddr: hw}
}

func fptr(f float64) *float64 { return &f }
func iptr(i int) *int         { return &i }
func sptr(s string) *string   { return &s }

func pick[T any](r *rand.Rand, xs []T) T { return xs[r.Intn(len(xs))] }

func subset[T any](r *rand.Rand, xs []T, maxN int) []T {
	n := r.Intn(maxN + 1)
	if n > len(xs) {
		n = len(xs)
	}
	perm := r.Perm(len(xs))
	out := make([]T, 0, n)
	for _, i := range perm[:n] {
		out = append(out, xs[i])
	}
	return out
}

func copyMap(m map[string]string) map[string]string {
	out := make(map[string]string, len(m))
	for k, v := range m {
		out[k] = v
	}
	return out
}

func descMap(m map[string]string) string {
	ks := make([]string, 0, len(m))
	for k := range m {
		ks = append(ks, k)
	}
	sort.Strings(ks)
	var b strings.Builder
	b.WriteString("{")
	for i, k := range ks {
		if i > 0 {
			b.WriteString(",")
		}
		b.WriteString(k + "=" + m[k])
	}
	b.WriteString("}")
	return b.String()
}

// ---------------------------------------------------------------------------------------------
// label / selector universe

var labelKeys = []string{"a", "b", "c", "d"}

func labelVals(k string) []string { return []string{k + "1", k + "2", k + "3"} }

// Labels that profiles may apply.  A shared key always carries the SAME value whichever profile
// (and whichever candidate of it) applies it, so that two profiles of one endpoint never disagree:
// which profile wins such a conflict is not fixed by the properties.
func profileSharedLabel(k string) string { return k + "1" }

func genEndpointLabels(r *rand.Rand) map[string]string {
	m := map[string]string{}
	for _, k := range labelKeys {
		if r.Intn(3) != 0 {
			m[k] = pick(r, labelVals(k))
		}
	}
	return m
}

func (g *gen) genSelector() string {
	r := g.r
	atom := func() string {
		k := pick(r, labelKeys)
		switch r.Intn(9) {
		case 0:
			return "all()"
		case 1:
			return fmt.Sprintf("has(%s)", k)
		case 2:
			return fmt.Sprintf("!has(%s)", k)
		case 3:
			return fmt.Sprintf("%s != '%s'", k, pick(r, labelVals(k)))
		case 4:
			vs := labelVals(k)
			return fmt.Sprintf("%s in {'%s','%s'}", k, vs[r.Intn(3)], vs[r.Intn(3)])
		case 5:
			// a profile-private label: only inherited labels can match
			p := pick(r, g.u.ProfileNames)
			return fmt.Sprintf("pk-%s == 'x'", sanitize(p))
		default:
			return fmt.Sprintf("%s == '%s'", k, pick(r, labelVals(k)))
		}
	}
	switch r.Intn(5) {
	case 0:
		return fmt.Sprintf("%s && %s", atom(), atom())
	case 1:
		return fmt.Sprintf("(%s) || (%s)", atom(), atom())
	default:
		return atom()
	}
}

func sanitize(s string) string { return strings.NewReplacer(".", "-").Replace(s) }

// ---------------------------------------------------------------------------------------------
// rules

type portSpec struct {
	name     string
	min, max uint16
}

func (p portSpec) build() numorstring.Port {
	if p.name != "" {
		return numorstring.Port{PortName: p.name}
	}
	return numorstring.Port{MinPort: p.min, MaxPort: p.max}
}

type ruleSpec struct {
	action                                     string
	proto, notProto                            string
	srcSel, dstSel, notSrcSel, notDstSel       string
	srcNets, dstNets, notSrcNets, notDstNets   []string
	srcPorts, dstPorts, notSrcPorts, notDstPts []portSpec
	icmpType, icmpCode                         *int
	ipVersion                                  *int
	srcService, dstService                     string // "namespace/name"
}

func (s ruleSpec) desc() string {
	var parts []string
	add := func(k, v string) {
		if v != "" {
			parts = append(parts, k+"="+v)
		}
	}
	add("act", s.action)
	add("proto", s.proto)
	add("!proto", s.notProto)
	add("src", s.srcSel)
	add("dst", s.dstSel)
	add("!src", s.notSrcSel)
	add("!dst", s.notDstSel)
	add("srcNets", strings.Join(s.srcNets, ","))
	add("dstNets", strings.Join(s.dstNets, ","))
	add("!srcNets", strings.Join(s.notSrcNets, ","))
	add("!dstNets", strings.Join(s.notDstNets, ","))
	pd := func(ps []portSpec) string {
		var o []string
		for _, p := range ps {
			if p.name != "" {
				o = append(o, p.name)
			} else {
				o = append(o, fmt.Sprintf("%d-%d", p.min, p.max))
			}
		}
		return strings.Join(o, ",")
	}
	add("sport", pd(s.srcPorts))
	add("dport", pd(s.dstPorts))
	add("!sport", pd(s.notSrcPorts))
	add("!dport", pd(s.notDstPts))
	add("srcSvc", s.srcService)
	add("dstSvc", s.dstService)
	if s.icmpType != nil {
		add("icmpType", fmt.Sprint(*s.icmpType))
	}
	if s.icmpCode != nil {
		add("icmpCode", fmt.Sprint(*s.icmpCode))
	}
	if s.ipVersion != nil {
		add("ipv", fmt.Sprint(*s.ipVersion))
	}
	return "{" + strings.Join(parts, " ") + "}"
}

func (s ruleSpec) build() model.Rule {
	r := model.Rule{Action: s.action, SrcSelector: s.srcSel, DstSelector: s.dstSel,
		NotSrcSelector: s.notSrcSel, NotDstSelector: s.notDstSel, IPVersion: s.ipVersion}
	if s.proto != "" {
		p := numorstring.ProtocolFromStringV1(s.proto)
		r.Protocol = &p
	}
	if s.notProto != "" {
		p := numorstring.ProtocolFromStringV1(s.notProto)
		r.NotProtocol = &p
	}
	nets := func(in []string) []*cnet.IPNet {
		var out []*cnet.IPNet
		for _, n := range in {
			out = append(out, mustNetPtr(n))
		}
		return out
	}
	r.SrcNets, r.DstNets, r.NotSrcNets, r.NotDstNets = nets(s.srcNets), nets(s.dstNets), nets(s.notSrcNets), nets(s.notDstNets)
	ports := func(in []portSpec) []numorstring.Port {
		var out []numorstring.Port
		for _, p := range in {
			out = append(out, p.build())
		}
		return out
	}
	r.SrcPorts, r.DstPorts, r.NotSrcPorts, r.NotDstPorts = ports(s.srcPorts), ports(s.dstPorts), ports(s.notSrcPorts), ports(s.notDstPts)
	if s.icmpType != nil {
		r.ICMPType = iptr(*s.icmpType)
	}
	if s.icmpCode != nil {
		r.ICMPCode = iptr(*s.icmpCode)
	}
	if s.srcService != "" {
		ns, n, _ := strings.Cut(s.srcService, "/")
		r.SrcService, r.SrcServiceNamespace = n, ns
	}
	if s.dstService != "" {
		ns, n, _ := strings.Cut(s.dstService, "/")
		r.DstService, r.DstServiceNamespace = n, ns
	}
	return r
}

var ruleNets = []string{"10.0.0.0/24", "10.0.0.1/32", "0.0.0.0/0", "192.168.0.0/16", "fd00::/64", "10.0.1.0/29"}
var namedPorts = []string{"http", "dns", "metrics"}

// genRule generates a rule that passes the backend validators.
func (g *gen) genRule() ruleSpec {
	r := g.r
	s := ruleSpec{action: pick(r, []string{"allow", "deny", "allow", "deny", "next-tier", "log", ""})}
	// selectors (these become IP sets)
	if r.Intn(2) == 0 {
		s.srcSel = g.genSelector()
	}
	if r.Intn(3) == 0 {
		s.dstSel = g.genSelector()
	}
	if r.Intn(5) == 0 {
		s.notSrcSel = g.genSelector()
	}
	if r.Intn(6) == 0 {
		s.notDstSel = g.genSelector()
	}
	// nets
	if r.Intn(4) == 0 {
		s.srcNets = subset(r, ruleNets, 2)
	}
	if r.Intn(5) == 0 {
		s.dstNets = subset(r, ruleNets, 2)
	}
	if r.Intn(8) == 0 {
		s.notSrcNets = subset(r, ruleNets, 1)
	}
	// protocol / ports / icmp
	switch r.Intn(6) {
	case 0, 1:
		s.proto = pick(r, []string{"tcp", "udp", "sctp"})
		genPorts := func() []portSpec {
			var ps []portSpec
			for i, n := 0, r.Intn(3); i < n; i++ {
				if r.Intn(2) == 0 {
					ps = append(ps, portSpec{name: pick(r, namedPorts)})
				} else {
					lo := uint16(1 + r.Intn(1000))
					ps = append(ps, portSpec{min: lo, max: lo + uint16(r.Intn(3))})
				}
			}
			return ps
		}
		switch r.Intn(4) {
		case 0:
			s.srcPorts = genPorts()
		case 1:
			s.dstPorts = genPorts()
		case 2:
			s.dstPorts = genPorts()
			s.notDstPts = genPorts()
		default:
			s.notSrcPorts = genPorts()
		}
	case 2:
		// named ports need no protocol
		s.dstPorts = []portSpec{{name: pick(r, namedPorts)}}
	case 3:
		s.proto = "icmp"
		if r.Intn(2) == 0 {
			s.icmpType = iptr(r.Intn(20))
			if r.Intn(2) == 0 {
				s.icmpCode = iptr(r.Intn(5))
			}
		}
	case 4:
		s.notProto = pick(r, []string{"tcp", "udp"})
	}
	if r.Intn(8) == 0 {
		s.ipVersion = iptr(pick(r, []int{4, 6}))
	}
	if g.u.Size.Routes && r.Intn(8) == 0 {
		// service match: replaces the selector/net/port match of that side (as the v3 API requires)
		svc := pick(r, serviceNames)
		if r.Intn(2) == 0 {
			s.dstService, s.dstSel, s.notDstSel, s.dstNets, s.dstPorts, s.notDstPts = svc, "", "", nil, nil, nil
		} else {
			s.srcService, s.srcSel, s.notSrcSel, s.srcNets, s.notSrcNets, s.srcPorts, s.notSrcPorts = svc, "", "", nil, nil, nil, nil
		}
	}
	return s
}

var serviceNames = []string{"ns1/svc1", "ns1/svc2"}

// genInvalidRule generates a rule that the backend validator rejects.
func (g *gen) genInvalidRule() ruleSpec {
	s := g.genRule()
	switch g.r.Intn(4) {
	case 0:
		// numeric port without a protocol
		s.proto, s.icmpType, s.icmpCode = "", nil, nil
		s.dstPorts = []portSpec{{min: 80, max: 80}}
	case 1:
		// port on a protocol without ports
		s.proto = "icmp"
		s.srcPorts = []portSpec{{min: 1, max: 2}}
	case 2:
		s.srcSel = "a == " // unparseable selector
	default:
		s.ipVersion = iptr(5)
	}
	return s
}

func (g *gen) genRules(maxN int) []ruleSpec {
	n := g.r.Intn(maxN + 1)
	out := make([]ruleSpec, n)
	for i := range out {
		out[i] = g.genRule()
	}
	return out
}

func descRules(rs []ruleSpec) string {
	var parts []string
	for _, r := range rs {
		parts = append(parts, r.desc())
	}
	return "[" + strings.Join(parts, " ") + "]"
}

func buildRules(rs []ruleSpec) []model.Rule {
	if rs == nil {
		return nil
	}
	out := make([]model.Rule, len(rs))
	for i, r := range rs {
		out[i] = r.build()
	}
	return out
}

// ---------------------------------------------------------------------------------------------
// generator

type gen struct {
	r *rand.Rand
	u *Universe
}

var wepIPv4 = []string{"10.0.0.1/32", "10.0.0.2/32", "10.0.0.3/32", "10.0.1.1/32", "10.0.1.2/32", "10.0.2.1/32"}
var wepIPv6 = []string{"fd00::1/128", "fd00::2/128", "fd00:0:0:1::1/128"}

type epPort struct {
	name  string
	proto string
	port  uint16
}

var epPorts = []epPort{{"http", "tcp", 80}, {"http", "tcp", 8080}, {"dns", "udp", 53}, {"metrics", "tcp", 9090}, {"dns", "tcp", 53}}

func buildPorts(ps []epPort) []model.EndpointPort {
	var out []model.EndpointPort
	for _, p := range ps {
		out = append(out, model.EndpointPort{Name: p.name, Protocol: numorstring.ProtocolFromStringV1(p.proto), Port: p.port})
	}
	return out
}

func (g *gen) genProfileIDs() []string {
	names := append([]string{}, g.u.ProfileNames...)
	names = append(names, "p-missing")
	maxN := 2
	if g.u.Size.ProfileChurn {
		maxN = 3
		if g.r.Intn(3) != 0 {
			// favour at least one profile reference
			out := subset(g.r, names, maxN)
			if len(out) == 0 {
				out = []string{pick(g.r, names)}
			}
			return out
		}
	}
	return subset(g.r, names, maxN)
}

func (g *gen) wepValues(key model.WorkloadEndpointKey, idx int) []Value {
	r := g.r
	var vals []Value
	n := 4
	for i := 0; i < n; i++ {
		labels := genEndpointLabels(r)
		if r.Intn(6) == 0 {
			// kubernetes-ish labels so that the Istio selector and namespace selectors can match
			labels["projectcalico.org/orchestrator"] = "k8s"
			labels["projectcalico.org/namespace"] = "ns1"
		}
		profs := g.genProfileIDs()
		v4 := subset(r, wepIPv4, 2)
		v6 := subset(r, wepIPv6, 1)
		ports := subset(r, epPorts, 2)
		name := fmt.Sprintf("cali%d", idx)
		withMac := r.Intn(2) == 0
		invalid := ""
		if i == n-1 || (g.u.Size.ProfileChurn && i == n-2) {
			invalid = pick(r, []string{"noname", "badport", "spoof"})
		}
		desc := fmt.Sprintf("wep labels=%s profiles=%v v4=%v v6=%v ports=%v", descMap(labels), profs, v4, v6, ports)
		if invalid != "" {
			desc += " invalid=" + invalid
		}
		vals = append(vals, Value{Desc: desc, Valid: invalid == "", New: func() any {
			w := &model.WorkloadEndpoint{State: "active", Name: name, ProfileIDs: append([]string(nil), profs...),
				Labels: uniquelabels.Make(copyMap(labels)), Ports: buildPorts(ports)}
			if withMac {
				w.Mac = mustMAC("02:00:00:00:00:0" + fmt.Sprint(idx%10))
			}
			for _, n := range v4 {
				w.IPv4Nets = append(w.IPv4Nets, mustNet(n))
			}
			for _, n := range v6 {
				w.IPv6Nets = append(w.IPv6Nets, mustNet(n))
			}
			switch invalid {
			case "noname":
				w.Name = ""
			case "badport":
				w.Ports = append(w.Ports, model.EndpointPort{Name: "bad", Protocol: numorstring.ProtocolFromStringV1("icmp"), Port: 1})
			case "spoof":
				w.AllowSpoofedSourcePrefixes = []cnet.IPNet{mustNet("1.2.3.0/24")}
			}
			return w
		}})
	}
	return vals
}

func (g *gen) hepValues(idx int) []Value {
	r := g.r
	var vals []Value
	n := 4
	for i := 0; i < n; i++ {
		labels := genEndpointLabels(r)
		profs := g.genProfileIDs()
		name := pick(r, []string{"eth0", "eth1", ""})
		var v4 []string
		for _, n := range subset(r, wepIPv4, 2) {
			v4 = append(v4, strings.TrimSuffix(n, "/32"))
		}
		if name == "" && len(v4) == 0 {
			v4 = []string{"10.0.0.1"}
		}
		ports := subset(r, epPorts, 2)
		invalid := i == n-1
		desc := fmt.Sprintf("hep name=%q labels=%s profiles=%v v4=%v ports=%v", name, descMap(labels), profs, v4, ports)
		if invalid {
			desc += " invalid=ifacename"
		}
		vals = append(vals, Value{Desc: desc, Valid: !invalid, New: func() any {
			h := &model.HostEndpoint{Name: name, ProfileIDs: append([]string(nil), profs...),
				Labels: uniquelabels.Make(copyMap(labels)), Ports: buildPorts(ports)}
			for _, a := range v4 {
				h.ExpectedIPv4Addrs = append(h.ExpectedIPv4Addrs, mustIP(a))
			}
			if invalid {
				h.Name = "interface-name-way-too-long"
			}
			return h
		}})
	}
	return vals
}

func (g *gen) profileRulesValues() []Value {
	var vals []Value
	n := 4
	for i := 0; i < n; i++ {
		in, out := g.genRules(2), g.genRules(2)
		invalid := i == n-1 || (g.u.Size.ProfileChurn && i == n-2)
		if invalid {
			if g.r.Intn(2) == 0 {
				in = append(in, g.genInvalidRule())
			} else {
				out = append([]ruleSpec{g.genInvalidRule()}, out...)
			}
		}
		desc := fmt.Sprintf("profile-rules in=%s out=%s", descRules(in), descRules(out))
		vals = append(vals, Value{Desc: desc, Valid: !invalid, New: func() any {
			return &model.ProfileRules{InboundRules: buildRules(in), OutboundRules: buildRules(out)}
		}})
	}
	return vals
}

func (g *gen) profileLabelsValues(name string) []Value {
	r := g.r
	var vals []Value
	n := 4
	for i := 0; i < n; i++ {
		labels := map[string]string{}
		if r.Intn(4) != 0 {
			labels["pk-"+sanitize(name)] = pick(r, []string{"x", "y"})
		}
		for _, k := range labelKeys {
			if r.Intn(4) == 0 {
				labels[k] = profileSharedLabel(k)
			}
		}
		if strings.HasPrefix(name, "kns.") {
			labels["pcns.team"] = pick(r, []string{"red", "blue"})
			if r.Intn(3) == 0 {
				labels["pcns.istio.io/dataplane-mode"] = pick(r, []string{"ambient", "none"})
			}
		}
		if strings.HasPrefix(name, "ksa.") {
			labels["pcsa.role"] = pick(r, []string{"db", "web"})
		}
		invalid := i == n-1
		if invalid {
			labels["a"] = "not a valid label value!"
		}
		desc := fmt.Sprintf("profile-labels %s", descMap(labels))
		vals = append(vals, Value{Desc: desc, Valid: !invalid, New: func() any {
			return &v3.Profile{
				TypeMeta:   metav1.TypeMeta{Kind: v3.KindProfile, APIVersion: v3.GroupVersionCurrent},
				ObjectMeta: metav1.ObjectMeta{Name: name},
				Spec:       v3.ProfileSpec{LabelsToApply: copyMap(labels)},
			}
		}})
	}
	return vals
}

func (g *gen) tierValues() []Value {
	r := g.r
	var vals []Value
	orders := []*float64{nil, fptr(10), fptr(20), fptr(20), fptr(5), fptr(30)}
	for i := 0; i < 4; i++ {
		o := pick(r, orders)
		act := pick(r, []v3.Action{"", v3.Deny, v3.Pass})
		od := "nil"
		if o != nil {
			od = fmt.Sprint(*o)
		}
		vals = append(vals, Value{Desc: fmt.Sprintf("tier order=%s default=%q", od, act), Valid: true, New: func() any {
			t := &model.Tier{DefaultAction: act}
			if o != nil {
				t.Order = fptr(*o)
			}
			return t
		}})
	}
	return vals
}

func (g *gen) policyValues(key model.PolicyKey, hostPolicy bool) []Value {
	r := g.r
	var vals []Value
	n := 5
	tiers := append(append([]string{}, g.u.TierNames...), "t-missing")
	orders := []*float64{nil, fptr(10), fptr(20), fptr(20), fptr(20.5), fptr(1)}
	for i := 0; i < n; i++ {
		tier := pick(r, tiers)
		order := pick(r, orders)
		sel := g.genSelector()
		if r.Intn(3) == 0 {
			sel = "all()"
		}
		types := pick(r, [][]string{nil, {"ingress"}, {"egress"}, {"ingress", "egress"}})
		in, out := g.genRules(2), g.genRules(2)
		var doNotTrack, preDNAT, applyOnForward bool
		if hostPolicy {
			switch r.Intn(5) {
			case 0:
				doNotTrack, applyOnForward = true, true
			case 1:
				preDNAT, applyOnForward = true, true
				out = nil
				types = []string{"ingress"}
			case 2:
				applyOnForward = true
			}
		}
		always := r.Intn(8) == 0
		invalid := ""
		if i == n-1 {
			invalid = pick(r, []string{"selector", "rule", "hint"})
		}
		if invalid == "rule" {
			in = append(in, g.genInvalidRule())
		}
		var staged *v3.StagedAction
		if model.KindIsStaged(key.Kind) {
			a := v3.StagedActionSet
			staged = &a
		}
		od := "nil"
		if order != nil {
			od = fmt.Sprint(*order)
		}
		desc := fmt.Sprintf("policy tier=%s order=%s sel=%q types=%v untracked=%v prednat=%v aof=%v always=%v in=%s out=%s",
			tier, od, sel, types, doNotTrack, preDNAT, applyOnForward, always, descRules(in), descRules(out))
		if invalid != "" {
			desc += " invalid=" + invalid
		}
		vals = append(vals, Value{Desc: desc, Valid: invalid == "", New: func() any {
			p := &model.Policy{Namespace: key.Namespace, Tier: tier, Selector: sel, Types: append([]string(nil), types...),
				InboundRules: buildRules(in), OutboundRules: buildRules(out),
				DoNotTrack: doNotTrack, PreDNAT: preDNAT, ApplyOnForward: applyOnForward}
			if order != nil {
				p.Order = fptr(*order)
			}
			if always {
				p.PerformanceHints = []v3.PolicyPerformanceHint{v3.PerfHintAssumeNeededOnEveryNode}
			}
			if staged != nil {
				a := *staged
				p.StagedAction = &a
			}
			switch invalid {
			case "selector":
				p.Selector = "a == 'a1' &&"
			case "hint":
				p.PerformanceHints = []v3.PolicyPerformanceHint{"Bogus"}
			}
			return p
		}})
	}
	return vals
}

var netSetNets = []string{"12.0.0.0/24", "12.0.0.0/24", "12.0.0.128/25", "12.0.0.5/32", "10.0.0.1/32", "0.0.0.0/0", "12.1.0.0/16", "feed:beef::/32", "feed:beef::1/128"}

func (g *gen) netSetValues() []Value {
	r := g.r
	var vals []Value
	n := 4
	for i := 0; i < n; i++ {
		labels := genEndpointLabels(r)
		nets := subset(r, netSetNets, 4)
		var profs []string
		if r.Intn(3) == 0 {
			profs = subset(r, g.u.ProfileNames, 1)
		}
		invalid := i == n-1
		if invalid {
			profs = []string{"not a valid profile name!"}
		}
		desc := fmt.Sprintf("netset labels=%s nets=%v profiles=%v", descMap(labels), nets, profs)
		vals = append(vals, Value{Desc: desc, Valid: !invalid, New: func() any {
			ns := &model.NetworkSet{Labels: uniquelabels.Make(copyMap(labels)), ProfileIDs: append([]string(nil), profs...)}
			for _, n := range nets {
				ns.Nets = append(ns.Nets, mustNet(n))
			}
			return ns
		}})
	}
	return vals
}

// --- routes universe ---------------------------------------------------------------------------

func (g *gen) poolValues(cidr string) []Value {
	r := g.r
	var vals []Value
	v6 := strings.Contains(cidr, ":")
	for i := 0; i < 4; i++ {
		vx := pick(r, []encap.Mode{encap.Always, encap.Always, encap.CrossSubnet, encap.Never})
		ipip := encap.Never
		if vx == encap.Never && !v6 {
			ipip = pick(r, []encap.Mode{encap.Never, encap.Always, encap.CrossSubnet})
		}
		masq := r.Intn(2) == 0
		var uses []v3.IPPoolAllowedUse
		switch r.Intn(5) {
		case 0:
			uses = []v3.IPPoolAllowedUse{v3.IPPoolAllowedUseLoadBalancer}
		case 1:
			uses = []v3.IPPoolAllowedUse{v3.IPPoolAllowedUseWorkload, v3.IPPoolAllowedUseTunnel}
		}
		desc := fmt.Sprintf("pool %s vxlan=%q ipip=%q masq=%v uses=%v", cidr, vx, ipip, masq, uses)
		vals = append(vals, Value{Desc: desc, Valid: true, New: func() any {
			return &model.IPPool{CIDR: mustNet(cidr), VXLANMode: vx, IPIPMode: ipip, Masquerade: masq, IPAM: true,
				AllowedUses: append([]v3.IPPoolAllowedUse(nil), uses...)}
		}})
	}
	return vals
}

func (g *gen) blockValues(cidr string) []Value {
	r := g.r
	hosts := []string{LocalHost, RemoteHostB, RemoteHostC}
	var vals []Value
	for i := 0; i < 4; i++ {
		aff := pick(r, []string{"host:" + LocalHost, "host:" + RemoteHostB, "host:" + RemoteHostC, "host:" + RemoteHostB, ""})
		// up to 3 allocations, some borrowed by other hosts, some with no node attribute
		type alloc struct {
			ord  int
			host string
		}
		var allocs []alloc
		for _, ord := range subset(r, []int{0, 1, 2, 3, 5}, 3) {
			allocs = append(allocs, alloc{ord, pick(r, append(hosts, ""))})
		}
		desc := fmt.Sprintf("block %s affinity=%q allocs=%v", cidr, aff, allocs)
		vals = append(vals, Value{Desc: desc, Valid: true, New: func() any {
			b := &model.AllocationBlock{CIDR: mustNet(cidr), Allocations: make([]*int, 8)}
			if aff != "" {
				b.Affinity = sptr(aff)
			}
			used := map[int]bool{}
			for i, a := range allocs {
				b.Allocations[a.ord] = iptr(i)
				used[a.ord] = true
				attr := model.AllocationAttribute{}
				if a.host != "" {
					attr.ActiveOwnerAttrs = map[string]string{model.IPAMBlockAttributeNode: a.host}
				}
				b.Attributes = append(b.Attributes, attr)
			}
			for o := 0; o < 8; o++ {
				if !used[o] {
					b.Unallocated = append(b.Unallocated, o)
				}
			}
			return b
		}})
	}
	return vals
}

func (g *gen) nodeValues(name string, n int) []Value {
	r := g.r
	var vals []Value
	for i := 0; i < 5; i++ {
		shape := pick(r, []string{"bgp4", "bgp4", "bgp46", "bgp4-24", "addrs", "nobgp", "bgp4-dup"})
		labels := map[string]string{}
		if r.Intn(2) == 0 {
			labels["rack"] = pick(r, []string{"r1", "r2"})
		}
		asn := r.Intn(4) == 0
		ip4 := fmt.Sprintf("192.168.0.%d", n)
		if shape == "bgp4-dup" {
			ip4 = "192.168.0.2" // the address node-b normally has: duplicate node IPs
		}
		if r.Intn(5) == 0 {
			ip4 = fmt.Sprintf("192.168.1.%d", n) // different subnet
		}
		ip6 := fmt.Sprintf("fd80::%d", n)
		invalid := i == 4
		desc := fmt.Sprintf("node %s shape=%s ip4=%s labels=%s asn=%v", name, shape, ip4, descMap(labels), asn)
		if invalid {
			desc += " invalid=bgp-address"
		}
		vals = append(vals, Value{Desc: desc, Valid: !invalid, New: func() any {
			nd := &internalapi.Node{
				TypeMeta:   metav1.TypeMeta{Kind: internalapi.KindNode, APIVersion: v3.GroupVersionCurrent},
				ObjectMeta: metav1.ObjectMeta{Name: name, Labels: copyMap(labels)},
			}
			if len(labels) == 0 {
				nd.Labels = nil
			}
			switch shape {
			case "bgp4", "bgp4-dup":
				nd.Spec.BGP = &internalapi.NodeBGPSpec{IPv4Address: ip4 + "/32"}
			case "bgp4-24":
				nd.Spec.BGP = &internalapi.NodeBGPSpec{IPv4Address: ip4 + "/24"}
			case "bgp46":
				nd.Spec.BGP = &internalapi.NodeBGPSpec{IPv4Address: ip4 + "/24", IPv6Address: ip6 + "/64"}
			case "addrs":
				nd.Spec.Addresses = []internalapi.NodeAddress{{Address: ip4, Type: internalapi.InternalIP}}
			case "nobgp":
			}
			if asn && nd.Spec.BGP != nil {
				a := numorstring.ASNumber(65000 + n)
				nd.Spec.BGP.ASNumber = &a
			}
			if invalid {
				nd.Spec.BGP = &internalapi.NodeBGPSpec{IPv4Address: "not-an-address"}
			}
			return nd
		}})
	}
	return vals
}

func (g *gen) wireguardValues(n int) []Value {
	r := g.r
	var vals []Value
	for i := 0; i < 3; i++ {
		key4 := pick(r, []string{"", "pubkey-a", "pubkey-b"})
		key6 := pick(r, []string{"", "", "pubkey6-a"})
		ip4 := pick(r, []string{"", fmt.Sprintf("10.0.%d.100", n)})
		ip6 := pick(r, []string{"", fmt.Sprintf("fd00::%d:100", n)})
		desc := fmt.Sprintf("wireguard key4=%q ip4=%q key6=%q ip6=%q", key4, ip4, key6, ip6)
		vals = append(vals, Value{Desc: desc, Valid: true, New: func() any {
			w := &model.Wireguard{PublicKey: key4, PublicKeyV6: key6}
			if ip4 != "" {
				a := mustIP(ip4)
				w.InterfaceIPv4Addr = &a
			}
			if ip6 != "" {
				a := mustIP(ip6)
				w.InterfaceIPv6Addr = &a
			}
			return w
		}})
	}
	return vals
}

func (g *gen) serviceValues(ns, name string) []Value {
	r := g.r
	var vals []Value
	for i := 0; i < 3; i++ {
		cips := subset(r, []string{"10.96.0.10", "10.96.0.11", "fd96::10"}, 2)
		typ := pick(r, []kapiv1.ServiceType{kapiv1.ServiceTypeClusterIP, kapiv1.ServiceTypeLoadBalancer, kapiv1.ServiceTypeNodePort})
		port := int32(pick(r, []int{80, 443, 53}))
		pr := pick(r, []kapiv1.Protocol{kapiv1.ProtocolTCP, kapiv1.ProtocolUDP})
		ext := subset(r, []string{"1.2.3.4"}, 1)
		desc := fmt.Sprintf("service %s/%s type=%s clusterIPs=%v port=%s/%d ext=%v", ns, name, typ, cips, pr, port, ext)
		vals = append(vals, Value{Desc: desc, Valid: true, New: func() any {
			return &kapiv1.Service{
				ObjectMeta: metav1.ObjectMeta{Namespace: ns, Name: name},
				Spec: kapiv1.ServiceSpec{Type: typ, ClusterIPs: append([]string(nil), cips...), ExternalIPs: append([]string(nil), ext...),
					Ports: []kapiv1.ServicePort{{Port: port, Protocol: pr}}},
			}
		}})
	}
	return vals
}

func (g *gen) endpointSliceValues(ns, name string) []Value {
	r := g.r
	var vals []Value
	for i := 0; i < 4; i++ {
		// the owning service may change (the kubernetes.io/service-name label is mutable)
		svc := strings.TrimPrefix(pick(r, serviceNames), ns+"/")
		addrs := subset(r, []string{"10.0.0.1", "10.0.0.2", "10.0.1.1", "10.0.0.2", "fd00::1"}, 3)
		nports := r.Intn(3)
		ports := subset(r, []int{80, 443, 53}, nports)
		pr := pick(r, []kapiv1.Protocol{kapiv1.ProtocolTCP, kapiv1.ProtocolUDP})
		desc := fmt.Sprintf("endpointslice %s/%s svc=%s addrs=%v ports=%s/%v", ns, name, svc, addrs, pr, ports)
		vals = append(vals, Value{Desc: desc, Valid: true, New: func() any {
			es := &discovery.EndpointSlice{
				ObjectMeta:  metav1.ObjectMeta{Namespace: ns, Name: name, Labels: map[string]string{"kubernetes.io/service-name": svc}},
				AddressType: discovery.AddressTypeIPv4,
			}
			for _, a := range addrs {
				es.Endpoints = append(es.Endpoints, discovery.Endpoint{Addresses: []string{a}})
			}
			for _, p := range ports {
				pp, prr := int32(p), pr
				es.Ports = append(es.Ports, discovery.EndpointPort{Port: &pp, Protocol: &prr})
			}
			return es
		}})
	}
	return vals
}

func (g *gen) bgpConfigValues() []Value {
	r := g.r
	var vals []Value
	for i := 0; i < 3; i++ {
		cl := subset(r, []string{"10.96.0.0/12", "fd96::/112"}, 2)
		ex := subset(r, []string{"1.2.3.0/24"}, 1)
		desc := fmt.Sprintf("bgpconfig clusterIPs=%v externalIPs=%v", cl, ex)
		vals = append(vals, Value{Desc: desc, Valid: true, New: func() any {
			b := &v3.BGPConfiguration{
				TypeMeta:   metav1.TypeMeta{Kind: v3.KindBGPConfiguration, APIVersion: v3.GroupVersionCurrent},
				ObjectMeta: metav1.ObjectMeta{Name: "default"},
			}
			for _, c := range cl {
				b.Spec.ServiceClusterIPs = append(b.Spec.ServiceClusterIPs, v3.ServiceClusterIPBlock{CIDR: c})
			}
			for _, c := range ex {
				b.Spec.ServiceExternalIPs = append(b.Spec.ServiceExternalIPs, v3.ServiceExternalIPBlock{CIDR: c})
			}
			return b
		}})
	}
	return vals
}

func stringValues(vs ...string) []Value {
	var out []Value
	for _, v := range vs {
		out = append(out, Value{Desc: fmt.Sprintf("%q", v), Valid: true, New: func() any { return v }})
	}
	return out
}

// NewUniverse builds the universe of one case from r.
func NewUniverse(r *rand.Rand, size Size) *Universe {
	u := &Universe{Size: size}
	g := &gen{r: r, u: u}
	u.ProfileNames = []string{"p1", "p2", "p3", "kns.ns1", "ksa.ns1.sa1"}
	u.TierNames = []string{"default", "t1", "t2", "t3"}

	add := func(k model.Key, class string, local bool, vals []Value) {
		u.Keys = append(u.Keys, KeySpec{Key: k, Class: class, Local: local, Values: vals})
	}
	// Profiles first: rules and labels.
	for _, p := range u.ProfileNames {
		add(model.ProfileRulesKey{ProfileKey: model.ProfileKey{Name: p}}, ClassProfileRules, false, g.profileRulesValues())
		add(model.ResourceKey{Kind: v3.KindProfile, Name: p}, ClassProfileLabels, false, g.profileLabelsValues(p))
	}
	for _, t := range u.TierNames {
		add(model.TierKey{Name: t}, ClassTier, false, g.tierValues())
	}
	polKeys := []model.PolicyKey{
		{Name: "g1", Kind: v3.KindGlobalNetworkPolicy},
		{Name: "g2", Kind: v3.KindGlobalNetworkPolicy},
		{Name: "g3", Kind: v3.KindGlobalNetworkPolicy},
		{Name: "n1", Namespace: "ns1", Kind: v3.KindNetworkPolicy},
		{Name: "g1", Kind: v3.KindStagedGlobalNetworkPolicy},
		{Name: "k1", Namespace: "ns1", Kind: model.KindKubernetesNetworkPolicy},
	}
	if size.Extra {
		polKeys = append(polKeys,
			model.PolicyKey{Name: "g4", Kind: v3.KindGlobalNetworkPolicy},
			model.PolicyKey{Name: "n1", Namespace: "ns2", Kind: v3.KindNetworkPolicy},
			model.PolicyKey{Name: "s1", Namespace: "ns1", Kind: v3.KindStagedNetworkPolicy},
		)
	}
	for _, pk := range polKeys {
		add(pk, ClassPolicy, false, g.policyValues(pk, pk.Namespace == ""))
	}
	nLocal, nRemote := 3, 2
	if size.Extra {
		nLocal, nRemote = 4, 3
	}
	for i := 1; i <= nLocal; i++ {
		k := model.WorkloadEndpointKey{Hostname: LocalHost, OrchestratorID: "k8s", WorkloadID: fmt.Sprintf("ns1/w%d", i), EndpointID: "eth0"}
		add(k, ClassWEP, true, g.wepValues(k, i))
	}
	for i := 1; i <= nRemote; i++ {
		host := RemoteHostB
		if i%2 == 0 {
			host = RemoteHostC
		}
		k := model.WorkloadEndpointKey{Hostname: host, OrchestratorID: "k8s", WorkloadID: fmt.Sprintf("ns1/r%d", i), EndpointID: "eth0"}
		add(k, ClassWEP, false, g.wepValues(k, 10+i))
	}
	add(model.HostEndpointKey{Hostname: LocalHost, EndpointID: "h1"}, ClassHEP, true, g.hepValues(1))
	add(model.HostEndpointKey{Hostname: LocalHost, EndpointID: "h2"}, ClassHEP, true, g.hepValues(2))
	add(model.HostEndpointKey{Hostname: RemoteHostB, EndpointID: "h1"}, ClassHEP, false, g.hepValues(3))
	for i := 1; i <= 3; i++ {
		add(model.NetworkSetKey{Name: fmt.Sprintf("ns%d", i)}, ClassNetSet, false, g.netSetValues())
	}
	if size.Routes {
		add(model.IPPoolKey{CIDR: netip.MustParsePrefix("10.0.0.0/16")}, ClassPool, false, g.poolValues("10.0.0.0/16"))
		add(model.IPPoolKey{CIDR: netip.MustParsePrefix("fd00::/64")}, ClassPool, false, g.poolValues("fd00::/64"))
		add(model.IPPoolKey{CIDR: netip.MustParsePrefix("10.0.1.0/29")}, ClassPool, false, g.poolValues("10.0.1.0/29"))
		for _, c := range []string{"10.0.0.0/29", "10.0.1.0/29", "10.0.2.0/29"} {
			add(model.BlockKey{CIDR: netip.MustParsePrefix(c)}, ClassBlock, false, g.blockValues(c))
		}
		for i, n := range []string{LocalHost, RemoteHostB, RemoteHostC} {
			add(model.ResourceKey{Kind: internalapi.KindNode, Name: n}, ClassNode, n == LocalHost, g.nodeValues(n, i+1))
			add(model.HostConfigKey{Hostname: n, Name: "IPv4VXLANTunnelAddr"}, ClassHostConfig, false,
				stringValues(fmt.Sprintf("10.0.%d.0", i), fmt.Sprintf("10.0.%d.1", i), "10.0.1.0"))
			if n != LocalHost {
				add(model.HostConfigKey{Hostname: n, Name: "IPv6VXLANTunnelAddr"}, ClassHostConfig, false,
					stringValues(fmt.Sprintf("fd00::%d:0", i), fmt.Sprintf("fd00::%d:1", i)))
				add(model.HostConfigKey{Hostname: n, Name: "VXLANTunnelMACAddr"}, ClassHostConfig, false,
					stringValues(fmt.Sprintf("66:00:00:00:00:0%d", i), fmt.Sprintf("66:00:00:00:01:0%d", i)))
				add(model.WireguardKey{NodeName: n}, ClassWireguard, false, g.wireguardValues(i))
			}
		}
		for _, sn := range serviceNames {
			ns, name, _ := strings.Cut(sn, "/")
			add(model.ResourceKey{Kind: model.KindKubernetesService, Namespace: ns, Name: name}, ClassService, false, g.serviceValues(ns, name))
		}
		for _, en := range []string{"eps1", "eps2"} {
			add(model.ResourceKey{Kind: model.KindKubernetesEndpointSlice, Namespace: "ns1", Name: en}, ClassService, false, g.endpointSliceValues("ns1", en))
		}
		add(model.ResourceKey{Kind: v3.KindBGPConfiguration, Name: "default"}, ClassConfig, false, g.bgpConfigValues())
	}
	return u
}

// LocalEndpointKeys returns the indexes of the endpoint keys hosted on LocalHost.
func (u *Universe) LocalEndpointKeys() []int {
	var out []int
	for i, k := range u.Keys {
		if (k.Class == ClassWEP || k.Class == ClassHEP) && k.Local {
			out = append(out, i)
		}
	}
	return out
}

// KeysOfClass returns the indexes of the keys of a class.
func (u *Universe) KeysOfClass(class string) []int {
	var out []int
	for i, k := range u.Keys {
		if k.Class == class {
			out = append(out, i)
		}
	}
	return out
}

// profileIDsOf returns the profile ids named by candidate value v of endpoint key k.
func (u *Universe) profileIDsOf(k, v int) []string {
	switch e := u.Keys[k].Values[v].New().(type) {
	case *model.WorkloadEndpoint:
		return e.ProfileIDs
	case *model.HostEndpoint:
		return e.ProfileIDs
	}
	return nil
}

func (u *Universe) profileNameOfRulesKey(k int) string {
	return u.Keys[k].Key.(model.ProfileRulesKey).Name
}

package calcgen

import (
	"fmt"
	"math/rand"
)

// OpKind is the kind of one harness operation.
type OpKind int

const (
	// OpUpdates delivers one batch of KVs through ValidationFilter.OnUpdates.
	OpUpdates OpKind = iota
	// OpInSync delivers api.InSync through ValidationFilter.OnStatusUpdated.
	OpInSync
	// OpResync delivers api.ResyncInProgress (only ever generated before OpInSync).
	OpResync
	// OpFlush calls CalcGraph.Flush() then EventSequencer.Flush() (synchronous driver only; the
	// asynchronous graph flushes on its own timer and ignores it).
	OpFlush
)

func (k OpKind) String() string {
	return [...]string{"updates", "in-sync", "resync-in-progress", "flush"}[k]
}

// Op is one harness operation.
type Op struct {
	Kind OpKind `json:"kind"`
	KVs  []KV   `json:"kvs,omitempty"`
	// Tag says which part of the generator produced an update batch: "write" (a datastore write
	// delivered at once), "catchup" (a lagging key catching up, i.e. coalesced writes), "dup",
	// "revert" (an older value from a stale replica), "spurious-delete", "final" (catch-up at the
	// end of the history), "fresh" (FreshOps).
	Tag string `json:"tag,omitempty"`
}

// Flush strategies.
const (
	FlushEveryUpdate = "every-update"
	FlushBatches     = "batches"
	FlushAtEnd       = "at-end"
)

// HistoryOptions bound a generated history.
type HistoryOptions struct {
	// Steps is the number of random-walk steps (each produces at most one update batch).
	Steps int
	// FlushStrategy: one of FlushEveryUpdate, FlushBatches, FlushAtEnd; "" = chosen from r.
	FlushStrategy string
	// InSyncAtEnd forces in-sync to be the last input (needed by the async driver's FV-style end
	// detection is NOT required; it is an option for callers that want the start-of-day shape).
	InSyncAtEnd bool
	// Focus biases the choice of keys towards these classes (C05 profile churn).
	Focus []string
	// FlapPercent is the share (in %) of steps that are a "profile flap" macro-op (see GenHistory);
	// 0 means the default of 6.
	FlapPercent int
}

// History is a generated update history ending in state Final, followed by the closing
// in-sync (if not sent earlier) and flush.
type History struct {
	Ops           []Op
	Final         State // the datastore state that has been fully delivered at the end
	FlushStrategy string
	InSyncIndex   int            // index in Ops of the OpInSync
	Distortions   map[string]int // how many update batches each Tag produced
	NumUpdates    int            // total KVs delivered
}

// HasDistortion reports whether the history contains at least one non-trivial distortion
// (coalescing, duplicate, reversion or spurious delete).
func (h *History) HasDistortion() bool {
	return h.Distortions["catchup"]+h.Distortions["dup"]+h.Distortions["revert"]+h.Distortions["spurious-delete"]+h.Distortions["profile-flap"] > 0
}

// GenHistory generates a history: a random walk of datastore writes over the universe, delivered
// with the distortions the syncer contract allows (felix/design/calc-graph.md "The upstream
// (syncer) contract"):
//
//   - coalescing: a written key may lag; when it catches up only the latest value is delivered;
//   - duplication: the currently delivered value of a key is delivered again;
//   - reversion: an older value of the key (from its true history) is delivered, the key then
//     catches up later;
//   - spurious delete: a nil is delivered for an existing key, which is re-created later;
//   - permutation of independent keys: lagging keys catch up in PRNG order;
//   - profile flap (tag "profile-flap"): inside ONE OnUpdates call, hence inside one flush window
//     whatever the flush strategy: every local endpoint that names profile P is deleted (a spurious
//     delete), P's ProfileRules are written to another candidate (valid -> absent / invalid /
//     other valid, absent -> valid, ...), and the endpoints are re-created with the values they
//     had.  P goes inactive and active again between two flushes while its rules change;
//   - batching: 1..4 KVs per OnUpdates call;
//   - flush points: after every update / after PRNG batches / only at the end;
//   - in-sync anywhere (before the first update, in the middle, or after the last).
//
// At the end every lagging key catches up (PRNG order), in-sync is sent if it has not been, and a
// final flush is issued, so the delivered state equals History.Final.
func GenHistory(r *rand.Rand, u *Universe, opts HistoryOptions) *History {
	h := &History{Distortions: map[string]int{}, FlushStrategy: opts.FlushStrategy, InSyncIndex: -1}
	if h.FlushStrategy == "" {
		h.FlushStrategy = pick(r, []string{FlushEveryUpdate, FlushBatches, FlushBatches, FlushAtEnd})
	}
	nk := len(u.Keys)
	truth := u.EmptyState()     // the datastore
	delivered := u.EmptyState() // what the graph has been told
	past := make([][]int, nk)   // true value history per key (for reversion)
	lagging := map[int]bool{}

	inSyncStep := r.Intn(opts.Steps + 1)
	switch r.Intn(5) {
	case 0:
		inSyncStep = 0
	case 1:
		inSyncStep = opts.Steps
	}
	if opts.InSyncAtEnd {
		inSyncStep = opts.Steps
	}
	if inSyncStep > 0 && r.Intn(3) == 0 {
		h.Ops = append(h.Ops, Op{Kind: OpResync})
	}

	focus := map[string]bool{}
	for _, c := range opts.Focus {
		focus[c] = true
	}
	pickKey := func() int {
		if len(focus) > 0 && r.Intn(3) != 0 {
			for tries := 0; tries < 20; tries++ {
				k := r.Intn(nk)
				if focus[u.Keys[k].Class] {
					return k
				}
			}
		}
		return r.Intn(nk)
	}

	var batch []KV
	var batchTag string
	emit := func() {
		if len(batch) == 0 {
			return
		}
		h.Ops = append(h.Ops, Op{Kind: OpUpdates, KVs: batch, Tag: batchTag})
		h.Distortions[batchTag]++
		h.NumUpdates += len(batch)
		batch = nil
		switch h.FlushStrategy {
		case FlushEveryUpdate:
			h.Ops = append(h.Ops, Op{Kind: OpFlush})
		case FlushBatches:
			if r.Intn(4) == 0 {
				h.Ops = append(h.Ops, Op{Kind: OpFlush})
			}
		}
	}
	deliver := func(k, v int, tag string) {
		// KVs of one batch share a tag; start a new batch when the tag changes or PRNG says so.
		if len(batch) > 0 && (batchTag != tag || len(batch) >= 4 || r.Intn(2) == 0) {
			emit()
		}
		batchTag = tag
		batch = append(batch, KV{k, v})
		delivered[k] = v
	}
	sendInSync := func() {
		emit()
		h.InSyncIndex = len(h.Ops)
		h.Ops = append(h.Ops, Op{Kind: OpInSync})
		if h.FlushStrategy == FlushEveryUpdate || (h.FlushStrategy == FlushBatches && r.Intn(2) == 0) {
			h.Ops = append(h.Ops, Op{Kind: OpFlush})
		}
	}

	flapPct := opts.FlapPercent
	if flapPct == 0 {
		flapPct = 6
	}
	// profileFlap emits the macro-op; it reports false if no profile is named by a local endpoint.
	profileFlap := func() bool {
		// profiles named by the delivered (valid) values of local endpoints
		users := map[string][]int{}
		for _, k := range u.LocalEndpointKeys() {
			if v := delivered[k]; v != Absent && u.Keys[k].Values[v].Valid {
				for _, p := range u.profileIDsOf(k, v) {
					users[p] = append(users[p], k)
				}
			}
		}
		var cands []int // ProfileRules keys of profiles in use
		for _, k := range u.KeysOfClass(ClassProfileRules) {
			if len(users[u.profileNameOfRulesKey(k)]) > 0 {
				cands = append(cands, k)
			}
		}
		if len(cands) == 0 {
			return false
		}
		pk := cands[r.Intn(len(cands))]
		eps := users[u.profileNameOfRulesKey(pk)]
		nv := r.Intn(len(u.Keys[pk].Values)+1) - 1
		if nv == truth[pk] {
			nv = (nv+2)%(len(u.Keys[pk].Values)+1) - 1
		}
		emit()
		var kvs []KV
		seen := map[int]bool{}
		for _, k := range eps {
			if !seen[k] {
				seen[k] = true
				kvs = append(kvs, KV{k, Absent})
			}
		}
		past[pk] = append(past[pk], truth[pk])
		truth[pk] = nv
		delivered[pk] = nv
		delete(lagging, pk)
		kvs = append(kvs, KV{pk, nv})
		for _, kv := range append([]KV(nil), kvs[:len(kvs)-1]...) {
			kvs = append(kvs, KV{kv.Key, delivered[kv.Key]}) // re-create with the value it had
		}
		batch, batchTag = kvs, "profile-flap"
		emit()
		return true
	}

	for step := 0; step < opts.Steps; step++ {
		if step == inSyncStep {
			sendInSync()
		}
		if r.Intn(100) < flapPct && profileFlap() {
			continue
		}
		switch c := r.Intn(100); {
		case c < 55: // datastore write
			k := pickKey()
			v := r.Intn(len(u.Keys[k].Values)+1) - 1 // -1 = delete
			if truth[k] == Absent && v == Absent {
				v = r.Intn(len(u.Keys[k].Values))
			}
			if v == truth[k] {
				continue
			}
			past[k] = append(past[k], truth[k])
			truth[k] = v
			if r.Intn(4) == 0 {
				lagging[k] = true // delivered later: intermediate writes coalesce
			} else {
				deliver(k, v, "write")
				delete(lagging, k)
			}
		case c < 70: // a lagging key catches up
			if k, ok := pickLagging(r, lagging); ok {
				deliver(k, truth[k], "catchup")
				delete(lagging, k)
			}
		case c < 80: // duplicate
			k := pickKey()
			if delivered[k] != Absent || r.Intn(4) == 0 {
				deliver(k, delivered[k], "dup")
			}
		case c < 90: // reversion to an older value, then catch up later
			k := pickKey()
			if len(past[k]) > 0 {
				old := past[k][r.Intn(len(past[k]))]
				if old != delivered[k] {
					deliver(k, old, "revert")
					lagging[k] = true
				}
			}
		default: // spurious delete, re-created later
			k := pickKey()
			if delivered[k] != Absent {
				deliver(k, Absent, "spurious-delete")
				lagging[k] = true
			}
		}
	}
	// Catch up: every key whose delivered value differs from the datastore, in PRNG order.
	var todo []int
	for k := 0; k < nk; k++ {
		if delivered[k] != truth[k] {
			todo = append(todo, k)
		}
	}
	r.Shuffle(len(todo), func(i, j int) { todo[i], todo[j] = todo[j], todo[i] })
	for _, k := range todo {
		deliver(k, truth[k], "final")
	}
	emit()
	if h.InSyncIndex < 0 {
		h.InSyncIndex = len(h.Ops)
		h.Ops = append(h.Ops, Op{Kind: OpInSync})
	}
	h.Ops = append(h.Ops, Op{Kind: OpFlush})
	h.Final = truth
	return h
}

func pickLagging(r *rand.Rand, lagging map[int]bool) (int, bool) {
	if len(lagging) == 0 {
		return 0, false
	}
	// deterministic choice: smallest-first list, PRNG index
	ks := make([]int, 0, len(lagging))
	for k := range lagging {
		ks = append(ks, k)
	}
	sortInts(ks)
	return ks[r.Intn(len(ks))], true
}

func sortInts(a []int) {
	for i := 1; i < len(a); i++ {
		for j := i; j > 0 && a[j] < a[j-1]; j-- {
			a[j], a[j-1] = a[j-1], a[j]
		}
	}
}

// FreshOps is the history of a freshly started Felix that is fed only state s: one update per
// present key (in canonical key order if perm is nil, else in the order given by perm, a
// permutation of key indexes), then in-sync, then flush.  With inSyncFirst the in-sync signal
// precedes the updates instead (also a legitimate delivery).
func FreshOps(u *Universe, s State, perm []int, inSyncFirst bool) []Op {
	var ops []Op
	if inSyncFirst {
		ops = append(ops, Op{Kind: OpInSync})
	}
	order := perm
	if order == nil {
		order = make([]int, len(u.Keys))
		for i := range order {
			order[i] = i
		}
	}
	for _, k := range order {
		if s[k] != Absent {
			ops = append(ops, Op{Kind: OpUpdates, KVs: []KV{{k, s[k]}}, Tag: "fresh"})
		}
	}
	if !inSyncFirst {
		ops = append(ops, Op{Kind: OpInSync})
	}
	ops = append(ops, Op{Kind: OpFlush})
	return ops
}

// DescribeOps renders ops for a witness.
func (u *Universe) DescribeOps(ops []Op) []string {
	var out []string
	for i, op := range ops {
		switch op.Kind {
		case OpUpdates:
			for _, kv := range op.KVs {
				out = append(out, fmt.Sprintf("%d: %s (%s)", i, u.Describe(kv), op.Tag))
			}
		default:
			out = append(out, fmt.Sprintf("%d: <%s>", i, op.Kind))
		}
	}
	return out
}

// Reflush returns a copy of ops with every OpFlush removed and flush points re-inserted according
// to strategy (FlushEveryUpdate: after every update batch and after in-sync; FlushBatches: after
// PRNG-chosen batches; FlushAtEnd: none), always ending with a final flush.
func Reflush(r *rand.Rand, ops []Op, strategy string) []Op {
	var out []Op
	for _, op := range ops {
		if op.Kind == OpFlush {
			continue
		}
		out = append(out, op)
		switch strategy {
		case FlushEveryUpdate:
			if op.Kind == OpUpdates || op.Kind == OpInSync {
				out = append(out, Op{Kind: OpFlush})
			}
		case FlushBatches:
			if r.Intn(4) == 0 {
				out = append(out, Op{Kind: OpFlush})
			}
		}
	}
	if len(out) == 0 || out[len(out)-1].Kind != OpFlush {
		out = append(out, Op{Kind: OpFlush})
	}
	return out
}

// InSyncLast returns a copy of ops in which in-sync is the last input before the final flush (the
// start-of-day shape the FV suite's async tests use).
func InSyncLast(ops []Op) []Op {
	var out []Op
	for _, op := range ops {
		if op.Kind == OpInSync {
			continue
		}
		out = append(out, op)
	}
	for len(out) > 0 && out[len(out)-1].Kind == OpFlush {
		out = out[:len(out)-1]
	}
	return append(out, Op{Kind: OpInSync}, Op{Kind: OpFlush})
}

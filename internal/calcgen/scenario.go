package calcgen

import (
	"fmt"
	"math/rand"
	"os"
	"reflect"

	"github.com/projectcalico/calico/libcalico-go/lib/backend/model"
	v3v "github.com/projectcalico/calico/libcalico-go/lib/validator/v3"
	v1v "github.com/projectcalico/calico/typha/pkg/validator/v1"

	"verif/internal/shadowdp"
)

// Scenario is one generated case: a universe, a graph configuration and a history over it.
type Scenario struct {
	U     *Universe
	Graph GraphOptions
	H     *History
}

// ScenarioOptions bound a generated scenario.
type ScenarioOptions struct {
	Size     Size
	MinSteps int
	MaxSteps int
	History  HistoryOptions // Steps is filled from Min/MaxSteps
}

// NewScenario draws a universe, a graph configuration (route source and nftables mode from r) and
// a history.
func NewScenario(r *rand.Rand, o ScenarioOptions) *Scenario {
	sc := &Scenario{U: NewUniverse(r, o.Size)}
	sc.Graph.NFTables = r.Intn(2) == 0
	if o.Size.Routes && r.Intn(4) == 0 {
		sc.Graph.RouteSource = "WorkloadIPs"
	}
	ho := o.History
	ho.Steps = o.MinSteps
	if o.MaxSteps > o.MinSteps {
		ho.Steps += r.Intn(o.MaxSteps - o.MinSteps + 1)
	}
	sc.H = GenHistory(r, sc.U, ho)
	return sc
}

// SyncRun is the observation of one synchronous run: the shadow dataplane with everything folded
// and every contract breach recorded.
type SyncRun struct {
	Shadow  *shadowdp.Shadow
	Driver  *Driver
	Flushes int
}

// RunOps runs ops on a fresh synchronous graph with a shadow dataplane attached.  afterFlush, if
// non-nil, is called after every completed flush (CalcGraph.Flush + EventSequencer.Flush) with the
// driver (for Delivered()/InSync()) and the shadow.
func RunOps(u *Universe, g GraphOptions, ops []Op, afterFlush func(d *Driver, sh *shadowdp.Shadow)) *SyncRun {
	sh := shadowdp.New()
	run := &SyncRun{Shadow: sh}
	run.Driver = RunSync(u, g, ops, func(msg any) { sh.OnMessage(msg) }, Hooks{
		BeforeOp: func(i int, op Op) {
			if op.Kind == OpInSync {
				sh.NoteInSyncDelivered()
			}
		},
		AfterOp: func(i int, op Op, d *Driver) {
			if op.Kind == OpFlush {
				sh.EndFlush()
				run.Flushes++
				if afterFlush != nil {
					afterFlush(d, sh)
				}
			}
		},
	})
	return run
}

// RunHistory runs the scenario's history.
func (sc *Scenario) RunHistory(afterFlush func(d *Driver, sh *shadowdp.Shadow)) *SyncRun {
	return RunOps(sc.U, sc.Graph, sc.H.Ops, afterFlush)
}

// RunFresh runs a freshly started graph fed only state s (see FreshOps).
func (sc *Scenario) RunFresh(s State, perm []int, inSyncFirst bool) *SyncRun {
	return RunOps(sc.U, sc.Graph, FreshOps(sc.U, s, perm, inSyncFirst), nil)
}

// SelfCheck verifies the generator's validity tags against the repo's validators (the trusted
// base: typha/pkg/validator/v1 for backend-model values, libcalico-go/lib/validator/v3 for v3
// resources, plus the two workload-endpoint rules of the validation filter restated here: a
// workload endpoint needs a name, and source-spoofing prefixes need WorkloadSourceSpoofing=Any).  It
// deliberately does NOT go through calc.ValidationFilter, which is code under test.
func (u *Universe) SelfCheck() error {
	Quiet()
	conf := NewConfig(GraphOptions{})
	for _, ks := range u.Keys {
		for v, val := range ks.Values {
			ok := validByRepoValidators(ks.Key, val.New(), conf.WorkloadSourceSpoofing)
			if ok != val.Valid {
				return fmt.Errorf("validity tag mismatch for %v value #%d (%s): tagged valid=%v, repo validators say valid=%v",
					ks.Key, v, val.Desc, val.Valid, ok)
			}
		}
	}
	return nil
}

func validByRepoValidators(key model.Key, value any, spoofing string) bool {
	rv := reflect.ValueOf(value)
	if rv.Kind() == reflect.Pointer && rv.Elem().Kind() == reflect.Struct {
		var err error
		if _, isV3 := key.(model.ResourceKey); isV3 {
			err = v3v.Validate(rv.Elem().Interface())
		} else {
			err = v1v.Validate(rv.Elem().Interface())
		}
		if err != nil {
			return false
		}
	}
	if w, ok := value.(*model.WorkloadEndpoint); ok {
		if w.Name == "" {
			return false
		}
		if len(w.AllowSpoofedSourcePrefixes) > 0 && spoofing != "Any" {
			return false
		}
	}
	return true
}

// Witness renders the scenario for a violation's detail (bounded size).
func (sc *Scenario) Witness() map[string]any {
	ops := sc.U.DescribeOps(sc.H.Ops)
	if len(ops) > 400 {
		ops = append(ops[:400], fmt.Sprintf("... %d more", len(ops)-400))
	}
	return map[string]any{
		"graph":          fmt.Sprintf("%+v", sc.Graph),
		"flush_strategy": sc.H.FlushStrategy,
		"final_state":    sc.U.DescribeState(sc.H.Final),
		"history":        ops,
	}
}

// Debugf prints to stderr when VERIF_DEBUG is set (development aid; never used for verdicts).
func Debugf(format string, args ...any) {
	if os.Getenv("VERIF_DEBUG") != "" {
		fmt.Fprintf(os.Stderr, "DEBUG "+format+"\n", args...)
	}
}

package calcgen

import (
	"fmt"
	"math/rand"
	"os"

	"github.com/projectcalico/calico/felix/calc"
	"github.com/projectcalico/calico/libcalico-go/lib/backend/api"

	"verif/internal/shadowdp"
)

// Scenario is one generated case: a universe, a graph configuration and a history over it.
type Scenario struct {
	U     *Universe
	Graph GraphOptions
	H     *History
}

// ScenarioOptions bound a generated scenario.
type ScenarioOptions struct {
	Size     Size
	MinSteps int
	MaxSteps int
	History  HistoryOptions // Steps is filled from Min/MaxSteps
}

// NewScenario draws a universe, a graph configuration (route source and nftables mode from r) and
// a history.
func NewScenario(r *rand.Rand, o ScenarioOptions) *Scenario {
	sc := &Scenario{U: NewUniverse(r, o.Size)}
	sc.Graph.NFTables = r.Intn(2) == 0
	if o.Size.Routes && r.Intn(4) == 0 {
		sc.Graph.RouteSource = "WorkloadIPs"
	}
	ho := o.History
	ho.Steps = o.MinSteps
	if o.MaxSteps > o.MinSteps {
		ho.Steps += r.Intn(o.MaxSteps - o.MinSteps + 1)
	}
	sc.H = GenHistory(r, sc.U, ho)
	return sc
}

// SyncRun is the observation of one synchronous run: the shadow dataplane with everything folded
// and every contract breach recorded.
type SyncRun struct {
	Shadow  *shadowdp.Shadow
	Driver  *Driver
	Flushes int
}

// RunOps runs ops on a fresh synchronous graph with a shadow dataplane attached.  afterFlush, if
// non-nil, is called after every completed flush (CalcGraph.Flush + EventSequencer.Flush) with the
// driver (for Delivered()/InSync()) and the shadow.
func RunOps(u *Universe, g GraphOptions, ops []Op, afterFlush func(d *Driver, sh *shadowdp.Shadow)) *SyncRun {
	sh := shadowdp.New()
	run := &SyncRun{Shadow: sh}
	run.Driver = RunSync(u, g, ops, func(msg any) { sh.OnMessage(msg) }, Hooks{
		BeforeOp: func(i int, op Op) {
			if op.Kind == OpInSync {
				sh.NoteInSyncDelivered()
			}
		},
		AfterOp: func(i int, op Op, d *Driver) {
			if op.Kind == OpFlush {
				sh.EndFlush()
				run.Flushes++
				if afterFlush != nil {
					afterFlush(d, sh)
				}
			}
		},
	})
	return run
}

// RunHistory runs the scenario's history.
func (sc *Scenario) RunHistory(afterFlush func(d *Driver, sh *shadowdp.Shadow)) *SyncRun {
	return RunOps(sc.U, sc.Graph, sc.H.Ops, afterFlush)
}

// RunFresh runs a freshly started graph fed only state s (see FreshOps).
func (sc *Scenario) RunFresh(s State, perm []int, inSyncFirst bool) *SyncRun {
	return RunOps(sc.U, sc.Graph, FreshOps(sc.U, s, perm, inSyncFirst), nil)
}

// SelfCheck pushes every candidate value of the universe through a real calc.ValidationFilter and
// reports the first disagreement between the generator's validity tag and the filter's verdict.
func (u *Universe) SelfCheck() error {
	Quiet()
	conf := NewConfig(GraphOptions{})
	sink := &captureSink{}
	f := calc.NewValidationFilter(sink, conf)
	for k, ks := range u.Keys {
		for v, val := range ks.Values {
			sink.last = nil
			f.OnUpdates([]api.Update{u.Update(KV{k, v}, api.UpdateTypeKVNew)})
			if len(sink.last) != 1 {
				return fmt.Errorf("validation filter forwarded %d updates for one", len(sink.last))
			}
			passed := sink.last[0].Value != nil
			if passed != val.Valid {
				return fmt.Errorf("validity tag mismatch for %v value #%d (%s): tagged valid=%v, validation filter passed=%v",
					ks.Key, v, val.Desc, val.Valid, passed)
			}
		}
	}
	return nil
}

type captureSink struct{ last []api.Update }

func (c *captureSink) OnStatusUpdated(api.SyncStatus) {}
func (c *captureSink) OnUpdates(u []api.Update)       { c.last = u }

// Witness renders the scenario for a violation's detail (bounded size).
func (sc *Scenario) Witness() map[string]any {
	ops := sc.U.DescribeOps(sc.H.Ops)
	if len(ops) > 400 {
		ops = append(ops[:400], fmt.Sprintf("... %d more", len(ops)-400))
	}
	return map[string]any{
		"graph":          fmt.Sprintf("%+v", sc.Graph),
		"flush_strategy": sc.H.FlushStrategy,
		"final_state":    sc.U.DescribeState(sc.H.Final),
		"history":        ops,
	}
}

// Debugf prints to stderr when VERIF_DEBUG is set (development aid; never used for verdicts).
func Debugf(format string, args ...any) {
	if os.Getenv("VERIF_DEBUG") != "" {
		fmt.Fprintf(os.Stderr, "DEBUG "+format+"\n", args...)
	}
}

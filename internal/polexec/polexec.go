// Package polexec compiles felix/bpf/polprog policy programs with the repo's real builder and
// executes them: in the real kernel through raw bpf(2) calls (internal/bpfsys: real verifier, real
// interpreter/JIT, real LPM trie and program arrays, BPF_PROG_TEST_RUN) and/or in the interpreter of
// internal/bpfvm.  Used by C11 and C12.
//
// The environment given to a policy program is what Felix gives it:
//   - the state map (one cali_tc_state image at key 0; an ARRAY rather than the production PERCPU_ARRAY
//     so that the result can be read back, as the repo's own state.MapForTest does);
//   - the IP sets map (LPM trie, key/value sizes from ipsets.MapParameters / MapV6Parameters), filled
//     through the repo's own member encoders (ipsets.ProtoIPSetMemberToBPFEntry[V6]);
//   - the static jump map holding the "allow" and "deny" epilogue programs (here two-instruction
//     programs returning RetAllow / RetDeny) at the indexes the builder is told (or passed in
//     skb->cb[0]/cb[1]);
//   - the policy jump map, where sub-program i of a split policy goes at
//     polprog.SubProgramJumpIdx(entry, i, stride), as bpf_ep_mgr does.
package polexec

import (
	"encoding/binary"
	"errors"
	"fmt"
	"net/netip"

	"golang.org/x/sys/unix"

	"github.com/projectcalico/calico/felix/bpf/asm"
	"github.com/projectcalico/calico/felix/bpf/ipsets"
	"github.com/projectcalico/calico/felix/bpf/maps"
	"github.com/projectcalico/calico/felix/bpf/polprog"
	"github.com/projectcalico/calico/felix/bpf/state"

	"verif/internal/bpfsys"
	"verif/internal/bpfvm"
)

// Return values of the epilogue programs.
const (
	RetAllow = 101
	RetDeny  = 102
)

// IDs maps IP set names to the 64-bit IDs used in the IP sets map.
type IDs map[string]uint64

func (m IDs) GetNoAlloc(id string) uint64 { return m[id] }

// Options of one compilation.
type Options struct {
	IPv6        bool
	XDP         bool // rules.ForXDP: program type XDP
	FlowLogs    bool
	PolicyDebug bool
	// AllowDenyJumps: the allow/deny epilogue indexes are compiled in (WithAllowDenyJumps); otherwise
	// the program takes them from skb->cb[0] / cb[1].  Always on for XDP.
	AllowDenyJumps bool
	AllowIdx       int
	DenyIdx        int
	// MaxJumps: sub-program split threshold (0 = the builder's default).
	MaxJumps int
	// TrampolineStride: 0 = the production default.
	TrampolineStride int
	// EntryIdx, Stride: layout of the policy jump map.
	EntryIdx int
	Stride   int
}

const (
	staticJumpEntries = 64
	maxSubPrograms    = 24 // jump.MaxSubPrograms
)

// FDs are the map descriptors compiled into the programs.
type FDs struct{ IPSets, State, Static, PolJump int }

// Compile runs the real builder.
func Compile(rules polprog.Rules, ids IDs, o Options, fds FDs) ([]asm.Insns, error) {
	var opts []polprog.Option
	if o.IPv6 {
		opts = append(opts, polprog.WithIPv6())
	}
	if o.FlowLogs {
		opts = append(opts, polprog.WithFlowLogs())
	}
	if o.PolicyDebug {
		opts = append(opts, polprog.WithPolicyDebugEnabled())
	}
	if o.AllowDenyJumps || o.XDP {
		opts = append(opts, polprog.WithAllowDenyJumps(o.AllowIdx, o.DenyIdx))
	}
	opts = append(opts, polprog.WithPolicyMapIndexAndStride(o.EntryIdx, o.Stride))
	if o.MaxJumps > 0 {
		opts = append(opts, polprog.VerifWithMaxJumpsPerProgram(o.MaxJumps))
	}
	ts := o.TrampolineStride
	if ts == 0 {
		ts = asm.TrampolineStrideDefault
	}
	opts = append(opts, polprog.WithTrampolineStride(ts))
	b := polprog.NewBuilder(ids, maps.FD(fds.IPSets), maps.FD(fds.State), maps.FD(fds.Static), maps.FD(fds.PolJump), opts...)
	return b.Instructions(rules)
}

// PacketState is what the preceding programs leave in cali_tc_state for the policy program.
type PacketState struct {
	Src, Dst, PreNATDst, PostNATDst netip.Addr
	Proto                           uint8
	SrcPort                         uint16
	// DstPort is the `dport` member, which is a union with icmp_type/icmp_code.
	DstPort, PreNATDstPort, PostNATDstPort uint16
	FromHost, ToHost                       bool
	// RulesHit / stale rule ids / stale pol_rc already in the state (the programs must cope).
	RulesHit uint32
	PolRC    int32
}

func words(a netip.Addr) [4]uint32 {
	var w [4]uint32
	if !a.IsValid() {
		return w
	}
	if a.Is4() {
		b := a.As4()
		w[0] = binary.LittleEndian.Uint32(b[:])
		return w
	}
	b := a.As16()
	for i := 0; i < 4; i++ {
		w[i] = binary.LittleEndian.Uint32(b[4*i:])
	}
	return w
}

// Image renders the packet state through the repo's Go mirror of struct cali_tc_state (whose layout
// C13 checks against the C header), padded to the map's value size.
func (p PacketState) Image() []byte {
	s, d, pre, post := words(p.Src), words(p.Dst), words(p.PreNATDst), words(p.PostNATDst)
	st := state.State{
		SrcAddr: s[0], SrcAddr1: s[1], SrcAddr2: s[2], SrcAddr3: s[3],
		DstAddr: d[0], DstAddr1: d[1], DstAddr2: d[2], DstAddr3: d[3],
		PreNATDstAddr: pre[0], PreNATDstAddr1: pre[1], PreNATDstAddr2: pre[2], PreNATDstAddr3: pre[3],
		PostNATDstAddr: post[0], PostNATDstAddr1: post[1], PostNATDstAddr2: post[2], PostNATDstAddr3: post[3],
		IPProto: p.Proto, SrcPort: p.SrcPort, DstPort: p.DstPort, PreNATDstPort: p.PreNATDstPort, PostNATDstPort: p.PostNATDstPort,
		RulesHit: p.RulesHit, PolicyRC: state.PolicyResult(p.PolRC),
	}
	if p.FromHost {
		st.Flags |= polprog.FlagSrcIsHost
	}
	if p.ToHost {
		st.Flags |= polprog.FlagDestIsHost
	}
	img := make([]byte, state.MapParameters.ValueSize)
	copy(img, st.AsBytes())
	return img
}

// Result of one execution.
type Result struct {
	Ret      uint32
	Verdict  string // allow | deny | xdp-pass | drop-without-verdict | ret:<n>
	PolRC    int32
	RulesHit uint32
	RuleIDs  []uint64
	LogFlag  bool
	StateOut state.State
	Chain    []string // interpreter only: programs entered
	// UninitReads (interpreter only): reads of stack bytes never written in the current frame.
	UninitReads []bpfvm.Fault
}

func classify(ret uint32, xdp bool) string {
	switch {
	case ret == RetAllow:
		return "allow"
	case ret == RetDeny:
		return "deny"
	case xdp && ret == 2:
		return "xdp-pass"
	case (xdp && ret == 1) || (!xdp && ret == 2):
		return "drop-without-verdict"
	}
	return fmt.Sprintf("ret:%d", ret)
}

func decode(ret uint32, img []byte, xdp bool) Result {
	so := state.StateFromBytes(img)
	r := Result{Ret: ret, Verdict: classify(ret, xdp), PolRC: int32(so.PolicyRC), RulesHit: so.RulesHit,
		LogFlag: so.Flags&polprog.FlagLogPacket != 0, StateOut: so}
	n := so.RulesHit
	if n > state.MaxRuleIDs {
		n = state.MaxRuleIDs
	}
	r.RuleIDs = append(r.RuleIDs, so.RuleIDs[:n]...)
	return r
}

// IPSetEntries encodes the members of set `name` (Felix member strings) with the repo's encoders;
// members of the other family (and members the encoder refuses) yield no entry.
func IPSetEntries(id uint64, members []string, ipv6 bool) [][]byte {
	var out [][]byte
	for _, m := range members {
		isV6 := false
		for _, c := range m {
			if c == ':' {
				isV6 = true
				break
			}
			if c == ',' {
				break
			}
		}
		if isV6 != ipv6 {
			continue
		}
		var e ipsets.IPSetEntryInterface
		if ipv6 {
			e = ipsets.ProtoIPSetMemberToBPFEntryV6(id, m)
		} else {
			e = ipsets.ProtoIPSetMemberToBPFEntry(id, m)
		}
		if e == nil || isNilEntry(e) {
			continue
		}
		out = append(out, append([]byte(nil), e.AsBytes()...))
	}
	return out
}

func isNilEntry(e ipsets.IPSetEntryInterface) (isNil bool) {
	defer func() {
		if recover() != nil {
			isNil = true
		}
	}()
	_ = e.AsBytes()
	return false
}

func ipsetKeySize(ipv6 bool) int {
	if ipv6 {
		return ipsets.MapV6Parameters.KeySize
	}
	return ipsets.MapParameters.KeySize
}

// ---------------------------------------------------------------------------------------------
// kernel executor

// Kernel is one set of maps + programs in the real kernel.
type Kernel struct {
	xdp                         bool
	ipv6                        bool
	state, ipsets, static, polj *bpfsys.Map
	allow, deny                 *bpfsys.Prog
	progs                       []*bpfsys.Prog
	entry                       *bpfsys.Prog
}

func progType(xdp bool) uint32 {
	if xdp {
		return bpfsys.ProgTypeXDP
	}
	return bpfsys.ProgTypeSchedCLS
}

func retProg(v int32) []byte {
	b := make([]byte, 16)
	b[0] = 0xb7 // mov64 r0, imm
	binary.LittleEndian.PutUint32(b[4:], uint32(v))
	b[8] = 0x95 // exit
	return b
}

// NewKernel creates the maps and the two epilogue programs.
func NewKernel(o Options) (k *Kernel, err error) {
	k = &Kernel{xdp: o.XDP, ipv6: o.IPv6}
	defer func() {
		if err != nil {
			k.Close()
			k = nil
		}
	}()
	if k.state, err = bpfsys.CreateMap(bpfsys.MapTypeArray, 4, uint32(state.MapParameters.ValueSize), 2, 0, "v_state"); err != nil {
		return
	}
	ip := ipsets.MapParameters
	if o.IPv6 {
		ip = ipsets.MapV6Parameters
	}
	if k.ipsets, err = bpfsys.CreateMap(bpfsys.MapTypeLPMTrie, uint32(ip.KeySize), uint32(ip.ValueSize), 65536, bpfsys.FlagNoPrealloc, "v_ipsets"); err != nil {
		return
	}
	if k.static, err = bpfsys.CreateMap(bpfsys.MapTypeProgArray, 4, 4, staticJumpEntries, 0, "v_static"); err != nil {
		return
	}
	stride := o.Stride
	if stride <= 0 {
		stride = 1
	}
	if k.polj, err = bpfsys.CreateMap(bpfsys.MapTypeProgArray, 4, 4, uint32(stride*maxSubPrograms), 0, "v_polj"); err != nil {
		return
	}
	if k.allow, _, err = bpfsys.LoadProg(progType(o.XDP), retProg(RetAllow), "v_allow"); err != nil {
		return
	}
	if k.deny, _, err = bpfsys.LoadProg(progType(o.XDP), retProg(RetDeny), "v_deny"); err != nil {
		return
	}
	put := func(m *bpfsys.Map, idx int, p *bpfsys.Prog) error {
		var kb, vb [4]byte
		binary.LittleEndian.PutUint32(kb[:], uint32(idx))
		binary.LittleEndian.PutUint32(vb[:], uint32(p.FD))
		return m.Update(kb[:], vb[:], 0)
	}
	if err = put(k.static, o.AllowIdx, k.allow); err != nil {
		return
	}
	err = put(k.static, o.DenyIdx, k.deny)
	return
}

// FDs returns the descriptors to compile into the programs.
func (k *Kernel) FDs() FDs {
	return FDs{IPSets: k.ipsets.FD, State: k.state.FD, Static: k.static.FD, PolJump: k.polj.FD}
}

// AddIPSetEntry inserts one encoded member.
func (k *Kernel) AddIPSetEntry(key []byte) error {
	return k.ipsets.Update(key, ipsets.DummyValue, 0)
}

// LoadError is a rejected program.
type LoadError struct {
	Index       int
	NumInsns    int
	VerifierLog string
	Err         error
}

func (e *LoadError) Error() string {
	return fmt.Sprintf("sub-program %d (%d instructions) rejected: %v", e.Index, e.NumInsns, e.Err)
}
func (e *LoadError) Unwrap() error { return e.Err }

// IsRange reports whether the load failed with ERANGE, which bpf_ep_mgr answers by reducing the
// trampoline stride and recompiling.
func IsRange(err error) bool { return errors.Is(err, unix.ERANGE) }

// Load loads every sub-program and installs them in the policy jump map.
func (k *Kernel) Load(progs []asm.Insns, o Options) error {
	for _, p := range k.progs {
		p.Close()
	}
	k.progs, k.entry = nil, nil
	if len(progs) > maxSubPrograms {
		return fmt.Errorf("%d sub-programs exceed jump.MaxSubPrograms", len(progs))
	}
	for i, ins := range progs {
		p, log, err := bpfsys.LoadProg(progType(k.xdp), ins.AsBytes(), fmt.Sprintf("v_pol_%d", i))
		if err != nil {
			return &LoadError{Index: i, NumInsns: len(ins), VerifierLog: log, Err: err}
		}
		k.progs = append(k.progs, p)
		var kb, vb [4]byte
		binary.LittleEndian.PutUint32(kb[:], uint32(polprog.SubProgramJumpIdx(o.EntryIdx, i, o.Stride)))
		binary.LittleEndian.PutUint32(vb[:], uint32(p.FD))
		if err := k.polj.Update(kb[:], vb[:], 0); err != nil {
			return fmt.Errorf("installing sub-program %d in the policy jump map: %w", i, err)
		}
	}
	k.entry = k.progs[0]
	return nil
}

const skbSize = 192 // sizeof(struct __sk_buff); cb[] at 48

// Run executes the entry program on one packet state.
func (k *Kernel) Run(ps PacketState, o Options) (Result, error) {
	var key [4]byte
	if err := k.state.Update(key[:], ps.Image(), 0); err != nil {
		return Result{}, err
	}
	data := make([]byte, 64)
	data[12], data[13] = 0x08, 0x00
	var ctx []byte
	if !k.xdp {
		ctx = make([]byte, skbSize)
		binary.LittleEndian.PutUint32(ctx[48:], uint32(o.AllowIdx))
		binary.LittleEndian.PutUint32(ctx[52:], uint32(o.DenyIdx))
	}
	ret, _, err := bpfsys.TestRun(k.entry, data, ctx)
	if err != nil {
		return Result{}, err
	}
	img, err := k.state.Lookup(key[:])
	if err != nil {
		return Result{}, err
	}
	return decode(ret, img, k.xdp), nil
}

// Close releases every descriptor.
func (k *Kernel) Close() {
	if k == nil {
		return
	}
	for _, p := range k.progs {
		p.Close()
	}
	k.allow.Close()
	k.deny.Close()
	for _, m := range []*bpfsys.Map{k.state, k.ipsets, k.static, k.polj} {
		m.Close()
	}
}

// ---------------------------------------------------------------------------------------------
// interpreter executor

// VM is the same environment inside internal/bpfvm.
type VM struct {
	xdp    bool
	fds    FDs
	state  *bpfvm.ArrayMap
	ipsets *bpfvm.LPMTrie
	static bpfvm.ProgTable
	polj   bpfvm.ProgTable
	entry  *bpfvm.Program
	vm     *bpfvm.VM
}

// NewVM builds the environment; fds must be the numbers compiled into the programs.
func NewVM(o Options, fds FDs) *VM {
	v := &VM{xdp: o.XDP, fds: fds}
	v.state = bpfvm.NewArrayMap(2, state.MapParameters.ValueSize)
	v.ipsets = bpfvm.NewLPMTrie(ipsetKeySize(o.IPv6))
	v.static = bpfvm.ProgTable{
		uint32(o.AllowIdx): {Name: "allow-epilogue", Terminal: true, TerminalRet: RetAllow},
		uint32(o.DenyIdx):  {Name: "deny-epilogue", Terminal: true, TerminalRet: RetDeny},
	}
	v.polj = bpfvm.ProgTable{}
	v.vm = &bpfvm.VM{
		LenientUninit: true,
		Maps:          map[uint32]bpfvm.Map{uint32(fds.State): v.state, uint32(fds.IPSets): v.ipsets},
		ProgArrays:    map[uint32]bpfvm.ProgArray{uint32(fds.Static): v.static, uint32(fds.PolJump): v.polj},
	}
	return v
}

// AddIPSetEntry inserts one encoded member.
func (v *VM) AddIPSetEntry(key []byte) error { return v.ipsets.Insert(key, ipsets.DummyValue) }

// Load installs the sub-programs.
func (v *VM) Load(progs []asm.Insns, o Options) {
	for k := range v.polj {
		delete(v.polj, k)
	}
	for i, ins := range progs {
		p := &bpfvm.Program{Name: fmt.Sprintf("sub-program-%d", i), Insns: ins.AsBytes()}
		v.polj[uint32(polprog.SubProgramJumpIdx(o.EntryIdx, i, o.Stride))] = p
		if i == 0 {
			v.entry = p
		}
	}
}

// Programs returns the installed sub-programs' names (number of sub-programs = len).
func (v *VM) Programs() []string {
	var out []string
	for _, p := range v.polj {
		out = append(out, p.Name)
	}
	return out
}

// Run executes the entry program on one packet state.
func (v *VM) Run(ps PacketState, o Options) (Result, *bpfvm.Fault) {
	copy(v.state.Entries[0], ps.Image())
	ctx := make([]byte, skbSize)
	if !v.xdp {
		binary.LittleEndian.PutUint32(ctx[48:], uint32(o.AllowIdx))
		binary.LittleEndian.PutUint32(ctx[52:], uint32(o.DenyIdx))
	} else {
		ctx = ctx[:24] // struct xdp_md
	}
	ret, fault := v.vm.Run(v.entry, ctx)
	if fault != nil {
		return Result{Chain: append([]string(nil), v.vm.Chain...)}, fault
	}
	r := decode(uint32(ret), v.state.Entries[0], v.xdp)
	r.Chain = append([]string(nil), v.vm.Chain...)
	r.UninitReads = append([]bpfvm.Fault(nil), v.vm.UninitReads...)
	return r, nil
}

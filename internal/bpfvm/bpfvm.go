// Package bpfvm is a small eBPF interpreter for the instruction subset that felix/bpf/polprog
// emits, written from the eBPF instruction-set specification (not from felix/bpf/asm, which is
// part of the code under test).  It is the fallback executor where bpf(2) is refused and a
// cross-check of the kernel executor where it is not.
//
// It is also a sanitizer: every memory access is bounds-checked against the region its pointer
// belongs to, reads of stack bytes that were never written are reported, and so are jumps outside the
// program, unknown opcodes and a run longer than the step limit.  (The kernel verifier rejects the
// first three statically.)
//
// Memory model: pointers are 64-bit numbers inside disjoint synthetic address ranges, one per region
// (stack, context, one range per map value handed out by map_lookup_elem).  Map "file descriptors"
// loaded with ld_imm64/src=BPF_PSEUDO_MAP_FD become pointers into a reserved range and are resolved
// back by the helpers.
package bpfvm

import (
	"encoding/binary"
	"fmt"
)

// Helper numbers (include/uapi/linux/bpf.h).
const (
	HelperMapLookupElem = 1
	HelperTailCall      = 12
)

const (
	stackSize = 512

	baseStack = 0x1000_0000_0000
	baseCtx   = 0x2000_0000_0000
	baseMapFD = 0x3000_0000_0000
	baseValue = 0x4000_0000_0000 // + n<<32 for the n-th value region
)

// Map is what the interpreter needs from a map.
type Map interface {
	// Lookup returns the value storage for key (a slice the program may read and write in place), or
	// nil for a miss.
	Lookup(key []byte) []byte
	KeySize() int
}

// ProgArray is a program-array map for tail calls.
type ProgArray interface {
	// Prog returns the program at index, or nil.
	Prog(index uint32) *Program
}

// Program is an instruction stream plus, for terminal markers, a fixed result.
type Program struct {
	Name  string
	Insns []byte // 8 bytes per instruction
	// Terminal, if set, makes a tail call to this program end the run with this return value (used for
	// the "allow"/"deny" epilogue programs).
	Terminal    bool
	TerminalRet uint64
}

// Fault is a sanitizer report.
type Fault struct {
	Kind string // oob | uninit-stack | uninit-stack-helper | bad-jump | bad-opcode | step-limit | bad-helper | bad-pointer
	Prog string
	PC   int
	Msg  string
}

func (f *Fault) Error() string {
	return fmt.Sprintf("bpfvm %s at %s:%d: %s", f.Kind, f.Prog, f.PC, f.Msg)
}

// VM holds the maps visible to the programs of one run.
type VM struct {
	Maps       map[uint32]Map       // fd -> data map
	ProgArrays map[uint32]ProgArray // fd -> program array
	StepLimit  int                  // default 4M
	// Trace of the programs entered (names), for witnesses.
	Chain []string
	Steps int
	// LenientUninit: a read of never-written stack bytes does not end the run; it is recorded in
	// UninitReads and the read sees the poison the frame was filled with.  (A tail-called program gets a
	// new frame whose content is unspecified; that one JIT happens to reuse the caller's frame is not
	// something a program may rely on.)
	LenientUninit bool
	UninitReads   []Fault
}

// PoisonByte fills every fresh stack frame.
const PoisonByte = 0xa5

type region struct {
	base uint64
	mem  []byte
	init []bool // nil = fully initialised
	name string
}

type run struct {
	vm      *VM
	regs    [11]uint64
	stack   region
	ctx     region
	values  []region
	prog    *Program
	regions []*region
}

func (r *run) find(addr uint64, size int) (*region, int, error) {
	for _, rg := range r.regions {
		if addr >= rg.base && addr < rg.base+uint64(len(rg.mem))+8 {
			off := int(addr - rg.base)
			if off+size > len(rg.mem) {
				return nil, 0, fmt.Errorf("access of %d bytes at offset %d of the %d-byte %s", size, off, len(rg.mem), rg.name)
			}
			return rg, off, nil
		}
	}
	// below the start of a region?
	for _, rg := range r.regions {
		if addr < rg.base && rg.base-addr <= 4096 {
			return nil, 0, fmt.Errorf("access %d bytes below the start of the %s", rg.base-addr, rg.name)
		}
	}
	return nil, 0, fmt.Errorf("access through a non-pointer value %#x", addr)
}

func (r *run) load(addr uint64, size int, pc int) (uint64, *Fault) {
	rg, off, err := r.find(addr, size)
	if err != nil {
		return 0, &Fault{Kind: "oob", Prog: r.prog.Name, PC: pc, Msg: "load: " + err.Error()}
	}
	if rg.init != nil {
		for i := 0; i < size; i++ {
			if !rg.init[off+i] {
				f := &Fault{Kind: "uninit-stack", Prog: r.prog.Name, PC: pc, Msg: fmt.Sprintf("read of stack byte fp%+d that was never written", off+i-stackSize)}
				if !r.vm.LenientUninit {
					return 0, f
				}
				r.vm.noteUninit(f)
				break
			}
		}
	}
	switch size {
	case 1:
		return uint64(rg.mem[off]), nil
	case 2:
		return uint64(binary.LittleEndian.Uint16(rg.mem[off:])), nil
	case 4:
		return uint64(binary.LittleEndian.Uint32(rg.mem[off:])), nil
	}
	return binary.LittleEndian.Uint64(rg.mem[off:]), nil
}

func (r *run) store(addr uint64, size int, v uint64, pc int) *Fault {
	rg, off, err := r.find(addr, size)
	if err != nil {
		return &Fault{Kind: "oob", Prog: r.prog.Name, PC: pc, Msg: "store: " + err.Error()}
	}
	switch size {
	case 1:
		rg.mem[off] = byte(v)
	case 2:
		binary.LittleEndian.PutUint16(rg.mem[off:], uint16(v))
	case 4:
		binary.LittleEndian.PutUint32(rg.mem[off:], uint32(v))
	default:
		binary.LittleEndian.PutUint64(rg.mem[off:], v)
	}
	if rg.init != nil {
		for i := 0; i < size; i++ {
			rg.init[off+i] = true
		}
	}
	return nil
}

// bytes returns size bytes at addr (for helper arguments), checking initialisation.
func (r *run) bytes(addr uint64, size int, pc int) ([]byte, *Fault) {
	rg, off, err := r.find(addr, size)
	if err != nil {
		return nil, &Fault{Kind: "oob", Prog: r.prog.Name, PC: pc, Msg: "helper argument: " + err.Error()}
	}
	if rg.init != nil {
		for i := 0; i < size; i++ {
			if !rg.init[off+i] {
				f := &Fault{Kind: "uninit-stack-helper", Prog: r.prog.Name, PC: pc, Msg: fmt.Sprintf("helper argument of %d bytes at fp%+d includes stack byte fp%+d that was never written in this frame", size, off-stackSize, off+i-stackSize)}
				if !r.vm.LenientUninit {
					return nil, f
				}
				r.vm.noteUninit(f)
				break
			}
		}
	}
	return rg.mem[off : off+size], nil
}

func (vm *VM) noteUninit(f *Fault) {
	if len(vm.UninitReads) < 8 {
		vm.UninitReads = append(vm.UninitReads, *f)
	}
}

func sizeOf(op byte) int {
	switch op & 0x18 {
	case 0x00:
		return 4
	case 0x08:
		return 2
	case 0x10:
		return 1
	}
	return 8
}

// Run executes entry with ctx as the program context (struct __sk_buff / xdp_md image; the
// programs only read it).  It follows tail calls.  It returns r0 at exit.
func (vm *VM) Run(entry *Program, ctx []byte) (ret uint64, fault *Fault) {
	limit := vm.StepLimit
	if limit == 0 {
		limit = 4 << 20
	}
	r := &run{vm: vm}
	r.ctx = region{base: baseCtx, mem: ctx, name: "context"}
	vm.Chain = vm.Chain[:0]
	vm.Steps = 0
	vm.UninitReads = nil
	prog := entry
	tailCalls := 0
restart:
	// A tail call keeps nothing but the context: fresh stack, fresh registers (the callee sees R1=ctx).
	r.prog = prog
	r.stack = region{base: baseStack, mem: make([]byte, stackSize), init: make([]bool, stackSize), name: "stack"}
	for i := range r.stack.mem {
		r.stack.mem[i] = PoisonByte
	}
	r.values = nil
	r.regions = []*region{&r.stack, &r.ctx}
	r.regs = [11]uint64{}
	r.regs[1] = baseCtx
	r.regs[10] = baseStack + stackSize
	vm.Chain = append(vm.Chain, prog.Name)
	n := len(prog.Insns) / 8
	pc := 0
	for {
		if vm.Steps++; vm.Steps > limit {
			return 0, &Fault{Kind: "step-limit", Prog: prog.Name, PC: pc, Msg: fmt.Sprintf("more than %d instructions executed", limit)}
		}
		if pc < 0 || pc >= n {
			return 0, &Fault{Kind: "bad-jump", Prog: prog.Name, PC: pc, Msg: "execution left the program"}
		}
		in := prog.Insns[pc*8 : pc*8+8]
		op := in[0]
		dst := int(in[1] & 0x0f)
		src := int(in[1] >> 4)
		off := int16(binary.LittleEndian.Uint16(in[2:]))
		imm := int32(binary.LittleEndian.Uint32(in[4:]))
		if dst > 10 || src > 10 {
			return 0, &Fault{Kind: "bad-opcode", Prog: prog.Name, PC: pc, Msg: fmt.Sprintf("register out of range in %x", in)}
		}
		class := op & 0x07
		switch class {
		case 0x07, 0x04: // ALU64, ALU32
			is64 := class == 0x07
			var s uint64
			if op&0x08 != 0 {
				s = r.regs[src]
			} else {
				s = uint64(int64(imm)) // sign-extended for 64-bit ops
			}
			d := r.regs[dst]
			if !is64 {
				s &= 0xffffffff
				d &= 0xffffffff
			}
			if dst == 10 {
				return 0, &Fault{Kind: "bad-opcode", Prog: prog.Name, PC: pc, Msg: "write to the frame pointer"}
			}
			var res uint64
			switch op & 0xf0 {
			case 0x00:
				res = d + s
			case 0x10:
				res = d - s
			case 0x20:
				res = d * s
			case 0x40:
				res = d | s
			case 0x50:
				res = d & s
			case 0x60:
				if is64 {
					res = d << (s & 63)
				} else {
					res = d << (s & 31)
				}
			case 0x70:
				if is64 {
					res = d >> (s & 63)
				} else {
					res = d >> (s & 31)
				}
			case 0xa0:
				res = d ^ s
			case 0xb0:
				res = s
			case 0xc0:
				if is64 {
					res = uint64(int64(d) >> (s & 63))
				} else {
					res = uint64(uint32(int32(uint32(d)) >> (s & 31)))
				}
			case 0xd0: // byte swap; imm = width; src bit: 0 = to LE (no-op on LE), 1 = to BE
				if op&0x08 != 0 {
					switch imm {
					case 16:
						res = uint64(uint16(d)>>8 | uint16(d)<<8)
					case 32:
						x := uint32(d)
						res = uint64(x>>24 | x>>8&0xff00 | x<<8&0xff0000 | x<<24)
					case 64:
						var b [8]byte
						binary.LittleEndian.PutUint64(b[:], r.regs[dst])
						res = binary.BigEndian.Uint64(b[:])
					default:
						return 0, &Fault{Kind: "bad-opcode", Prog: prog.Name, PC: pc, Msg: "bad endian width"}
					}
				} else {
					switch imm {
					case 16:
						res = uint64(uint16(r.regs[dst]))
					case 32:
						res = uint64(uint32(r.regs[dst]))
					default:
						res = r.regs[dst]
					}
				}
				r.regs[dst] = res
				pc++
				continue
			default:
				return 0, &Fault{Kind: "bad-opcode", Prog: prog.Name, PC: pc, Msg: fmt.Sprintf("unsupported ALU op %#x", op)}
			}
			if !is64 {
				res &= 0xffffffff
			}
			r.regs[dst] = res
			pc++
		case 0x00: // LD: only ld_imm64
			if op != 0x18 || pc+1 >= n {
				return 0, &Fault{Kind: "bad-opcode", Prog: prog.Name, PC: pc, Msg: fmt.Sprintf("unsupported LD op %#x", op)}
			}
			hi := binary.LittleEndian.Uint32(prog.Insns[(pc+1)*8+4:])
			v := uint64(uint32(imm)) | uint64(hi)<<32
			if src == 1 { // BPF_PSEUDO_MAP_FD
				v = baseMapFD + uint64(uint32(imm))
			} else if src != 0 {
				return 0, &Fault{Kind: "bad-opcode", Prog: prog.Name, PC: pc, Msg: "unsupported ld_imm64 pseudo source"}
			}
			r.regs[dst] = v
			pc += 2
		case 0x01: // LDX
			if op&0xe0 != 0x60 {
				return 0, &Fault{Kind: "bad-opcode", Prog: prog.Name, PC: pc, Msg: fmt.Sprintf("unsupported LDX mode %#x", op)}
			}
			v, f := r.load(r.regs[src]+uint64(int64(off)), sizeOf(op), pc)
			if f != nil {
				return 0, f
			}
			r.regs[dst] = v
			pc++
		case 0x02, 0x03: // ST (imm), STX (reg)
			if op&0xe0 != 0x60 {
				return 0, &Fault{Kind: "bad-opcode", Prog: prog.Name, PC: pc, Msg: fmt.Sprintf("unsupported store mode %#x", op)}
			}
			v := r.regs[src]
			if class == 0x02 {
				v = uint64(int64(imm))
			}
			if f := r.store(r.regs[dst]+uint64(int64(off)), sizeOf(op), v, pc); f != nil {
				return 0, f
			}
			pc++
		case 0x05, 0x06: // JMP, JMP32
			jop := op & 0xf0
			if class == 0x05 {
				switch jop {
				case 0x00: // ja
					pc += 1 + int(off)
					continue
				case 0x90: // exit
					return r.regs[0], nil
				case 0x80: // call
					switch imm {
					case HelperMapLookupElem:
						fd := r.regs[1] - baseMapFD
						m, ok := vm.Maps[uint32(fd)]
						if !ok || r.regs[1] < baseMapFD || fd > 0xffffffff {
							return 0, &Fault{Kind: "bad-helper", Prog: prog.Name, PC: pc, Msg: fmt.Sprintf("map_lookup_elem on %#x, which is not a data map", r.regs[1])}
						}
						key, f := r.bytes(r.regs[2], m.KeySize(), pc)
						if f != nil {
							return 0, f
						}
						val := m.Lookup(key)
						if val == nil {
							r.regs[0] = 0
						} else {
							rg := region{base: baseValue + uint64(len(r.values)+1)<<32, mem: val, name: fmt.Sprintf("value of map fd %d", fd)}
							r.values = append(r.values, rg)
							r.regions = append(r.regions, &r.values[len(r.values)-1])
							r.regs[0] = rg.base
						}
						for i := 1; i <= 5; i++ {
							r.regs[i] = 0xdead_0000_0000_0000 + uint64(i) // clobbered by the call
						}
					case HelperTailCall:
						fd := r.regs[2] - baseMapFD
						pa, ok := vm.ProgArrays[uint32(fd)]
						if !ok || r.regs[2] < baseMapFD || fd > 0xffffffff {
							return 0, &Fault{Kind: "bad-helper", Prog: prog.Name, PC: pc, Msg: fmt.Sprintf("tail_call on %#x, which is not a program array", r.regs[2])}
						}
						if r.regs[1] != baseCtx {
							return 0, &Fault{Kind: "bad-helper", Prog: prog.Name, PC: pc, Msg: "tail_call without the context in R1"}
						}
						if tgt := pa.Prog(uint32(r.regs[3])); tgt != nil {
							if tgt.Terminal {
								vm.Chain = append(vm.Chain, tgt.Name)
								return tgt.TerminalRet, nil
							}
							if tailCalls++; tailCalls > 32 {
								return 0, &Fault{Kind: "step-limit", Prog: prog.Name, PC: pc, Msg: "more than 32 chained tail calls"}
							}
							prog = tgt
							goto restart
						}
						// miss: fall through to the next instruction, registers clobbered
						r.regs[0] = 0xdead_0000_0000_0000
						for i := 1; i <= 5; i++ {
							r.regs[i] = 0xdead_0000_0000_0000 + uint64(i)
						}
					default:
						return 0, &Fault{Kind: "bad-helper", Prog: prog.Name, PC: pc, Msg: fmt.Sprintf("helper %d is not implemented", imm)}
					}
					// r.values may have been re-sliced: rebuild region pointers
					r.regions = r.regions[:2]
					for i := range r.values {
						r.regions = append(r.regions, &r.values[i])
					}
					pc++
					continue
				}
			}
			var a, b uint64
			a = r.regs[dst]
			if op&0x08 != 0 {
				b = r.regs[src]
			} else {
				b = uint64(int64(imm))
			}
			var sa, sb int64
			if class == 0x06 {
				a &= 0xffffffff
				b &= 0xffffffff
				sa, sb = int64(int32(uint32(a))), int64(int32(uint32(b)))
			} else {
				sa, sb = int64(a), int64(b)
			}
			var take bool
			switch jop {
			case 0x10:
				take = a == b
			case 0x20:
				take = a > b
			case 0x30:
				take = a >= b
			case 0x40:
				take = a&b != 0
			case 0x50:
				take = a != b
			case 0x60:
				take = sa > sb
			case 0x70:
				take = sa >= sb
			case 0xa0:
				take = a < b
			case 0xb0:
				take = a <= b
			case 0xc0:
				take = sa < sb
			case 0xd0:
				take = sa <= sb
			default:
				return 0, &Fault{Kind: "bad-opcode", Prog: prog.Name, PC: pc, Msg: fmt.Sprintf("unsupported jump op %#x", op)}
			}
			if take {
				pc += 1 + int(off)
			} else {
				pc++
			}
		default:
			return 0, &Fault{Kind: "bad-opcode", Prog: prog.Name, PC: pc, Msg: fmt.Sprintf("unsupported class %#x", op)}
		}
	}
}

// ---------------------------------------------------------------------------------------------
// simple map implementations

// ArrayMap is a BPF_MAP_TYPE_ARRAY with 4-byte keys.
type ArrayMap struct {
	ValueSize int
	Entries   [][]byte
}

// NewArrayMap returns an array of n zeroed values.
func NewArrayMap(n, valueSize int) *ArrayMap {
	m := &ArrayMap{ValueSize: valueSize}
	for i := 0; i < n; i++ {
		m.Entries = append(m.Entries, make([]byte, valueSize))
	}
	return m
}

func (m *ArrayMap) KeySize() int { return 4 }
func (m *ArrayMap) Lookup(key []byte) []byte {
	i := binary.LittleEndian.Uint32(key)
	if int(i) >= len(m.Entries) {
		return nil
	}
	return m.Entries[i]
}

// LPMTrie is a BPF_MAP_TYPE_LPM_TRIE: keys are {u32 prefixlen (host order); data...}; a lookup
// returns the value of the entry with the longest prefix that matches the lookup key's data,
// considering only entries whose prefix length does not exceed the lookup key's.
type LPMTrie struct {
	keySize int
	entries []lpmEntry
}

type lpmEntry struct {
	plen uint32
	data []byte
	val  []byte
}

// NewLPMTrie returns an empty trie with the given total key size (including the 4-byte prefix length).
func NewLPMTrie(keySize int) *LPMTrie { return &LPMTrie{keySize: keySize} }

func (t *LPMTrie) KeySize() int { return t.keySize }

// Insert adds (or replaces) an entry.
func (t *LPMTrie) Insert(key, val []byte) error {
	if len(key) != t.keySize {
		return fmt.Errorf("bpfvm: LPM key of %d bytes, want %d", len(key), t.keySize)
	}
	plen := binary.LittleEndian.Uint32(key)
	if int(plen) > (t.keySize-4)*8 {
		return fmt.Errorf("bpfvm: LPM prefix length %d exceeds the key", plen)
	}
	for i := range t.entries {
		if t.entries[i].plen == plen && prefixEqual(t.entries[i].data, key[4:], plen) {
			t.entries[i].val = append([]byte(nil), val...)
			return nil
		}
	}
	t.entries = append(t.entries, lpmEntry{plen: plen, data: append([]byte(nil), key[4:]...), val: append([]byte(nil), val...)})
	return nil
}

func prefixEqual(a, b []byte, bits uint32) bool {
	full := int(bits / 8)
	for i := 0; i < full; i++ {
		if a[i] != b[i] {
			return false
		}
	}
	if rem := bits % 8; rem != 0 {
		mask := byte(0xff << (8 - rem))
		if a[full]&mask != b[full]&mask {
			return false
		}
	}
	return true
}

func (t *LPMTrie) Lookup(key []byte) []byte {
	max := binary.LittleEndian.Uint32(key)
	best := -1
	for i, e := range t.entries {
		if e.plen > max {
			continue
		}
		if !prefixEqual(e.data, key[4:], e.plen) {
			continue
		}
		if best < 0 || e.plen > t.entries[best].plen {
			best = i
		}
	}
	if best < 0 {
		return nil
	}
	return t.entries[best].val
}

// ProgTable is a program array.
type ProgTable map[uint32]*Program

func (p ProgTable) Prog(i uint32) *Program { return p[i] }

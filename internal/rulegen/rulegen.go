// Package rulegen generates the inputs of the policy-rendering checks: proto.Rule values that
// Felix can legitimately receive, the IP sets they refer to, boundary packet sets derived from
// a rule, and endpoint layouts (tiers / policies / profiles).
//
// Everything is drawn from the *rand.Rand handed to New, so a case replays from its seed.
//
// Validity rules respected (libcalico-go validator v3 + CEL rules on v3.Rule + the calc
// graph's conversion):
//
//   - numeric ports / negated ports only with protocol tcp, udp or sctp (name or 6/17/132);
//     named-port IP sets also with no protocol (the validator allows named ports without one);
//   - ICMP type / code (and their negations) only with protocol icmp or icmpv6 (or 1/58);
//     protocol "icmp" implies IpVersion 4 and "icmpv6" IpVersion 6 (calc.ipVersionToProtoIPVersion);
//     numeric 1/58 with ICMP criteria carries the explicit matching IpVersion; ICMP type <= 254;
//   - NotProtocol icmp only when IpVersion is ANY or 4, icmpv6 only when ANY or 6;
//   - an explicit IpVersion agrees with the family of all CIDRs of the rule;
//   - a service match (DstIpPortSetIds) excludes ports, nets and selectors on that side;
//   - actions: "allow", "" (= allow), "deny", "pass", "next-tier" (= pass), "log".
//
// Two kinds of input that the v3 validator rejects but FilterRuleToIPVersion documents a
// behaviour for are generated at a low, configurable rate (the oracle follows the documented
// behaviour): rules mixing IPv4 and IPv6 CIDRs, and a negated catch-all CIDR.
//
// Stable API:
//
//	New(r, Config) *Gen
//	(*Gen).Rule(ipVersion)            a full-featured rule aimed at one IP family (0 = random)
//	(*Gen).SimpleRule(ipVersion)      a rule over the small packet universe (for layouts)
//	(*Gen).SetMembers() / IPSets()    the IP sets referenced so far (id -> member strings)
//	(*Gen).Packets(rule, ipVersion,n) boundary packets: CIDR edges, port range ends +-1, set
//	                                  members and neighbours, protocol and another, ICMP
//	                                  type/code equal and different, plus random ones
//	(*Gen).UniversePacket(ipVersion)  a random packet of the small universe
//	(*Gen).Layout(LayoutConfig)       tiers / policies (enforced+staged, grouped) / profiles
//	(*Layout).Ref(kind)               the layout as a refpolicy.EndpointPolicy
package rulegen

import (
	"fmt"
	"math/rand"
	"net/netip"
	"sort"
	"strings"

	"github.com/projectcalico/calico/felix/proto"

	"verif/internal/refpolicy"
)

// Config tunes the generator; the zero value is replaced by DefaultConfig's values field by
// field.
type Config struct {
	MaxCIDRs       int // per CIDR list (default 4)
	MaxPorts       int // per port list (default 40: crosses the 15-slot multiport split)
	MaxNamedPorts  int // named-port IP set ids per side (default 3)
	MaxIPSets      int // selector IP set ids per side (default 2)
	MaxSetMembers  int // members per generated IP set (default 6)
	MixedFamilyPct int // % of rules that get a CIDR of the other family (default 5; -1 = never)
	CatchAllNegPct int // % of negated CIDR lists that get 0.0.0.0/0 or ::/0 (default 2; -1 = never)
	AnnotationPct  int // % of rules with metadata annotations (default 5; -1 = never)
	// NoNamedPorts / NoICMP restrict SimpleRule (and Rule) to features every dataplane supports
	// (used by the cross-dataplane agreement check): no named-port IP sets, no ICMP protocol or
	// ICMP type/code criteria.
	NoNamedPorts bool
	NoICMP       bool
}

// DefaultConfig returns the defaults described on Config.
func DefaultConfig() Config {
	return Config{MaxCIDRs: 4, MaxPorts: 40, MaxNamedPorts: 3, MaxIPSets: 2, MaxSetMembers: 6,
		MixedFamilyPct: 5, CatchAllNegPct: 2, AnnotationPct: 5}
}

func (c Config) withDefaults() Config {
	d := DefaultConfig()
	if c.MaxCIDRs == 0 {
		c.MaxCIDRs = d.MaxCIDRs
	}
	if c.MaxPorts == 0 {
		c.MaxPorts = d.MaxPorts
	}
	if c.MaxNamedPorts == 0 {
		c.MaxNamedPorts = d.MaxNamedPorts
	}
	if c.MaxIPSets == 0 {
		c.MaxIPSets = d.MaxIPSets
	}
	if c.MaxSetMembers == 0 {
		c.MaxSetMembers = d.MaxSetMembers
	}
	if c.MixedFamilyPct == 0 {
		c.MixedFamilyPct = d.MixedFamilyPct
	}
	if c.CatchAllNegPct == 0 {
		c.CatchAllNegPct = d.CatchAllNegPct
	}
	if c.AnnotationPct == 0 {
		c.AnnotationPct = d.AnnotationPct
	}
	return c
}

// Gen is a generator bound to one PRNG.  It remembers the IP sets it has invented.
type Gen struct {
	R    *rand.Rand
	Cfg  Config
	sets map[string][]string // id -> members (Felix member strings, both families mixed)
	ids  []string            // ids in creation order
	// small universe used by SimpleRule / UniversePacket
	uniAddr4, uniAddr6 []netip.Addr
	uniPorts           []uint16
	seq                int
	parsed             refpolicy.IPSets
	parsedN            int
}

// New returns a generator.
func New(r *rand.Rand, cfg Config) *Gen {
	g := &Gen{R: r, Cfg: cfg.withDefaults(), sets: map[string][]string{}}
	for i := 0; i < 10; i++ {
		g.uniAddr4 = append(g.uniAddr4, netip.AddrFrom4([4]byte{10, byte(65 + i%3), byte(i / 3), byte(1 + r.Intn(250))}))
		a := [16]byte{0xfd, 0x00, 0xca, 0x11}
		a[5] = byte(i % 3)
		a[7] = byte(i / 3)
		a[15] = byte(1 + r.Intn(250))
		g.uniAddr6 = append(g.uniAddr6, netip.AddrFrom16(a))
	}
	g.uniPorts = []uint16{22, 53, 80, 443, 8080, uint16(1024 + r.Intn(60000))}
	return g
}

// SetMembers returns id -> members of every IP set generated so far (Felix's member strings:
// "10.0.0.0/24", "fd00::1/128", "10.0.0.1,tcp:80").  A set may hold members of both families,
// as Felix's IP sets do; each dataplane family only sees its own.
func (g *Gen) SetMembers() map[string][]string {
	out := make(map[string][]string, len(g.sets))
	for k, v := range g.sets {
		out[k] = append([]string(nil), v...)
	}
	return out
}

// SetIDs returns the generated set ids in creation order.
func (g *Gen) SetIDs() []string { return append([]string(nil), g.ids...) }

// IsIPPortSet reports whether the generated set id is an (ip,proto,port) set.
func (g *Gen) IsIPPortSet(id string) bool {
	return strings.HasPrefix(id, "n:") || strings.HasPrefix(id, "svc:")
}

// IPSets returns the generated sets in refpolicy form.
func (g *Gen) IPSets() refpolicy.IPSets {
	if g.parsed == nil || g.parsedN != len(g.ids) {
		g.parsed, g.parsedN = refpolicy.MustParseIPSets(g.sets), len(g.ids)
	}
	return g.parsed
}

const idAlphabet = "abcdefghijklmnopqrstuvwxyzABCDEFGHIJKLMNOPQRSTUVWXYZ0123456789-_"

func (g *Gen) newID(prefix string) string {
	b := make([]byte, 18)
	for i := range b {
		b[i] = idAlphabet[g.R.Intn(len(idAlphabet))]
	}
	g.seq++
	return fmt.Sprintf("%s%s%02x", prefix, b, g.seq%256)
}

func (g *Gen) pct(p int) bool { return p > 0 && g.R.Intn(100) < p }

// ---- addresses

func (g *Gen) randAddr(v uint8) netip.Addr {
	if v == 4 {
		switch g.R.Intn(4) {
		case 0:
			return g.uniAddr4[g.R.Intn(len(g.uniAddr4))]
		case 1:
			return netip.AddrFrom4([4]byte{10, byte(g.R.Intn(4)), byte(g.R.Intn(4)), byte(g.R.Intn(256))})
		}
		var b [4]byte
		g.R.Read(b[:])
		return netip.AddrFrom4(b)
	}
	switch g.R.Intn(4) {
	case 0:
		return g.uniAddr6[g.R.Intn(len(g.uniAddr6))]
	case 1:
		a := [16]byte{0x20, 0x01, 0x0d, 0xb8}
		a[7] = byte(g.R.Intn(4))
		a[15] = byte(g.R.Intn(256))
		return netip.AddrFrom16(a)
	}
	var b [16]byte
	g.R.Read(b[:])
	if b[0] == 0 && b[1] == 0 { // keep away from v4-mapped / unspecified forms
		b[0] = 0xfd
	}
	return netip.AddrFrom16(b)
}

func (g *Gen) randCIDR(v uint8) netip.Prefix {
	a := g.randAddr(v)
	max := 32
	if v == 6 {
		max = 128
	}
	var bits int
	switch g.R.Intn(10) {
	case 0:
		bits = max
	case 1:
		bits = max - 1
	case 2:
		if v == 4 {
			bits = 8 * (1 + g.R.Intn(3))
		} else {
			bits = 16 * (1 + g.R.Intn(7))
		}
	case 3:
		bits = 1 + g.R.Intn(7)
	default:
		bits = 1 + g.R.Intn(max)
	}
	return netip.PrefixFrom(a, bits).Masked()
}

func (g *Gen) cidrList(v uint8, other uint8, negated bool) []string {
	n := 1 + g.R.Intn(g.Cfg.MaxCIDRs)
	if g.R.Intn(3) == 0 {
		n = 1
	}
	var out []string
	for i := 0; i < n; i++ {
		p := g.randCIDR(v)
		if p.Bits() == p.Addr().BitLen() && g.R.Intn(3) == 0 {
			out = append(out, p.Addr().String()) // bare address form
		} else {
			out = append(out, p.String())
		}
	}
	if other != 0 {
		out = append(out, g.randCIDR(other).String())
		g.R.Shuffle(len(out), func(i, j int) { out[i], out[j] = out[j], out[i] })
	}
	if negated && g.pct(g.Cfg.CatchAllNegPct) {
		ca := "0.0.0.0/0"
		if v == 6 {
			ca = "::/0"
		}
		out[g.R.Intn(len(out))] = ca
	}
	if !negated && g.R.Intn(40) == 0 {
		ca := "0.0.0.0/0"
		if v == 6 {
			ca = "::/0"
		}
		out[g.R.Intn(len(out))] = ca
	}
	return out
}

// ---- IP sets

// NewNetSet invents a selector-style IP set (CIDR members, mostly of family v) and returns its
// id.
func (g *Gen) NewNetSet(v uint8) string {
	id := g.newID("s:")
	n := g.R.Intn(g.Cfg.MaxSetMembers + 1)
	var ms []string
	for i := 0; i < n; i++ {
		fam := v
		if g.R.Intn(6) == 0 {
			fam = 10 - v // the other family (4 <-> 6)
		}
		if g.R.Intn(3) == 0 {
			ms = append(ms, g.randCIDR(fam).String())
		} else {
			a := g.randAddr(fam)
			ms = append(ms, netip.PrefixFrom(a, a.BitLen()).String())
		}
	}
	g.sets[id] = ms
	g.ids = append(g.ids, id)
	return id
}

var portProtoNames = []string{"tcp", "udp", "sctp"}

// NewIPPortSet invents a named-port (prefix "n:") or service (prefix "svc:") IP set with
// ip,proto:port members and returns its id.  If protoName is non-empty most members use it.
func (g *Gen) NewIPPortSet(prefix string, v uint8, protoName string) string {
	id := g.newID(prefix)
	n := g.R.Intn(g.Cfg.MaxSetMembers + 1)
	var ms []string
	for i := 0; i < n; i++ {
		fam := v
		if g.R.Intn(6) == 0 {
			fam = 10 - v
		}
		pn := protoName
		if pn == "" || g.R.Intn(5) == 0 {
			pn = portProtoNames[g.R.Intn(3)]
		}
		ms = append(ms, fmt.Sprintf("%s,%s:%d", g.randAddr(fam), pn, g.randPort()))
	}
	g.sets[id] = ms
	g.ids = append(g.ids, id)
	return id
}

func (g *Gen) randPort() uint16 {
	switch g.R.Intn(6) {
	case 0:
		return g.uniPorts[g.R.Intn(len(g.uniPorts))]
	case 1:
		return uint16(g.R.Intn(4)) // 0..3
	case 2:
		return uint16(65535 - g.R.Intn(3))
	}
	return uint16(g.R.Intn(65536))
}

func (g *Gen) portList(max int) []*proto.PortRange {
	var n int
	switch g.R.Intn(5) {
	case 0:
		n = 1
	case 1:
		n = 13 + g.R.Intn(6) // around the 15-slot boundary
	case 2:
		n = 1 + g.R.Intn(max)
	default:
		n = 1 + g.R.Intn(6)
	}
	if n > max {
		n = max
	}
	var out []*proto.PortRange
	for i := 0; i < n; i++ {
		lo := int32(g.randPort())
		hi := lo
		if g.R.Intn(3) == 0 {
			hi = lo + int32(g.R.Intn(50))
			if g.R.Intn(8) == 0 {
				hi = lo + int32(g.R.Intn(20000))
			}
			if hi > 65535 {
				hi = 65535
			}
		}
		out = append(out, &proto.PortRange{First: lo, Last: hi})
	}
	return out
}

// ---- protocols

func protoName(n string) *proto.Protocol {
	return &proto.Protocol{NumberOrName: &proto.Protocol_Name{Name: n}}
}
func protoNum(n int32) *proto.Protocol {
	return &proto.Protocol{NumberOrName: &proto.Protocol_Number{Number: n}}
}

// ProtoName and ProtoNum build proto.Protocol values.
func ProtoName(n string) *proto.Protocol { return protoName(n) }
func ProtoNum(n int32) *proto.Protocol   { return protoNum(n) }

var actions = []string{"allow", "allow", "allow", "allow", "allow", "allow", "allow", "", "deny", "deny", "deny", "deny", "deny", "pass", "pass", "pass", "next-tier", "log", "log"}

func (g *Gen) action() string { return actions[g.R.Intn(len(actions))] }

// Rule generates a full-featured rule.  ipVersion (4, 6 or 0 = random) is the family the rule
// is aimed at: its CIDRs and most set members are of that family (an ICMP protocol overrides
// the aim: icmp is IPv4, icmpv6 is IPv6).
func (g *Gen) Rule(ipVersion uint8) *proto.Rule {
	v := ipVersion
	if v == 0 {
		v = 4
		if g.R.Intn(2) == 0 {
			v = 6
		}
	}
	r := &proto.Rule{Action: g.action()}
	r.RuleId = g.newID("r")

	// protocol
	portProto := false // tcp/udp/sctp
	portProtoName := ""
	icmpProto := false
	forceVersion := false
	switch k := g.R.Intn(20); {
	case k < 6: // none
	case k < 12:
		portProtoName = portProtoNames[g.R.Intn(3)]
		r.Protocol = protoName(portProtoName)
		portProto = true
	case k < 14:
		i := g.R.Intn(3)
		portProtoName = portProtoNames[i]
		r.Protocol = protoNum([]int32{6, 17, 132}[i])
		portProto = true
	case k < 17 && g.Cfg.NoICMP:
		portProtoName = portProtoNames[g.R.Intn(3)]
		r.Protocol = protoName(portProtoName)
		portProto = true
	case k < 16: // ICMP by name: the calc graph infers the IP version from the name
		if v == 4 {
			r.Protocol = protoName("icmp")
		} else {
			r.Protocol = protoName("icmpv6")
		}
		icmpProto, forceVersion = true, true
	case k < 17: // ICMP by number
		if v == 4 {
			r.Protocol = protoNum(1)
		} else {
			r.Protocol = protoNum(58)
		}
		icmpProto = true
	case k < 18:
		r.Protocol = protoName("udplite")
	default:
		n := int32(2 + g.R.Intn(254))
		if n == 6 || n == 17 || n == 132 || n == 58 || n == 1 {
			n = 47
		}
		r.Protocol = protoNum(n)
	}

	// CIDRs
	other := uint8(0)
	mixed := g.pct(g.Cfg.MixedFamilyPct) && !icmpProto
	pickOther := func() uint8 {
		if mixed && g.R.Intn(2) == 0 {
			return 10 - v
		}
		return other
	}
	if g.R.Intn(100) < 35 {
		r.SrcNet = g.cidrList(v, pickOther(), false)
	}
	if g.R.Intn(100) < 20 {
		r.NotSrcNet = g.cidrList(v, pickOther(), true)
	}
	if g.R.Intn(100) < 35 {
		r.DstNet = g.cidrList(v, pickOther(), false)
	}
	if g.R.Intn(100) < 20 {
		r.NotDstNet = g.cidrList(v, pickOther(), true)
	}
	hasOther := false
	for _, l := range [][]string{r.SrcNet, r.NotSrcNet, r.DstNet, r.NotDstNet} {
		for _, c := range l {
			if strings.Contains(c, ":") != (v == 6) {
				hasOther = true
			}
		}
	}

	// IP version
	switch {
	case forceVersion:
		r.IpVersion = proto.IPVersion(v)
	case hasOther:
		r.IpVersion = proto.IPVersion_ANY
	default:
		switch g.R.Intn(10) {
		case 0, 1, 2, 3:
			r.IpVersion = proto.IPVersion(v)
		case 4:
			// a rule for the OTHER family without CIDRs of this one: it must not apply to
			// family v at all
			if len(r.SrcNet)+len(r.NotSrcNet)+len(r.DstNet)+len(r.NotDstNet) == 0 && !icmpProto {
				r.IpVersion = proto.IPVersion(10 - v)
			}
		}
	}

	// ICMP criteria
	if icmpProto {
		if g.R.Intn(2) == 0 {
			if g.R.Intn(2) == 0 {
				r.Icmp = &proto.Rule_IcmpType{IcmpType: int32(g.icmpType())}
			} else {
				r.Icmp = &proto.Rule_IcmpTypeCode{IcmpTypeCode: &proto.IcmpTypeAndCode{Type: int32(g.icmpType()), Code: int32(g.icmpCode())}}
			}
		}
		if g.R.Intn(10) < 3 {
			if g.R.Intn(2) == 0 {
				r.NotIcmp = &proto.Rule_NotIcmpType{NotIcmpType: int32(g.icmpType())}
			} else {
				r.NotIcmp = &proto.Rule_NotIcmpTypeCode{NotIcmpTypeCode: &proto.IcmpTypeAndCode{Type: int32(g.icmpType()), Code: int32(g.icmpCode())}}
			}
		}
		if (r.Icmp != nil || r.NotIcmp != nil) && r.IpVersion == proto.IPVersion_ANY {
			r.IpVersion = proto.IPVersion(v) // numeric 1/58: the user states the version
		}
	}

	// NotProtocol
	if g.R.Intn(100) < 15 {
		switch g.R.Intn(6) {
		case 0:
			r.NotProtocol = protoName(portProtoNames[g.R.Intn(3)])
		case 1:
			r.NotProtocol = protoNum([]int32{6, 17, 132}[g.R.Intn(3)])
		case 2:
			if r.IpVersion != proto.IPVersion_IPV6 {
				r.NotProtocol = protoName("icmp")
			}
		case 3:
			if r.IpVersion != proto.IPVersion_IPV4 {
				r.NotProtocol = protoName("icmpv6")
			}
		case 4:
			r.NotProtocol = protoName("udplite")
		default:
			n := int32(2 + g.R.Intn(254))
			if n == 58 {
				n = 59
			}
			r.NotProtocol = protoNum(n)
		}
	}

	// service match on the destination side
	svc := g.R.Intn(100) < 8 && len(r.DstNet) == 0 && len(r.NotDstNet) == 0
	if svc {
		r.DstIpPortSetIds = []string{g.NewIPPortSet("svc:", v, portProtoName)}
	}

	// ports
	if portProto {
		if g.R.Intn(100) < 25 {
			r.SrcPorts = g.portList(g.Cfg.MaxPorts)
		}
		if g.R.Intn(100) < 40 && !svc {
			r.DstPorts = g.portList(g.Cfg.MaxPorts)
		}
		if g.R.Intn(100) < 15 {
			r.NotSrcPorts = g.portList(g.Cfg.MaxPorts)
		}
		if g.R.Intn(100) < 15 && !svc {
			r.NotDstPorts = g.portList(g.Cfg.MaxPorts)
		}
	}
	if (portProto || r.Protocol == nil) && !g.Cfg.NoNamedPorts {
		np := func() []string {
			var out []string
			for i, n := 0, 1+g.R.Intn(g.Cfg.MaxNamedPorts); i < n; i++ {
				out = append(out, g.NewIPPortSet("n:", v, portProtoName))
			}
			return out
		}
		if g.R.Intn(100) < 15 {
			r.SrcNamedPortIpSetIds = np()
		}
		if g.R.Intn(100) < 20 && !svc {
			r.DstNamedPortIpSetIds = np()
		}
		if g.R.Intn(100) < 8 {
			r.NotSrcNamedPortIpSetIds = np()
		}
		if g.R.Intn(100) < 8 && !svc {
			r.NotDstNamedPortIpSetIds = np()
		}
	}

	// selector IP sets
	sel := func() []string {
		var out []string
		for i, n := 0, 1+g.R.Intn(g.Cfg.MaxIPSets); i < n; i++ {
			out = append(out, g.NewNetSet(v))
		}
		return out
	}
	if g.R.Intn(100) < 30 {
		r.SrcIpSetIds = sel()
	}
	if g.R.Intn(100) < 15 {
		r.NotSrcIpSetIds = sel()
	}
	if !svc {
		if g.R.Intn(100) < 30 {
			r.DstIpSetIds = sel()
		}
		if g.R.Intn(100) < 15 {
			r.NotDstIpSetIds = sel()
		}
	}

	if g.pct(g.Cfg.AnnotationPct) {
		r.Metadata = &proto.RuleMetadata{Annotations: map[string]string{"note": "a \"quoted\" $(x) `y` ; value"}}
	}
	return r
}

func (g *Gen) icmpType() int {
	if g.R.Intn(3) == 0 {
		return []int{0, 3, 8, 11, 128, 129, 135, 136, 254}[g.R.Intn(9)]
	}
	return g.R.Intn(255) // 0..254 (the v3 validator's upper bound)
}

func (g *Gen) icmpCode() int {
	if g.R.Intn(3) == 0 {
		return g.R.Intn(4)
	}
	return g.R.Intn(256)
}

// ---- packets

func addrEdges(p netip.Prefix) []netip.Addr {
	first := p.Masked().Addr()
	// last address of the prefix
	b := first.AsSlice()
	for i := p.Bits(); i < len(b)*8; i++ {
		b[i/8] |= 1 << (7 - uint(i%8))
	}
	last, _ := netip.AddrFromSlice(b)
	out := []netip.Addr{first, last}
	if pr := first.Prev(); pr.IsValid() {
		out = append(out, pr)
	}
	if nx := last.Next(); nx.IsValid() {
		out = append(out, nx)
	}
	return out
}

func famOf(a netip.Addr) uint8 {
	if a.Is4() || a.Is4In6() {
		return 4
	}
	return 6
}

func parseNet(c string) (netip.Prefix, bool) {
	if strings.Contains(c, "/") {
		p, err := netip.ParsePrefix(c)
		return p, err == nil
	}
	a, err := netip.ParseAddr(c)
	if err != nil {
		return netip.Prefix{}, false
	}
	return netip.PrefixFrom(a, a.BitLen()), true
}

type triple struct {
	addr  netip.Addr
	proto uint8
	port  uint16
}

// cands collects the boundary values of one rule for one family.
type cands struct {
	src, dst     []netip.Addr
	protos       []uint8
	sport, dport []uint16
	icmp         [][2]uint8
	srcT, dstT   []triple // (addr, proto, port) members of ip,port sets on each side
}

func (g *Gen) candidates(r *proto.Rule, v uint8) *cands {
	c := &cands{}
	sets := g.IPSets()
	addNets := func(dst *[]netip.Addr, lists ...[]string) {
		for _, l := range lists {
			for _, s := range l {
				if p, ok := parseNet(s); ok && famOf(p.Addr()) == v {
					*dst = append(*dst, addrEdges(p)...)
				}
			}
		}
	}
	addSets := func(dst *[]netip.Addr, lists ...[]string) {
		for _, l := range lists {
			for _, id := range l {
				s := sets[id]
				if s == nil {
					continue
				}
				for _, n := range s.Nets {
					if famOf(n.Addr()) == v {
						*dst = append(*dst, addrEdges(n)...)
					}
				}
			}
		}
	}
	addTriples := func(addrs *[]netip.Addr, ports *[]uint16, ts *[]triple, lists ...[]string) {
		for _, l := range lists {
			for _, id := range l {
				s := sets[id]
				if s == nil {
					continue
				}
				for _, m := range s.IPPorts {
					if famOf(m.Addr) != v {
						continue
					}
					*ts = append(*ts, triple{m.Addr, m.Proto, m.Port})
					*addrs = append(*addrs, m.Addr)
					if nx := m.Addr.Next(); nx.IsValid() {
						*addrs = append(*addrs, nx)
					}
					*ports = append(*ports, m.Port, m.Port+1, m.Port-1)
					c.protos = append(c.protos, m.Proto)
				}
			}
		}
	}
	addNets(&c.src, r.SrcNet, r.NotSrcNet)
	addNets(&c.dst, r.DstNet, r.NotDstNet)
	addSets(&c.src, r.SrcIpSetIds, r.NotSrcIpSetIds)
	addSets(&c.dst, r.DstIpSetIds, r.NotDstIpSetIds)
	addTriples(&c.src, &c.sport, &c.srcT, r.SrcNamedPortIpSetIds, r.NotSrcNamedPortIpSetIds)
	addTriples(&c.dst, &c.dport, &c.dstT, r.DstNamedPortIpSetIds, r.NotDstNamedPortIpSetIds, r.DstIpPortSetIds)
	for i := 0; i < 2; i++ {
		c.src = append(c.src, g.randAddr(v))
		c.dst = append(c.dst, g.randAddr(v))
	}
	addPorts := func(dst *[]uint16, lists ...[]*proto.PortRange) {
		for _, l := range lists {
			for _, pr := range l {
				for _, p := range []int32{pr.First, pr.Last, pr.First - 1, pr.Last + 1} {
					if p >= 0 && p <= 65535 {
						*dst = append(*dst, uint16(p))
					}
				}
				if pr.Last-pr.First > 2 {
					*dst = append(*dst, uint16(pr.First+1+int32(g.R.Intn(int(pr.Last-pr.First-1)))))
				}
			}
		}
	}
	addPorts(&c.sport, r.SrcPorts, r.NotSrcPorts)
	addPorts(&c.dport, r.DstPorts, r.NotDstPorts)
	c.sport = append(c.sport, 0, 65535, g.randPort())
	c.dport = append(c.dport, 0, 65535, g.randPort())
	if n, ok := refpolicy.ProtocolNumber(r.Protocol); ok {
		c.protos = append(c.protos, n, n, n)
	}
	if n, ok := refpolicy.ProtocolNumber(r.NotProtocol); ok {
		c.protos = append(c.protos, n)
	}
	icmpP := uint8(refpolicy.ProtoICMP)
	if v == 6 {
		icmpP = refpolicy.ProtoICMPv6
	}
	c.protos = append(c.protos, 6, 17, 132, icmpP, uint8(2+g.R.Intn(250)))
	addICMP := func(t, co int32, withCode bool) {
		c.icmp = append(c.icmp, [2]uint8{uint8(t), uint8(co)}, [2]uint8{uint8(t), uint8(co + 1)}, [2]uint8{uint8(t + 1), uint8(co)})
		if !withCode {
			c.icmp = append(c.icmp, [2]uint8{uint8(t), uint8(g.R.Intn(256))})
		}
	}
	switch ic := r.Icmp.(type) {
	case *proto.Rule_IcmpType:
		addICMP(ic.IcmpType, 0, false)
	case *proto.Rule_IcmpTypeCode:
		addICMP(ic.IcmpTypeCode.Type, ic.IcmpTypeCode.Code, true)
	}
	switch ic := r.NotIcmp.(type) {
	case *proto.Rule_NotIcmpType:
		addICMP(ic.NotIcmpType, 0, false)
	case *proto.Rule_NotIcmpTypeCode:
		addICMP(ic.NotIcmpTypeCode.Type, ic.NotIcmpTypeCode.Code, true)
	}
	c.icmp = append(c.icmp, [2]uint8{uint8(g.R.Intn(256)), uint8(g.R.Intn(256))}, [2]uint8{255, 0})
	return c
}

func (g *Gen) pickPacket(c *cands, v uint8) refpolicy.Packet {
	p := refpolicy.Packet{IPVersion: v}
	p.Src = c.src[g.R.Intn(len(c.src))]
	p.Dst = c.dst[g.R.Intn(len(c.dst))]
	p.Proto = c.protos[g.R.Intn(len(c.protos))]
	p.SrcPort = c.sport[g.R.Intn(len(c.sport))]
	p.DstPort = c.dport[g.R.Intn(len(c.dport))]
	ic := c.icmp[g.R.Intn(len(c.icmp))]
	p.ICMPType, p.ICMPCode = ic[0], ic[1]
	if len(c.srcT) > 0 && g.R.Intn(2) == 0 {
		t := c.srcT[g.R.Intn(len(c.srcT))]
		p.Src, p.Proto, p.SrcPort = t.addr, t.proto, t.port
	}
	if len(c.dstT) > 0 && g.R.Intn(2) == 0 {
		t := c.dstT[g.R.Intn(len(c.dstT))]
		p.Dst, p.DstPort = t.addr, t.port
		if g.R.Intn(4) != 0 {
			p.Proto = t.proto
		}
	}
	return normalise(p)
}

// normalise zeroes the fields that do not exist for the packet's protocol.
func normalise(p refpolicy.Packet) refpolicy.Packet {
	if !refpolicy.HasPorts(p.Proto) {
		p.SrcPort, p.DstPort = 0, 0
	}
	if !p.IsICMP() {
		p.ICMPType, p.ICMPCode = 0, 0
	}
	return p
}

// Packets returns up to n packets of family ipVersion chosen on and around every boundary of
// the rule: for every CIDR (and IP set member) its first and last address and the addresses
// just outside, for every port range both ends +-1, members of named-port sets and their
// neighbours, the rule's protocol and others, equal and different ICMP type/code.  The
// generator first searches for a packet the reference says matches, then varies one field at a
// time across that field's boundary values (near misses), then fills up with random
// combinations of boundary values and fully random packets.
func (g *Gen) Packets(r *proto.Rule, ipVersion uint8, n int) []refpolicy.Packet {
	c := g.candidates(r, ipVersion)
	sets := g.IPSets()
	var out []refpolicy.Packet
	seen := map[refpolicy.Packet]bool{}
	add := func(p refpolicy.Packet) {
		p = normalise(p)
		if !seen[p] && len(out) < n {
			seen[p] = true
			out = append(out, p)
		}
	}
	var hit *refpolicy.Packet
	for i := 0; i < 300; i++ {
		p := g.pickPacket(c, ipVersion)
		if refpolicy.MatchRule(r, &p, sets) {
			hit = &p
			break
		}
	}
	if hit != nil {
		add(*hit)
		base := *hit
		budget := n * 2 / 3
		vary := func(k int, f func(p *refpolicy.Packet, i int)) {
			idx := g.R.Perm(k)
			lim := budget / 5
			if lim < 3 {
				lim = 3
			}
			for j, i := range idx {
				if j >= lim {
					break
				}
				p := base
				f(&p, i)
				add(p)
			}
		}
		vary(len(c.src), func(p *refpolicy.Packet, i int) { p.Src = c.src[i] })
		vary(len(c.dst), func(p *refpolicy.Packet, i int) { p.Dst = c.dst[i] })
		vary(len(c.protos), func(p *refpolicy.Packet, i int) { p.Proto = c.protos[i] })
		vary(len(c.sport), func(p *refpolicy.Packet, i int) { p.SrcPort = c.sport[i] })
		vary(len(c.dport), func(p *refpolicy.Packet, i int) { p.DstPort = c.dport[i] })
		vary(len(c.icmp), func(p *refpolicy.Packet, i int) { p.ICMPType, p.ICMPCode = c.icmp[i][0], c.icmp[i][1] })
	}
	for tries := 0; len(out) < n-2 && tries < 4*n; tries++ {
		add(g.pickPacket(c, ipVersion))
	}
	for tries := 0; len(out) < n && tries < 20; tries++ {
		add(g.RandomPacket(ipVersion))
	}
	return out
}

// RandomPacket returns a uniformly random packet of the family.
func (g *Gen) RandomPacket(v uint8) refpolicy.Packet {
	p := refpolicy.Packet{IPVersion: v, Src: g.randAddr(v), Dst: g.randAddr(v)}
	switch g.R.Intn(6) {
	case 0, 1:
		p.Proto = 6
	case 2:
		p.Proto = 17
	case 3:
		p.Proto = 132
	case 4:
		p.Proto = refpolicy.ProtoICMP
		if v == 6 {
			p.Proto = refpolicy.ProtoICMPv6
		}
	default:
		p.Proto = uint8(2 + g.R.Intn(250))
	}
	p.SrcPort, p.DstPort = g.randPort(), g.randPort()
	p.ICMPType, p.ICMPCode = uint8(g.R.Intn(256)), uint8(g.R.Intn(256))
	return normalise(p)
}

func sortedKeys(m map[string][]string) []string {
	ks := make([]string, 0, len(m))
	for k := range m {
		ks = append(ks, k)
	}
	sort.Strings(ks)
	return ks
}

package rulegen

import (
	"fmt"
	"net/netip"
	"strings"

	"github.com/projectcalico/calico/felix/proto"

	"verif/internal/refpolicy"
)

// Policy kinds as they appear in types.PolicyID.Kind.  The three Staged* kinds are the staged
// ones (they never affect the verdict).
var (
	EnforcedKinds = []string{"NetworkPolicy", "GlobalNetworkPolicy", "KubernetesNetworkPolicy", "KubernetesClusterNetworkPolicy"}
	StagedKinds   = []string{"StagedNetworkPolicy", "StagedGlobalNetworkPolicy", "StagedKubernetesNetworkPolicy"}
)

// LPolicy is one generated policy.
type LPolicy struct {
	Name, Namespace, Kind string
	Staged                bool // Kind is one of StagedKinds
	Tier                  string
	Ingress, Egress       bool // listed for the endpoint in that direction (policy types)
	Inbound, Outbound     []*proto.Rule
}

// LTier is one generated tier with its policies in order and, per direction, a partition of
// the listed policies into consecutive groups (Felix groups policies that share a selector;
// any partition into runs can occur).
type LTier struct {
	Name          string
	DefaultAction string // "Deny" or "Pass"
	Policies      []*LPolicy
	IngressGroups [][]*LPolicy
	EgressGroups  [][]*LPolicy
}

// LProfile is one generated profile.
type LProfile struct {
	Name              string
	Inbound, Outbound []*proto.Rule
}

// Layout is everything attached to one endpoint.
type Layout struct {
	Tiers    []*LTier
	Profiles []*LProfile
}

// LayoutConfig bounds a layout; zero fields take the defaults in the comments.
type LayoutConfig struct {
	IPVersion      uint8  // family the rules are aimed at (default 4)
	MaxTiers       int    // default 4 (0..MaxTiers tiers)
	MaxPolicies    int    // per tier, default 12 (crosses the return stride of 5 twice)
	MaxGroup       int    // largest policy group, default 7
	MaxProfiles    int    // default 3; negative = no profiles
	MaxRules       int    // per direction of a policy/profile, default 4
	ComplexRulePct int    // % of rules drawn from Rule() instead of SimpleRule(), default 15; negative = none
	StagedPct      int    // % of policies that are staged, default 25
	NamePrefix     string // prepended to tier, policy and profile names (to keep two layouts apart)
}

func (c LayoutConfig) withDefaults() LayoutConfig {
	if c.IPVersion == 0 {
		c.IPVersion = 4
	}
	if c.MaxTiers == 0 {
		c.MaxTiers = 4
	}
	if c.MaxPolicies == 0 {
		c.MaxPolicies = 12
	}
	if c.MaxGroup == 0 {
		c.MaxGroup = 7
	}
	if c.MaxProfiles == 0 {
		c.MaxProfiles = 3
	}
	if c.MaxRules == 0 {
		c.MaxRules = 4
	}
	if c.ComplexRulePct == 0 {
		c.ComplexRulePct = 15
	}
	if c.StagedPct == 0 {
		c.StagedPct = 25
	}
	return c
}

func (g *Gen) uniAddrs(v uint8) []netip.Addr {
	if v == 6 {
		return g.uniAddr6
	}
	return g.uniAddr4
}

func (g *Gen) uniNet(v uint8) string {
	as := g.uniAddrs(v)
	a := as[g.R.Intn(len(as))]
	var bits int
	if v == 4 {
		bits = []int{32, 32, 24, 16, 8}[g.R.Intn(5)]
	} else {
		bits = []int{128, 128, 64, 48, 32}[g.R.Intn(5)]
	}
	return netip.PrefixFrom(a, bits).Masked().String()
}

// SimpleRule generates a rule over the generator's small packet universe (ten addresses per
// family, six ports, tcp/udp/icmp) so that a good share of UniversePacket()s matches it.
func (g *Gen) SimpleRule(v uint8) *proto.Rule {
	if v == 0 {
		v = 4
	}
	r := &proto.Rule{RuleId: g.newID("r")}
	switch k := g.R.Intn(100); {
	case k < 35:
		r.Action = "allow"
	case k < 60:
		r.Action = "deny"
	case k < 80:
		r.Action = "pass"
	case k < 85:
		r.Action = "next-tier"
	default:
		r.Action = "log"
	}
	pn := ""
	switch k := g.R.Intn(10); {
	case k < 4:
		pn = "tcp"
	case k < 6:
		pn = "udp"
	case k < 7 && g.Cfg.NoICMP:
		pn = "udp"
	case k < 7:
		if v == 4 {
			r.Protocol, r.IpVersion = protoName("icmp"), proto.IPVersion_IPV4
		} else {
			r.Protocol, r.IpVersion = protoName("icmpv6"), proto.IPVersion_IPV6
		}
	}
	if pn != "" {
		if g.R.Intn(4) == 0 {
			r.Protocol = protoNum(map[string]int32{"tcp": 6, "udp": 17}[pn])
		} else {
			r.Protocol = protoName(pn)
		}
		if g.R.Intn(2) == 0 {
			for i, n := 0, 1+g.R.Intn(3); i < n; i++ {
				p := int32(g.uniPorts[g.R.Intn(len(g.uniPorts))])
				hi := p
				if g.R.Intn(4) == 0 {
					hi = p + int32(g.R.Intn(400))
				}
				r.DstPorts = append(r.DstPorts, &proto.PortRange{First: p, Last: hi})
			}
		}
		if g.R.Intn(8) == 0 {
			p := int32(g.uniPorts[g.R.Intn(len(g.uniPorts))])
			r.NotDstPorts = []*proto.PortRange{{First: p, Last: p}}
		}
	}
	if g.R.Intn(10) < 4 {
		for i, n := 0, 1+g.R.Intn(2); i < n; i++ {
			r.SrcNet = append(r.SrcNet, g.uniNet(v))
		}
	}
	if g.R.Intn(10) < 3 {
		r.DstNet = []string{g.uniNet(v)}
	}
	if g.R.Intn(10) == 0 {
		r.NotSrcNet = []string{g.uniNet(v)}
	}
	if g.R.Intn(10) == 0 {
		r.NotDstNet = []string{g.uniNet(v)}
	}
	uniSet := func() string {
		id := g.newID("s:")
		as := g.uniAddrs(v)
		var ms []string
		for i, n := 0, 1+g.R.Intn(5); i < n; i++ {
			a := as[g.R.Intn(len(as))]
			ms = append(ms, netip.PrefixFrom(a, a.BitLen()).String())
		}
		g.sets[id] = ms
		g.ids = append(g.ids, id)
		return id
	}
	if g.R.Intn(100) < 15 {
		r.SrcIpSetIds = []string{uniSet()}
	}
	if g.R.Intn(100) < 10 {
		r.DstIpSetIds = []string{uniSet()}
	}
	if g.R.Intn(100) < 7 {
		r.NotSrcIpSetIds = []string{uniSet()}
	}
	if (pn != "" || r.Protocol == nil) && g.R.Intn(100) < 10 && !g.Cfg.NoNamedPorts {
		id := g.newID("n:")
		as := g.uniAddrs(v)
		var ms []string
		for i, n := 0, 1+g.R.Intn(5); i < n; i++ {
			p := pn
			if p == "" {
				p = []string{"tcp", "udp"}[g.R.Intn(2)]
			}
			ms = append(ms, fmt.Sprintf("%s,%s:%d", as[g.R.Intn(len(as))], p, g.uniPorts[g.R.Intn(len(g.uniPorts))]))
		}
		g.sets[id] = ms
		g.ids = append(g.ids, id)
		r.DstNamedPortIpSetIds = []string{id}
	}
	if r.IpVersion == proto.IPVersion_ANY && g.R.Intn(5) == 0 {
		r.IpVersion = proto.IPVersion(v)
	}
	return r
}

// UniversePacket returns a random packet of the small universe SimpleRule draws from.
func (g *Gen) UniversePacket(v uint8) refpolicy.Packet {
	as := g.uniAddrs(v)
	p := refpolicy.Packet{IPVersion: v, Src: as[g.R.Intn(len(as))], Dst: as[g.R.Intn(len(as))]}
	switch k := g.R.Intn(10); {
	case k < 5:
		p.Proto = refpolicy.ProtoTCP
	case k < 8:
		p.Proto = refpolicy.ProtoUDP
	case k < 9:
		p.Proto = refpolicy.ProtoICMP
		if v == 6 {
			p.Proto = refpolicy.ProtoICMPv6
		}
		p.ICMPType = uint8([]int{0, 8, 128, 135}[g.R.Intn(4)])
	default:
		p.Proto = refpolicy.ProtoSCTP
	}
	p.SrcPort = g.uniPorts[g.R.Intn(len(g.uniPorts))]
	p.DstPort = g.uniPorts[g.R.Intn(len(g.uniPorts))]
	if g.R.Intn(6) == 0 {
		p.DstPort += uint16(g.R.Intn(3))
	}
	return normalise(p)
}

func (g *Gen) ruleList(cfg LayoutConfig) []*proto.Rule {
	if g.R.Intn(7) == 0 {
		return nil
	}
	var out []*proto.Rule
	for i, n := 0, 1+g.R.Intn(cfg.MaxRules); i < n; i++ {
		if g.R.Intn(100) < cfg.ComplexRulePct {
			out = append(out, g.Rule(cfg.IPVersion))
		} else {
			out = append(out, g.SimpleRule(cfg.IPVersion))
		}
	}
	return out
}

func (g *Gen) partition(ps []*LPolicy, maxGroup int) [][]*LPolicy {
	var out [][]*LPolicy
	for i := 0; i < len(ps); {
		n := 1
		if g.R.Intn(3) != 0 {
			n = 1 + g.R.Intn(maxGroup)
		}
		if i+n > len(ps) {
			n = len(ps) - i
		}
		out = append(out, ps[i:i+n])
		i += n
	}
	return out
}

// Layout generates tiers (0..MaxTiers, default actions Deny/Pass, 1..MaxPolicies policies of
// all kinds, enforced and staged, sometimes a tier whose policies are all staged), a random
// partition of each direction's policy list into groups, and 0..MaxProfiles profiles.
func (g *Gen) Layout(cfg LayoutConfig) *Layout {
	cfg = cfg.withDefaults()
	l := &Layout{}
	nt := g.R.Intn(cfg.MaxTiers + 1)
	for t := 0; t < nt; t++ {
		tier := &LTier{Name: fmt.Sprintf("%stier%d", cfg.NamePrefix, t), DefaultAction: "Deny"}
		if g.R.Intn(100) < 35 {
			tier.DefaultAction = "Pass"
		}
		var np int
		switch k := g.R.Intn(10); {
		case k < 4:
			np = 1 + g.R.Intn(3)
		case k < 8:
			np = 4 + g.R.Intn(5)
		default:
			np = 9 + g.R.Intn(4)
		}
		if np > cfg.MaxPolicies {
			np = cfg.MaxPolicies
		}
		allStaged := g.R.Intn(10) == 0
		for p := 0; p < np; p++ {
			pol := &LPolicy{Tier: tier.Name, Name: fmt.Sprintf("%s.pol-%d-%s", tier.Name, p, g.newID("")[:6])}
			if allStaged || g.R.Intn(100) < cfg.StagedPct {
				pol.Kind, pol.Staged = StagedKinds[g.R.Intn(len(StagedKinds))], true
			} else {
				pol.Kind = EnforcedKinds[g.R.Intn(len(EnforcedKinds))]
			}
			if !strings.Contains(pol.Kind, "Global") && !strings.Contains(pol.Kind, "Cluster") {
				pol.Namespace = []string{"default", "ns-a", "kube-system"}[g.R.Intn(3)]
			}
			switch k := g.R.Intn(10); {
			case k < 6:
				pol.Ingress, pol.Egress = true, true
			case k < 8:
				pol.Ingress = true
			default:
				pol.Egress = true
			}
			if pol.Ingress {
				pol.Inbound = g.ruleList(cfg)
			}
			if pol.Egress {
				pol.Outbound = g.ruleList(cfg)
			}
			tier.Policies = append(tier.Policies, pol)
		}
		var in, out []*LPolicy
		for _, p := range tier.Policies {
			if p.Ingress {
				in = append(in, p)
			}
			if p.Egress {
				out = append(out, p)
			}
		}
		tier.IngressGroups = g.partition(in, cfg.MaxGroup)
		tier.EgressGroups = g.partition(out, cfg.MaxGroup)
		l.Tiers = append(l.Tiers, tier)
	}
	nprof := 0
	if cfg.MaxProfiles > 0 {
		nprof = g.R.Intn(cfg.MaxProfiles + 1)
	}
	for i := 0; i < nprof; i++ {
		l.Profiles = append(l.Profiles, &LProfile{Name: fmt.Sprintf("%sprof-%d-%s", cfg.NamePrefix, i, g.newID("")[:6]),
			Inbound: g.ruleList(cfg), Outbound: g.ruleList(cfg)})
	}
	return l
}

// Ref returns the layout in the reference evaluator's form.
func (l *Layout) Ref() *refpolicy.EndpointPolicy {
	ep := &refpolicy.EndpointPolicy{}
	for _, t := range l.Tiers {
		rt := &refpolicy.Tier{Name: t.Name, DefaultAction: t.DefaultAction}
		for _, p := range t.Policies {
			rp := &refpolicy.Policy{Name: p.Kind + ":" + p.Namespace + "/" + p.Name, Staged: p.Staged, Inbound: p.Inbound, Outbound: p.Outbound}
			if p.Ingress {
				rt.Ingress = append(rt.Ingress, rp)
			}
			if p.Egress {
				rt.Egress = append(rt.Egress, rp)
			}
		}
		ep.Tiers = append(ep.Tiers, rt)
	}
	for _, p := range l.Profiles {
		ep.Profiles = append(ep.Profiles, &refpolicy.Profile{Name: p.Name, Inbound: p.Inbound, Outbound: p.Outbound})
	}
	return ep
}

// AllRules returns every rule of the layout (for boundary-packet generation).
func (l *Layout) AllRules() []*proto.Rule {
	var out []*proto.Rule
	for _, t := range l.Tiers {
		for _, p := range t.Policies {
			out = append(out, p.Inbound...)
			out = append(out, p.Outbound...)
		}
	}
	for _, p := range l.Profiles {
		out = append(out, p.Inbound...)
		out = append(out, p.Outbound...)
	}
	return out
}

// Summary is a compact, JSON-able description of the layout for witnesses.
func (l *Layout) Summary() any {
	type pol struct {
		Name, Kind      string
		Staged          bool
		Ingress, Egress bool
		In, Out         int
	}
	type tier struct {
		Name, DefaultAction string
		Policies            []pol
		IngressGroups       []int
		EgressGroups        []int
	}
	var ts []tier
	for _, t := range l.Tiers {
		tt := tier{Name: t.Name, DefaultAction: t.DefaultAction}
		for _, p := range t.Policies {
			tt.Policies = append(tt.Policies, pol{p.Name, p.Kind, p.Staged, p.Ingress, p.Egress, len(p.Inbound), len(p.Outbound)})
		}
		for _, gr := range t.IngressGroups {
			tt.IngressGroups = append(tt.IngressGroups, len(gr))
		}
		for _, gr := range t.EgressGroups {
			tt.EgressGroups = append(tt.EgressGroups, len(gr))
		}
		ts = append(ts, tt)
	}
	var ps []string
	for _, p := range l.Profiles {
		ps = append(ps, fmt.Sprintf("%s(in=%d,out=%d)", p.Name, len(p.Inbound), len(p.Outbound)))
	}
	return map[string]any{"tiers": ts, "profiles": ps}
}

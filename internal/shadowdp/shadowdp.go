// Package shadowdp is a shadow dataplane for Felix's calculation graph output.
//
// It folds the messages that Felix passes to EventSequencer.Callback (the felix/proto "ToDataplane"
// payloads plus *calc.DatastoreNotReady) into a State, and it judges every message ONLINE against
// the ordering/reference contract of the calc-graph -> dataplane API (DESIGN.md §C02,
// felix/design/calc-graph.md "Flush order is the dependency contract"):
//
//   - IPSetUpdate: members unique.  IPSetDeltaUpdate: set exists, every added member absent, every
//     removed member present.  IPSetRemove: set exists and no active policy/profile rule names it.
//   - ActivePolicyUpdate / ActiveProfileUpdate: every IP set id in every rule exists.
//   - ActivePolicyRemove / ActiveProfileRemove: object exists, no endpoint references it.
//   - WorkloadEndpointUpdate / HostEndpointUpdate: every listed policy and profile exists.
//   - every *Remove names an existing object.
//   - VTEP/route order per node and per flush (see EndFlush).
//   - proto.InSync only after the harness announced that api.InSync was delivered.
//
// A breach does not stop the fold: the message is still applied (as a real dataplane would try to)
// so that later messages are judged against a sensible state, and the breach is recorded as a
// Violation carrying the index of the offending message.
//
// The package imports only felix/proto, so it is usable from -race builds and from CGO-off builds.
// A Shadow is not goroutine-safe: feed it from one goroutine (the async harness funnels the output
// channel into one reader goroutine).
package shadowdp

import (
	"fmt"
	"reflect"
	"sort"
	"strings"

	googleproto "google.golang.org/protobuf/proto"
	"google.golang.org/protobuf/reflect/protoreflect"

	"github.com/projectcalico/calico/felix/proto"
)

// IPSet is the folded content of one IP set.
type IPSet struct {
	Type    proto.IPSetUpdate_IPSetType
	Members map[string]struct{}
}

// State is the dataplane state described by everything Felix has emitted so far.
type State struct {
	IPSets          map[string]*IPSet
	Policies        map[string]*proto.Policy  // key: PolicyKey(id)
	Profiles        map[string]*proto.Profile // key: profile name
	WEPs            map[string]*proto.WorkloadEndpoint
	HEPs            map[string]*proto.HostEndpoint
	Routes          map[string]*proto.RouteUpdate // key: dst
	VTEPs           map[string]*proto.VXLANTunnelEndpointUpdate
	HostMetadata    map[string]*proto.HostMetadataUpdate
	Pools           map[string]*proto.IPAMPool
	ServiceAccounts map[string]*proto.ServiceAccountUpdate
	Namespaces      map[string]*proto.NamespaceUpdate
	Wireguard       map[string]*proto.WireguardEndpointUpdate
	WireguardV6     map[string]*proto.WireguardEndpointV6Update
	Services        map[string]*proto.ServiceUpdate
	Encap           *proto.Encapsulation
	GlobalBGP       *proto.GlobalBGPConfigUpdate
	InSync          bool
}

func newState() *State {
	return &State{
		IPSets:          map[string]*IPSet{},
		Policies:        map[string]*proto.Policy{},
		Profiles:        map[string]*proto.Profile{},
		WEPs:            map[string]*proto.WorkloadEndpoint{},
		HEPs:            map[string]*proto.HostEndpoint{},
		Routes:          map[string]*proto.RouteUpdate{},
		VTEPs:           map[string]*proto.VXLANTunnelEndpointUpdate{},
		HostMetadata:    map[string]*proto.HostMetadataUpdate{},
		Pools:           map[string]*proto.IPAMPool{},
		ServiceAccounts: map[string]*proto.ServiceAccountUpdate{},
		Namespaces:      map[string]*proto.NamespaceUpdate{},
		Wireguard:       map[string]*proto.WireguardEndpointUpdate{},
		WireguardV6:     map[string]*proto.WireguardEndpointV6Update{},
		Services:        map[string]*proto.ServiceUpdate{},
	}
}

// PolicyKey renders a proto.PolicyID as the map key used by State.Policies.
func PolicyKey(id *proto.PolicyID) string {
	return id.GetKind() + "|" + id.GetNamespace() + "|" + id.GetName()
}

// WEPKey renders a proto.WorkloadEndpointID as the map key used by State.WEPs.
func WEPKey(id *proto.WorkloadEndpointID) string {
	return id.GetOrchestratorId() + "/" + id.GetWorkloadId() + "/" + id.GetEndpointId()
}

// Violation is one breach of the output contract.
type Violation struct {
	Key   string `json:"key"`     // stable identity of the kind of breach
	Index int    `json:"index"`   // index (0-based) of the offending message in the stream
	Msg   string `json:"message"` // human-readable detail
}

func (v Violation) String() string { return fmt.Sprintf("[%d] %s: %s", v.Index, v.Key, v.Msg) }

// Shadow folds a message stream and checks the contract online.
type Shadow struct {
	State *State
	// Violations accumulates every breach seen so far.
	Violations []Violation
	// NumMessages is the number of messages folded so far.
	NumMessages int
	// Counts of the checks that were actually exercised, by name (for measured coverage).
	Checks map[string]int64

	inSyncDelivered bool
	inSyncFlushed   bool // a flush completed after api.InSync was delivered
	// Per-flush bookkeeping for the VTEP/route order rule.
	flushVTEPAdd      map[string]int   // node -> index of VTEP update in this flush
	flushVTEPRemove   map[string]int   // node -> index of VTEP remove in this flush
	flushRouteAdds    map[string][]int // node -> indexes of newly added VXLAN routes to node
	flushRouteRemoves map[string][]int // node -> indexes of removes of VXLAN routes to node
}

// New returns an empty shadow dataplane.
func New() *Shadow {
	s := &Shadow{State: newState(), Checks: map[string]int64{}}
	s.resetFlush()
	return s
}

func (s *Shadow) resetFlush() {
	s.flushVTEPAdd = map[string]int{}
	s.flushVTEPRemove = map[string]int{}
	s.flushRouteAdds = map[string][]int{}
	s.flushRouteRemoves = map[string][]int{}
}

func (s *Shadow) fail(key, format string, args ...any) {
	s.Violations = append(s.Violations, Violation{Key: key, Index: s.NumMessages, Msg: fmt.Sprintf(format, args...)})
}

func (s *Shadow) chk(name string) { s.Checks[name]++ }

// NoteInSyncDelivered tells the shadow that the harness has delivered api.InSync to the graph.
func (s *Shadow) NoteInSyncDelivered() { s.inSyncDelivered = true }

// EndFlush marks the end of one EventSequencer.Flush() (synchronous harness only) and judges the
// per-flush VTEP/route order: if the flush added both the VTEP of node N and a new VXLAN-tunnelled
// route to N, the VTEP came first; if it removed both, the route went first.
func (s *Shadow) EndFlush() {
	for node, vi := range s.flushVTEPAdd {
		for _, ri := range s.flushRouteAdds[node] {
			s.chk("vtep_before_route")
			if ri < vi {
				s.Violations = append(s.Violations, Violation{Key: "route-added-before-vtep", Index: ri,
					Msg: fmt.Sprintf("flush added VXLAN route (msg %d) to node %q before its VTEP (msg %d)", ri, node, vi)})
			}
		}
	}
	for node, vi := range s.flushVTEPRemove {
		for _, ri := range s.flushRouteRemoves[node] {
			s.chk("route_removed_before_vtep")
			if ri > vi {
				s.Violations = append(s.Violations, Violation{Key: "vtep-removed-before-route", Index: vi,
					Msg: fmt.Sprintf("flush removed VTEP of node %q (msg %d) before the VXLAN route to it (msg %d)", node, vi, ri)})
			}
		}
	}
	s.resetFlush()
	if s.inSyncDelivered {
		s.inSyncFlushed = true
	}
}

func isVXLANRouteTo(r *proto.RouteUpdate) (string, bool) {
	if r == nil || r.IpPoolType != proto.IPPoolType_VXLAN || r.DstNodeName == "" {
		return "", false
	}
	if r.Types&proto.RouteType_REMOTE_WORKLOAD == 0 {
		return "", false
	}
	return r.DstNodeName, true
}

func ruleIPSetIDs(r *proto.Rule) []string {
	var ids []string
	ids = append(ids, r.SrcIpSetIds...)
	ids = append(ids, r.DstIpSetIds...)
	ids = append(ids, r.NotSrcIpSetIds...)
	ids = append(ids, r.NotDstIpSetIds...)
	ids = append(ids, r.SrcNamedPortIpSetIds...)
	ids = append(ids, r.DstNamedPortIpSetIds...)
	ids = append(ids, r.NotSrcNamedPortIpSetIds...)
	ids = append(ids, r.NotDstNamedPortIpSetIds...)
	ids = append(ids, r.DstIpPortSetIds...)
	return ids
}

// RulesIPSetIDs returns every IP set id named by any of the rules.
func RulesIPSetIDs(rules ...[]*proto.Rule) []string {
	var ids []string
	for _, rs := range rules {
		for _, r := range rs {
			ids = append(ids, ruleIPSetIDs(r)...)
		}
	}
	return ids
}

func (s *Shadow) checkRulesIPSets(what string, rules ...[]*proto.Rule) {
	for _, id := range RulesIPSetIDs(rules...) {
		s.chk("rule_ipset_exists")
		if _, ok := s.State.IPSets[id]; !ok {
			s.fail("rules-reference-missing-ipset", "%s references IP set %q which the dataplane does not have", what, id)
		}
	}
}

func tierPolicyIDs(tiers ...[]*proto.TierInfo) []*proto.PolicyID {
	var out []*proto.PolicyID
	for _, ts := range tiers {
		for _, t := range ts {
			out = append(out, t.IngressPolicies...)
			out = append(out, t.EgressPolicies...)
		}
	}
	return out
}

func (s *Shadow) checkEndpointRefs(what string, profileIDs []string, tiers ...[]*proto.TierInfo) {
	for _, id := range tierPolicyIDs(tiers...) {
		s.chk("endpoint_policy_exists")
		if _, ok := s.State.Policies[PolicyKey(id)]; !ok {
			s.fail("endpoint-references-missing-policy", "%s lists policy %s which is not active in the dataplane", what, PolicyKey(id))
		}
	}
	for _, p := range profileIDs {
		s.chk("endpoint_profile_exists")
		if _, ok := s.State.Profiles[p]; !ok {
			s.fail("endpoint-references-missing-profile", "%s lists profile %q which is not active in the dataplane", what, p)
		}
	}
}

func clone[T googleproto.Message](m T) T { return googleproto.Clone(m).(T) }

// OnMessage folds one emitted message.  It returns the violations that this message caused (also
// appended to s.Violations).  Unknown message types (ConfigUpdate, *calc.DatastoreNotReady, ...) are
// counted and otherwise ignored.
func (s *Shadow) OnMessage(msg any) []Violation {
	before := len(s.Violations)
	st := s.State
	if msg == nil || (reflect.ValueOf(msg).Kind() == reflect.Pointer && reflect.ValueOf(msg).IsNil()) {
		s.fail("nil-message", "nil message emitted")
		s.NumMessages++
		return s.Violations[before:]
	}
	switch m := msg.(type) {
	case *proto.InSync:
		s.chk("insync_order")
		if !s.inSyncDelivered {
			s.fail("insync-before-datastore", "proto.InSync emitted before api.InSync was delivered to the graph")
		}
		st.InSync = true
	case *proto.IPSetUpdate:
		set := &IPSet{Type: m.Type, Members: map[string]struct{}{}}
		for _, mem := range m.Members {
			s.chk("ipset_member_unique")
			if _, dup := set.Members[mem]; dup {
				s.fail("ipset-update-duplicate-member", "IPSetUpdate %q lists member %q twice", m.Id, mem)
			}
			set.Members[mem] = struct{}{}
		}
		st.IPSets[m.Id] = set
	case *proto.IPSetDeltaUpdate:
		set, ok := st.IPSets[m.Id]
		s.chk("ipset_delta_exists")
		if !ok {
			s.fail("ipset-delta-unknown-set", "IPSetDeltaUpdate for IP set %q which the dataplane does not have", m.Id)
			set = &IPSet{Members: map[string]struct{}{}}
			st.IPSets[m.Id] = set
		}
		// Adds and removes of one message are disjoint by contract; judge both against the state
		// before the message.
		for _, mem := range m.RemovedMembers {
			s.chk("ipset_delta_remove_present")
			if _, present := set.Members[mem]; !present {
				s.fail("ipset-delta-remove-absent", "IPSetDeltaUpdate %q removes member %q which is not in the set", m.Id, mem)
			}
		}
		for _, mem := range m.AddedMembers {
			s.chk("ipset_delta_add_absent")
			if _, present := set.Members[mem]; present {
				s.fail("ipset-delta-add-present", "IPSetDeltaUpdate %q adds member %q which is already in the set", m.Id, mem)
			}
		}
		for _, mem := range m.RemovedMembers {
			delete(set.Members, mem)
		}
		for _, mem := range m.AddedMembers {
			set.Members[mem] = struct{}{}
		}
	case *proto.IPSetRemove:
		s.chk("remove_exists")
		if _, ok := st.IPSets[m.Id]; !ok {
			s.fail("ipset-remove-unknown", "IPSetRemove for IP set %q which the dataplane does not have", m.Id)
		}
		for pk, p := range st.Policies {
			for _, id := range RulesIPSetIDs(p.InboundRules, p.OutboundRules) {
				if id == m.Id {
					s.fail("ipset-remove-while-referenced", "IPSetRemove %q while active policy %s still references it", m.Id, pk)
				}
			}
		}
		for pk, p := range st.Profiles {
			for _, id := range RulesIPSetIDs(p.InboundRules, p.OutboundRules) {
				if id == m.Id {
					s.fail("ipset-remove-while-referenced", "IPSetRemove %q while active profile %q still references it", m.Id, pk)
				}
			}
		}
		s.chk("ipset_remove_unreferenced")
		delete(st.IPSets, m.Id)
	case *proto.ActivePolicyUpdate:
		k := PolicyKey(m.Id)
		s.checkRulesIPSets("ActivePolicyUpdate "+k, m.Policy.GetInboundRules(), m.Policy.GetOutboundRules())
		st.Policies[k] = clone(m.Policy)
	case *proto.ActivePolicyRemove:
		k := PolicyKey(m.Id)
		s.chk("remove_exists")
		if _, ok := st.Policies[k]; !ok {
			s.fail("policy-remove-unknown", "ActivePolicyRemove for policy %s which is not active", k)
		}
		for ek, ep := range st.WEPs {
			for _, id := range tierPolicyIDs(ep.Tiers) {
				if PolicyKey(id) == k {
					s.fail("policy-remove-while-referenced", "ActivePolicyRemove %s while workload endpoint %s still lists it", k, ek)
				}
			}
		}
		for ek, ep := range st.HEPs {
			for _, id := range tierPolicyIDs(ep.Tiers, ep.UntrackedTiers, ep.PreDnatTiers, ep.ForwardTiers) {
				if PolicyKey(id) == k {
					s.fail("policy-remove-while-referenced", "ActivePolicyRemove %s while host endpoint %s still lists it", k, ek)
				}
			}
		}
		s.chk("policy_remove_unreferenced")
		delete(st.Policies, k)
	case *proto.ActiveProfileUpdate:
		k := m.Id.GetName()
		s.checkRulesIPSets("ActiveProfileUpdate "+k, m.Profile.GetInboundRules(), m.Profile.GetOutboundRules())
		st.Profiles[k] = clone(m.Profile)
	case *proto.ActiveProfileRemove:
		k := m.Id.GetName()
		s.chk("remove_exists")
		if _, ok := st.Profiles[k]; !ok {
			s.fail("profile-remove-unknown", "ActiveProfileRemove for profile %q which is not active", k)
		}
		for ek, ep := range st.WEPs {
			for _, p := range ep.ProfileIds {
				if p == k {
					s.fail("profile-remove-while-referenced", "ActiveProfileRemove %q while workload endpoint %s still lists it", k, ek)
				}
			}
		}
		for ek, ep := range st.HEPs {
			for _, p := range ep.ProfileIds {
				if p == k {
					s.fail("profile-remove-while-referenced", "ActiveProfileRemove %q while host endpoint %s still lists it", k, ek)
				}
			}
		}
		s.chk("profile_remove_unreferenced")
		delete(st.Profiles, k)
	case *proto.WorkloadEndpointUpdate:
		k := WEPKey(m.Id)
		s.checkEndpointRefs("WorkloadEndpointUpdate "+k, m.Endpoint.GetProfileIds(), m.Endpoint.GetTiers())
		st.WEPs[k] = clone(m.Endpoint)
	case *proto.WorkloadEndpointRemove:
		k := WEPKey(m.Id)
		s.chk("remove_exists")
		if _, ok := st.WEPs[k]; !ok {
			s.fail("wep-remove-unknown", "WorkloadEndpointRemove for %s which the dataplane does not have", k)
		}
		delete(st.WEPs, k)
	case *proto.HostEndpointUpdate:
		k := m.Id.GetEndpointId()
		ep := m.Endpoint
		s.checkEndpointRefs("HostEndpointUpdate "+k, ep.GetProfileIds(), ep.GetTiers(), ep.GetUntrackedTiers(), ep.GetPreDnatTiers(), ep.GetForwardTiers())
		st.HEPs[k] = clone(ep)
	case *proto.HostEndpointRemove:
		k := m.Id.GetEndpointId()
		s.chk("remove_exists")
		if _, ok := st.HEPs[k]; !ok {
			s.fail("hep-remove-unknown", "HostEndpointRemove for %s which the dataplane does not have", k)
		}
		delete(st.HEPs, k)
	case *proto.RouteUpdate:
		old := st.Routes[m.Dst]
		oldNode, oldVX := isVXLANRouteTo(old)
		if node, ok := isVXLANRouteTo(m); ok && !(oldVX && oldNode == node) {
			s.flushRouteAdds[node] = append(s.flushRouteAdds[node], s.NumMessages)
		}
		st.Routes[m.Dst] = clone(m)
	case *proto.RouteRemove:
		s.chk("remove_exists")
		old, ok := st.Routes[m.Dst]
		if !ok {
			s.fail("route-remove-unknown", "RouteRemove for %s which the dataplane does not have", m.Dst)
		}
		if node, vx := isVXLANRouteTo(old); vx {
			s.flushRouteRemoves[node] = append(s.flushRouteRemoves[node], s.NumMessages)
		}
		delete(st.Routes, m.Dst)
	case *proto.VXLANTunnelEndpointUpdate:
		if _, had := st.VTEPs[m.Node]; !had {
			s.flushVTEPAdd[m.Node] = s.NumMessages
		}
		st.VTEPs[m.Node] = clone(m)
	case *proto.VXLANTunnelEndpointRemove:
		s.chk("remove_exists")
		if _, ok := st.VTEPs[m.Node]; !ok {
			s.fail("vtep-remove-unknown", "VXLANTunnelEndpointRemove for node %q which the dataplane does not have", m.Node)
		}
		s.flushVTEPRemove[m.Node] = s.NumMessages
		delete(st.VTEPs, m.Node)
	case *proto.HostMetadataUpdate:
		st.HostMetadata[m.Hostname] = clone(m)
	case *proto.HostMetadataRemove:
		s.chk("remove_exists")
		if _, ok := st.HostMetadata[m.Hostname]; !ok {
			s.fail("hostmetadata-remove-unknown", "HostMetadataRemove for %q which the dataplane does not have", m.Hostname)
		}
		delete(st.HostMetadata, m.Hostname)
	case *proto.IPAMPoolUpdate:
		st.Pools[m.Id] = clone(m.Pool)
	case *proto.IPAMPoolRemove:
		s.chk("remove_exists")
		if _, ok := st.Pools[m.Id]; !ok {
			s.fail("pool-remove-unknown", "IPAMPoolRemove for %q which the dataplane does not have", m.Id)
		}
		delete(st.Pools, m.Id)
	case *proto.ServiceAccountUpdate:
		st.ServiceAccounts[m.Id.GetNamespace()+"/"+m.Id.GetName()] = clone(m)
	case *proto.ServiceAccountRemove:
		k := m.Id.GetNamespace() + "/" + m.Id.GetName()
		s.chk("remove_exists")
		if _, ok := st.ServiceAccounts[k]; !ok {
			s.fail("serviceaccount-remove-unknown", "ServiceAccountRemove for %q which the dataplane does not have", k)
		}
		delete(st.ServiceAccounts, k)
	case *proto.NamespaceUpdate:
		st.Namespaces[m.Id.GetName()] = clone(m)
	case *proto.NamespaceRemove:
		k := m.Id.GetName()
		s.chk("remove_exists")
		if _, ok := st.Namespaces[k]; !ok {
			s.fail("namespace-remove-unknown", "NamespaceRemove for %q which the dataplane does not have", k)
		}
		delete(st.Namespaces, k)
	case *proto.WireguardEndpointUpdate:
		st.Wireguard[m.Hostname] = clone(m)
	case *proto.WireguardEndpointRemove:
		s.chk("remove_exists")
		if _, ok := st.Wireguard[m.Hostname]; !ok {
			s.fail("wireguard-remove-unknown", "WireguardEndpointRemove for %q which the dataplane does not have", m.Hostname)
		}
		delete(st.Wireguard, m.Hostname)
	case *proto.WireguardEndpointV6Update:
		st.WireguardV6[m.Hostname] = clone(m)
	case *proto.WireguardEndpointV6Remove:
		s.chk("remove_exists")
		if _, ok := st.WireguardV6[m.Hostname]; !ok {
			s.fail("wireguardv6-remove-unknown", "WireguardEndpointV6Remove for %q which the dataplane does not have", m.Hostname)
		}
		delete(st.WireguardV6, m.Hostname)
	case *proto.ServiceUpdate:
		st.Services[m.Namespace+"/"+m.Name] = clone(m)
	case *proto.ServiceRemove:
		k := m.Namespace + "/" + m.Name
		s.chk("remove_exists")
		if _, ok := st.Services[k]; !ok {
			s.fail("service-remove-unknown", "ServiceRemove for %q which the dataplane does not have", k)
		}
		delete(st.Services, k)
	case *proto.Encapsulation:
		st.Encap = clone(m)
	case *proto.GlobalBGPConfigUpdate:
		// An all-empty update is what Felix sends when the BGPConfiguration is deleted: it means
		// "no global BGP config", the same as never having been told one.
		if googleproto.Equal(m, &proto.GlobalBGPConfigUpdate{}) {
			st.GlobalBGP = nil
		} else {
			st.GlobalBGP = clone(m)
		}
	default:
		s.chk("ignored_message")
	}
	s.NumMessages++
	return s.Violations[before:]
}

// Fold folds a whole recorded stream (no flush boundaries) and returns the shadow.
func Fold(msgs []any) *Shadow {
	s := New()
	s.NoteInSyncDelivered()
	for _, m := range msgs {
		s.OnMessage(m)
	}
	return s
}

// ---------------------------------------------------------------------------------------------
// Comparison

func sortedKeys[V any](m map[string]V) []string {
	ks := make([]string, 0, len(m))
	for k := range m {
		ks = append(ks, k)
	}
	sort.Strings(ks)
	return ks
}

// DiffEntry is one difference between two folded states.
type DiffEntry struct {
	Class  string   // "ipset", "policy", "profile", "wep", "hep", "route", "vtep", "hostmetadata", ...
	ID     string   // key of the object inside its class
	Kind   string   // "only-in-a", "only-in-b" or "differs"
	Fields []string // for "differs": names of the top-level fields that differ (sorted)
	// TiersOnlyDefaultAction: for endpoint diffs whose tier lists agree on names, policies and order
	// and differ only in default_action, the names of the tiers whose default_action differs (the
	// field is then reported as "<field>.default_action").
	TiersOnlyDefaultAction []string
	Text                   string // human-readable rendering
}

// Key is a stable identity of the kind of difference: class, kind and the differing field names.
func (d DiffEntry) Key() string {
	k := d.Class + ":" + d.Kind
	if len(d.Fields) > 0 {
		k += ":" + strings.Join(d.Fields, ",")
	}
	return k
}

func (d DiffEntry) String() string { return d.Text }

func differingFields(a, b googleproto.Message) ([]string, []string) {
	var out, tiers []string
	ra, rb := a.ProtoReflect(), b.ProtoReflect()
	fds := ra.Descriptor().Fields()
	for i := 0; i < fds.Len(); i++ {
		fd := fds.Get(i)
		if ra.Has(fd) != rb.Has(fd) || !ra.Get(fd).Equal(rb.Get(fd)) {
			name := string(fd.Name())
			if fd.IsList() && fd.Message() != nil && fd.Message().Name() == "TierInfo" {
				if names, ok := onlyDefaultActionDiffers(ra.Get(fd).List(), rb.Get(fd).List()); ok {
					name += ".default_action"
					tiers = append(tiers, names...)
				}
			}
			out = append(out, name)
		}
	}
	sort.Strings(out)
	sort.Strings(tiers)
	return out, tiers
}

func onlyDefaultActionDiffers(la, lb protoreflect.List) ([]string, bool) {
	if la.Len() != lb.Len() {
		return nil, false
	}
	var names []string
	for i := 0; i < la.Len(); i++ {
		ta := googleproto.Clone(la.Get(i).Message().Interface()).(*proto.TierInfo)
		tb := googleproto.Clone(lb.Get(i).Message().Interface()).(*proto.TierInfo)
		if ta.DefaultAction != tb.DefaultAction {
			names = append(names, ta.Name)
		}
		ta.DefaultAction, tb.DefaultAction = "", ""
		if !googleproto.Equal(ta, tb) {
			return nil, false
		}
	}
	return names, true
}

func diffProtoMap[V googleproto.Message](class string, a, b map[string]V, out *[]DiffEntry) {
	for _, k := range sortedKeys(a) {
		bv, ok := b[k]
		if !ok {
			*out = append(*out, DiffEntry{Class: class, ID: k, Kind: "only-in-a", Text: fmt.Sprintf("%s %q: only in A: %v", class, k, a[k])})
			continue
		}
		if !googleproto.Equal(a[k], bv) {
			fields, tiers := differingFields(a[k], bv)
			*out = append(*out, DiffEntry{Class: class, ID: k, Kind: "differs", Fields: fields, TiersOnlyDefaultAction: tiers,
				Text: fmt.Sprintf("%s %q differs:\n   A: %v\n   B: %v", class, k, a[k], bv)})
		}
	}
	for _, k := range sortedKeys(b) {
		if _, ok := a[k]; !ok {
			*out = append(*out, DiffEntry{Class: class, ID: k, Kind: "only-in-b", Text: fmt.Sprintf("%s %q: only in B: %v", class, k, b[k])})
		}
	}
}

func diffSingle(class string, a, b googleproto.Message, aNil, bNil bool, out *[]DiffEntry) {
	switch {
	case aNil && bNil:
	case aNil:
		*out = append(*out, DiffEntry{Class: class, Kind: "only-in-b", Text: fmt.Sprintf("%s: only in B: %v", class, b)})
	case bNil:
		*out = append(*out, DiffEntry{Class: class, Kind: "only-in-a", Text: fmt.Sprintf("%s: only in A: %v", class, a)})
	case !googleproto.Equal(a, b):
		fields, _ := differingFields(a, b)
		*out = append(*out, DiffEntry{Class: class, Kind: "differs", Fields: fields, Text: fmt.Sprintf("%s: A=%v B=%v", class, a, b)})
	}
}

// DiffEntries compares two folded states field by field (empty = equal).  Policies, profiles and
// endpoints are compared with proto.Equal (rule ids included), IP sets by type and member set,
// everything else by proto.Equal per key.  InSync is not compared.
func DiffEntries(a, b *State) []DiffEntry {
	var out []DiffEntry
	for _, k := range sortedKeys(a.IPSets) {
		bs, ok := b.IPSets[k]
		as := a.IPSets[k]
		if !ok {
			out = append(out, DiffEntry{Class: "ipset", ID: k, Kind: "only-in-a", Text: fmt.Sprintf("ipset %q: only in A (members %v)", k, sortedKeys(as.Members))})
			continue
		}
		if as.Type != bs.Type {
			out = append(out, DiffEntry{Class: "ipset", ID: k, Kind: "differs", Fields: []string{"type"}, Text: fmt.Sprintf("ipset %q: type A=%v B=%v", k, as.Type, bs.Type)})
		}
		var onlyA, onlyB []string
		for m := range as.Members {
			if _, ok := bs.Members[m]; !ok {
				onlyA = append(onlyA, m)
			}
		}
		for m := range bs.Members {
			if _, ok := as.Members[m]; !ok {
				onlyB = append(onlyB, m)
			}
		}
		if len(onlyA)+len(onlyB) > 0 {
			sort.Strings(onlyA)
			sort.Strings(onlyB)
			out = append(out, DiffEntry{Class: "ipset", ID: k, Kind: "differs", Fields: []string{"members"},
				Text: fmt.Sprintf("ipset %q: members only in A %v, only in B %v", k, onlyA, onlyB)})
		}
	}
	for _, k := range sortedKeys(b.IPSets) {
		if _, ok := a.IPSets[k]; !ok {
			out = append(out, DiffEntry{Class: "ipset", ID: k, Kind: "only-in-b", Text: fmt.Sprintf("ipset %q: only in B (members %v)", k, sortedKeys(b.IPSets[k].Members))})
		}
	}
	diffProtoMap("policy", a.Policies, b.Policies, &out)
	diffProtoMap("profile", a.Profiles, b.Profiles, &out)
	diffProtoMap("wep", a.WEPs, b.WEPs, &out)
	diffProtoMap("hep", a.HEPs, b.HEPs, &out)
	diffProtoMap("route", a.Routes, b.Routes, &out)
	diffProtoMap("vtep", a.VTEPs, b.VTEPs, &out)
	diffProtoMap("hostmetadata", a.HostMetadata, b.HostMetadata, &out)
	diffProtoMap("ippool", a.Pools, b.Pools, &out)
	diffProtoMap("serviceaccount", a.ServiceAccounts, b.ServiceAccounts, &out)
	diffProtoMap("namespace", a.Namespaces, b.Namespaces, &out)
	diffProtoMap("wireguard", a.Wireguard, b.Wireguard, &out)
	diffProtoMap("wireguardv6", a.WireguardV6, b.WireguardV6, &out)
	diffProtoMap("service", a.Services, b.Services, &out)
	diffSingle("encapsulation", a.Encap, b.Encap, a.Encap == nil, b.Encap == nil, &out)
	diffSingle("globalbgp", a.GlobalBGP, b.GlobalBGP, a.GlobalBGP == nil, b.GlobalBGP == nil, &out)
	return out
}

// Diff is DiffEntries rendered as text, one line per difference.
func Diff(a, b *State) []string {
	var out []string
	for _, d := range DiffEntries(a, b) {
		out = append(out, d.Text)
	}
	return out
}

// Summary is a compact, deterministic description of a state (for fingerprints and samples).
func (st *State) Summary() string {
	var b strings.Builder
	fmt.Fprintf(&b, "ipsets=%d policies=%v profiles=%v weps=%d heps=%d routes=%d vteps=%d hosts=%d pools=%d",
		len(st.IPSets), sortedKeys(st.Policies), sortedKeys(st.Profiles), len(st.WEPs), len(st.HEPs),
		len(st.Routes), len(st.VTEPs), len(st.HostMetadata), len(st.Pools))
	return b.String()
}

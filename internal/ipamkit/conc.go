package ipamkit

import (
	"fmt"
	"math/rand"
	"runtime"
	"sort"
	"time"

	"verif/internal/casstore"
	"verif/internal/dsched"
)

// Weights gives the relative frequency of each step kind in generated scripts.
type Weights map[string]int

// ConcCase is one generated concurrent scenario: a cluster, the hosts of the logical clients and
// the shape of their scripts.  The same ConcCase + the same seed replays the same execution in
// scheduled mode.
type ConcCase struct {
	Spec        WorldSpec
	ClientHosts []string // host of client i
	NOps        int      // steps per client and phase
	Phases      int      // 1 or 2; between phases stored timestamps are shifted back by Shift
	Shift       time.Duration
	Weights     Weights
	SharedPct   int // % of allocations that use a handle shared between clients
	OtherPct    int // % of affinity-release steps aimed at another host's affinities (default 30)
	// MultiBlockRelease: every client starts by allocating 3+3 addresses under one handle (which
	// spans several /30 blocks) and releasing them all in ONE ReleaseIPs call, the shape that makes
	// ReleaseIPs fan out one goroutine per block over a shared pre-fetched handle.
	MultiBlockRelease bool
	// Epilogue: after the last phase a fresh client on a PRNG-chosen host claims every block of
	// every pool (ClaimAffinity on the pool CIDRs), fault-free.  This makes latent inconsistencies
	// (for example a confirmed affinity whose block is gone) collide with a new owner.
	Epilogue bool
	Tracker  TrackerOpts
	// Oracles applied after each run.
	CheckReturned bool // returned addresses were recorded under the caller's handle by the caller's own write
	CheckLin      bool // per-address porcupine check
	CheckHandles  bool // handle records agree with blocks at quiescent points (untainted handles)
	LinTimeout    time.Duration

	template    *World // the prepared cluster, forked for every run
	templateErr error
}

// RunPlan selects the schedule and the faults of one run of a ConcCase.
type RunPlan struct {
	Seed  int64
	Mode  dsched.Mode
	Depth int
	// FaultPhase/Fault: the fault plan applies to phase FaultPhase (0-based); other phases run clean.
	FaultPhase int
	Fault      FaultPlan
}

// Violation is a judged violation of one run.
type Violation struct {
	Key string
	Msg string
}

// RunOutcome is everything observed and judged in one run.
type RunOutcome struct {
	Plan         RunPlan
	World        *World
	Tracker      *Tracker
	Phases       []*PhaseResult
	Lin          LinResult
	HandlesCmp   int
	Violations   []Violation
	Inconclusive string
	SetupErr     error
	PartialAA    int // AutoAssign calls that returned fewer addresses than requested
	OKOps        int
	ErrOps       map[string]int
}

// clientState is what a script remembers between steps and phases.
type clientState struct {
	held    []heldAddr
	handles []string
	hseq    int
}

type heldAddr struct{ addr, handle string }

func pickWeighted(r *rand.Rand, w Weights) string {
	keys := make([]string, 0, len(w))
	total := 0
	for k, v := range w {
		if v > 0 {
			keys = append(keys, k)
			total += v
		}
	}
	sort.Strings(keys)
	if total == 0 {
		return KAutoAssign
	}
	x := r.Intn(total)
	for _, k := range keys {
		if x < w[k] {
			return k
		}
		x -= w[k]
	}
	return keys[len(keys)-1]
}

func (cc *ConcCase) blocks() []string {
	var out []string
	for _, p := range cc.Spec.Pools {
		out = append(out, BlockCIDRsOf(p)...)
	}
	return out
}

func (cc *ConcCase) hosts() []string {
	var out []string
	for _, n := range cc.Spec.Nodes {
		out = append(out, n.Name)
	}
	return out
}

// script builds the dynamic script of one client.
func (cc *ConcCase) script(w *World, st *clientState) Script {
	blocks := cc.blocks()
	hosts := cc.hosts()
	return func(lc *LClient, r *rand.Rand, exec func(Step) *OpRec) {
		pickHandle := func() string {
			x := r.Intn(100)
			switch {
			case x < cc.SharedPct:
				return fmt.Sprintf("shared-%d", r.Intn(2))
			case x < cc.SharedPct+15 && len(st.handles) > 0:
				return st.handles[r.Intn(len(st.handles))]
			}
			st.hseq++
			h := fmt.Sprintf("c%d-h%d", lc.ID, st.hseq)
			st.handles = append(st.handles, h)
			return h
		}
		otherPct := cc.OtherPct
		if otherPct == 0 {
			otherPct = 30
		}
		otherHost := func() string {
			if r.Intn(100) >= otherPct {
				return "" // own
			}
			return hosts[r.Intn(len(hosts))]
		}
		if cc.MultiBlockRelease && st.hseq == 0 {
			h := fmt.Sprintf("c%d-multi", lc.ID)
			st.hseq++
			st.handles = append(st.handles, h)
			var rel []RelOpt
			for k := 0; k < 2; k++ {
				rec := exec(Step{Kind: KAutoAssign, Handle: h, Num4: 3})
				if rec.Crashed {
					return
				}
				for _, a := range rec.IPs {
					rel = append(rel, RelOpt{Addr: a, Handle: h})
				}
			}
			if len(rel) > 0 {
				if exec(Step{Kind: KReleaseIPs, Rel: rel}).Crashed {
					return
				}
			}
		}
		for i := 0; i < cc.NOps; i++ {
			var s Step
			switch kind := pickWeighted(r, cc.Weights); kind {
			case KAutoAssign:
				s = Step{Kind: KAutoAssign, Handle: pickHandle()}
				switch r.Intn(6) {
				case 0:
					s.Num6 = 1
				case 1:
					s.Num4, s.Num6 = 1, 1
				case 2:
					s.Num4 = 2
				case 3:
					s.Num4 = 3
				default:
					s.Num4 = 1
				}
				if r.Intn(5) == 0 {
					s.MaxBlocks = 1 + r.Intn(2)
				}
			case KAssignIP:
				s = Step{Kind: KAssignIP, Handle: pickHandle(), IP: w.Universe[r.Intn(len(w.Universe))]}
			case KReleaseIPs:
				n := 1 + r.Intn(3)
				if len(st.held) > 1 && r.Intn(4) == 0 {
					// everything this client holds under one handle (often spans blocks)
					h := st.held[r.Intn(len(st.held))].handle
					var keep []heldAddr
					for _, ha := range st.held {
						if ha.handle == h && len(s.Rel) < 5 {
							s.Rel = append(s.Rel, RelOpt{Addr: ha.addr, Handle: []string{"", h}[r.Intn(2)]})
						} else {
							keep = append(keep, ha)
						}
					}
					st.held = keep
					n = 0
				}
				for j := 0; j < n; j++ {
					var ro RelOpt
					if len(st.held) > 0 && r.Intn(100) < 70 {
						k := r.Intn(len(st.held))
						ro = RelOpt{Addr: st.held[k].addr}
						switch x := r.Intn(10); {
						case x < 4:
							ro.Handle = st.held[k].handle
						case x < 5:
							ro.Handle = "wrong-handle"
						}
						st.held = append(st.held[:k], st.held[k+1:]...)
					} else {
						ro = RelOpt{Addr: w.Universe[r.Intn(len(w.Universe))]}
					}
					dup := false
					for _, prev := range s.Rel {
						// the block code keeps one option per address (last wins): never name an address twice
						dup = dup || prev.Addr == ro.Addr
					}
					if dup {
						continue
					}
					s.Rel = append(s.Rel, ro)
				}
				s.Kind = KReleaseIPs
			case KReleaseByHandle:
				s = Step{Kind: KReleaseByHandle}
				switch x := r.Intn(10); {
				case x < 6 && len(st.handles) > 0:
					s.Handle = st.handles[r.Intn(len(st.handles))]
				case x < 9:
					s.Handle = fmt.Sprintf("shared-%d", r.Intn(2))
				default:
					s.Handle = "never-used"
				}
			case KIPsByHandle:
				s = Step{Kind: KIPsByHandle, Handle: fmt.Sprintf("shared-%d", r.Intn(2))}
				if len(st.handles) > 0 && r.Intn(2) == 0 {
					s.Handle = st.handles[r.Intn(len(st.handles))]
				}
			case KClaimAffinity:
				s = Step{Kind: KClaimAffinity, CIDR: blocks[r.Intn(len(blocks))]}
				if r.Intn(6) == 0 {
					s.CIDR = cc.Spec.Pools[r.Intn(len(cc.Spec.Pools))].CIDR
				}
			case KReleaseAffinity:
				s = Step{Kind: KReleaseAffinity, CIDR: blocks[r.Intn(len(blocks))], Host: otherHost(), MustBeEmpty: r.Intn(3) != 0}
			case KReleaseHostAffinities:
				s = Step{Kind: KReleaseHostAffinities, Host: otherHost(), MustBeEmpty: r.Intn(3) != 0}
			case KReleasePoolAffinities:
				s = Step{Kind: KReleasePoolAffinities, CIDR: cc.Spec.Pools[r.Intn(len(cc.Spec.Pools))].CIDR}
			case KRemoveIPAMHost:
				s = Step{Kind: KRemoveIPAMHost, Host: otherHost()}
			default:
				continue
			}
			rec := exec(s)
			if rec.Crashed {
				return
			}
			if s.Kind == KAutoAssign || s.Kind == KAssignIP {
				for _, a := range rec.IPs {
					st.held = append(st.held, heldAddr{a, s.Handle})
				}
			}
		}
	}
}

// Run executes the case once under plan and judges it.
func (cc *ConcCase) Run(plan RunPlan) *RunOutcome {
	out := &RunOutcome{Plan: plan, ErrOps: map[string]int{}}
	if cc.template == nil && cc.templateErr == nil {
		cc.template, cc.templateErr = NewWorld(cc.Spec)
	}
	if cc.templateErr != nil {
		out.SetupErr = cc.templateErr
		return out
	}
	w := cc.template.Fork()
	defer w.Store.Shutdown()
	out.World = w
	out.Tracker = NewTracker(w, cc.Tracker)
	for _, h := range cc.ClientHosts {
		w.AddClient(h)
	}
	if plan.Mode == dsched.Free {
		prev := runtime.GOMAXPROCS(4)
		defer runtime.GOMAXPROCS(prev)
	}
	R := rand.New(rand.NewSource(plan.Seed))
	states := make([]*clientState, len(w.Clients))
	for i := range states {
		states[i] = &clientState{}
	}
	tainted := map[string]bool{}
	phases := cc.Phases
	if phases < 1 {
		phases = 1
	}
	for ph := 0; ph < phases; ph++ {
		var live []*LClient
		var scripts []Script
		for i, lc := range w.Clients {
			if lc.BC.Dead() {
				continue
			}
			live = append(live, lc)
			scripts = append(scripts, cc.script(w, states[i]))
		}
		if len(live) == 0 {
			break
		}
		po := PhaseOpts{Mode: plan.Mode, Rand: R, Depth: plan.Depth, Steps: 40 * cc.NOps * len(live), Watchdog: 40 * time.Second}
		if ph == plan.FaultPhase {
			po.Faults = plan.Fault
		}
		pr := w.RunPhase(po, live, scripts)
		out.Phases = append(out.Phases, pr)
		for h := range pr.Tainted {
			tainted[h] = true
		}
		if pr.Stuck {
			out.Inconclusive = "scheduler-watchdog"
			return out
		}
		for _, p := range pr.Panics {
			out.Violations = append(out.Violations, Violation{Key: "panic:" + panicSite(p.Stack), Msg: fmt.Sprintf("panic in the code under test (task %s): %v\n%s", p.Task, p.Value, trim(p.Stack, 3000))})
		}
		// Quiescent point.
		if cc.CheckHandles {
			mm, n := w.HandleAgreement(tainted)
			out.HandlesCmp += n
			for _, m := range mm {
				// Sub-classify by a recognisable cause so that a listed finding does not hide others.
				key, why := classifyHandleMismatch(w.Ops(), m.Handle)
				out.Violations = append(out.Violations, Violation{Key: key,
					Msg: fmt.Sprintf("at the quiescent point after phase %d handle %q records %v but the blocks hold %v (no faulted operation ever touched it)%s", ph, m.Handle, m.Record, m.Blocks, why)})
			}
		}
		if ph+1 < phases && cc.Shift > 0 {
			w.Store.ShiftTimestamps(cc.Shift)
		}
	}
	if cc.Epilogue && out.Inconclusive == "" {
		lc := w.AddClient(cc.hosts()[R.Intn(len(cc.hosts()))])
		pr := w.RunPhase(PhaseOpts{Mode: plan.Mode, Rand: R, Depth: plan.Depth, Steps: 100, Watchdog: 40 * time.Second}, []*LClient{lc},
			[]Script{func(lc *LClient, r *rand.Rand, exec func(Step) *OpRec) {
				for _, p := range cc.Spec.Pools {
					if exec(Step{Kind: KClaimAffinity, CIDR: p.CIDR}).Crashed {
						return
					}
				}
			}})
		out.Phases = append(out.Phases, pr)
		if pr.Stuck {
			out.Inconclusive = "scheduler-watchdog"
			return out
		}
	}
	ops := w.Ops()
	for _, op := range ops {
		if op.err == nil {
			out.OKOps++
		} else {
			out.ErrOps[op.ErrKind]++
		}
		if op.Step.Kind == KAutoAssign && len(op.IPs) < op.Step.Num4+op.Step.Num6 {
			out.PartialAA++
		}
	}
	out.Tracker.mu.Lock()
	for _, f := range out.Tracker.Findings {
		out.Violations = append(out.Violations, Violation{Key: f.Key, Msg: f.Msg})
	}
	out.Tracker.mu.Unlock()
	if cc.CheckReturned {
		for _, op := range ops {
			if op.Step.Kind != KAutoAssign && op.Step.Kind != KAssignIP {
				continue
			}
			for _, a := range op.IPs {
				h, ok := op.Acquired[a]
				if !ok || h != sanitizeHandle(op.Step.Handle) {
					got := "never written by this operation"
					if ok {
						got = fmt.Sprintf("written under handle %q", h)
					}
					out.Violations = append(out.Violations, Violation{Key: "returned-address-not-recorded",
						Msg: fmt.Sprintf("op#%d %s by client %d returned %s for handle %q but the address was %s", op.ID, op.Step.Kind, op.Client, a, op.Step.Handle, got)})
				}
			}
		}
	}
	if cc.CheckLin {
		to := cc.LinTimeout
		if to == 0 {
			to = 20 * time.Second
		}
		hist := BuildHistories(w.Universe, ops, LinOpts{StrictReleaseBy: true, Tainted: tainted})
		out.Lin = CheckHistories(hist, to)
		for _, a := range out.Lin.Illegal {
			out.Violations = append(out.Violations, Violation{Key: "address-history-not-linearizable",
				Msg: fmt.Sprintf("the client-visible history of %s admits no order in which every acquire found it free and every release found it owned: %v", a, out.Lin.Detail[a])})
		}
		if out.Lin.Unknown > 0 && out.Inconclusive == "" && len(out.Violations) == 0 {
			out.Inconclusive = "porcupine-timeout"
		}
	}
	return out
}

// classifyHandleMismatch looks for the first un-faulted operation whose own committed writes
// changed the handle record by a different amount than the allocations of that handle it
// committed or freed, and names the recognised patterns.
func classifyHandleMismatch(ops []*OpRec, h string) (key, why string) {
	key = "handle-record-disagrees-with-blocks"
	for _, op := range ops {
		if op.Open() || op.ID < 0 {
			continue
		}
		acq, freed := 0, 0
		for _, x := range op.Acquired {
			if x == h {
				acq++
			}
		}
		for _, x := range op.Freed {
			if x == h {
				freed++
			}
		}
		delta := op.HandleDelta[h]
		if delta == acq-freed {
			continue
		}
		why = fmt.Sprintf("; op#%d %s by client %d changed the handle record by %+d while its writes allocated %d and freed %d address(es) of that handle (conflicts seen: %d)",
			op.ID, op.Step.Kind, op.Client, delta, acq, freed, op.Conflicts)
		switch {
		case op.Step.Kind == KAssignIP && delta > acq-freed && op.Conflicts > 0:
			key = "handle-record-overcounts-after-assignip-cas-retry"
		case op.Step.Kind == KAutoAssign && delta > acq-freed:
			key = "handle-record-overcounts-after-partial-block-autoassign"
			why += fmt.Sprintf(" (asked for %d v4 + %d v6, got %v)", op.Step.Num4, op.Step.Num6, op.IPs)
		case op.Step.Kind == KReleaseIPs && len(op.Step.Rel) > 2 && freed > 0 && delta > acq-freed: // >2 addresses => pre-fetched handles
			key = "handle-record-not-decremented-by-release-with-prefetched-handles"
		}
		return key, why
	}
	return key, ""
}

func trim(s string, n int) string {
	if len(s) > n {
		return s[:n] + "..."
	}
	return s
}

func panicSite(st string) string {
	lines := splitLines(st)
	seen := false
	for _, l := range lines {
		if len(l) >= 6 && l[:6] == "panic(" {
			seen = true
			continue
		}
		if !seen || l == "" || l[0] == '\t' {
			continue
		}
		if len(l) > 8 && (l[:8] == "runtime." || l[:8] == "runtime/") {
			continue
		}
		for i := len(l) - 1; i > 0; i-- {
			if l[i] == '(' {
				return l[:i]
			}
		}
		return l
	}
	return "unknown"
}

func splitLines(s string) []string {
	var out []string
	start := 0
	for i := 0; i < len(s); i++ {
		if s[i] == '\n' {
			out = append(out, s[start:i])
			start = i + 1
		}
	}
	return append(out, s[start:])
}

// Witness returns a JSON-able description of the run for the replay file.
func (o *RunOutcome) Witness(cc *ConcCase) map[string]any {
	wit := map[string]any{
		"plan":         fmt.Sprintf("seed=%d mode=%s depth=%d faultPhase=%d fault=%+v", o.Plan.Seed, o.Plan.Mode, o.Plan.Depth, o.Plan.FaultPhase, o.Plan.Fault),
		"client_hosts": cc.ClientHosts,
		"config":       cc.Spec.Config,
		"pools":        cc.Spec.Pools,
		"nodes":        cc.Spec.Nodes,
	}
	if o.World != nil {
		ops := o.World.Ops()
		if len(ops) > 80 {
			ops = ops[:80]
		}
		wit["ops"] = ops
		wit["final_ipam_state"] = o.World.Store.Dump("/calico/ipam/")
	}
	if o.Tracker != nil {
		o.Tracker.mu.Lock()
		ws := o.Tracker.Writes
		if len(ws) > 400 {
			ws = ws[:400]
		}
		wit["writes"] = append([]WriteRec(nil), ws...)
		ev := o.Tracker.Events
		if len(ev) > 300 {
			ev = ev[:300]
		}
		wit["ownership_events"] = append([]OwnEvent(nil), ev...)
		o.Tracker.mu.Unlock()
	}
	var phases []map[string]any
	for _, p := range o.Phases {
		d := p.Decisions
		if len(d) > 3000 {
			d = d[:3000]
		}
		phases = append(phases, map[string]any{"decisions": d, "faults": p.FaultAt, "write_attempts": p.WriteAttempts, "conflicts": p.Conflicts})
	}
	wit["phases"] = phases
	return wit
}

// FaultKindsFor lists the enumerated fault kinds that apply to a write of the given kind.
func FaultKindsFor(k casstore.OpKind) []casstore.Fault {
	switch k {
	case casstore.OpUpdate, casstore.OpDelete:
		return []casstore.Fault{casstore.FaultAbortBefore, casstore.FaultLostReply, casstore.FaultSpuriousConflict, casstore.FaultCrashAfter}
	default:
		return []casstore.Fault{casstore.FaultAbortBefore, casstore.FaultLostReply, casstore.FaultCrashAfter}
	}
}

package ipamkit

import (
	"context"
	"errors"
	"fmt"
	"sort"
	"strings"
	"sync"

	apiv3 "github.com/projectcalico/api/pkg/apis/projectcalico/v3"
	corev1 "k8s.io/api/core/v1"
	metav1 "k8s.io/apimachinery/pkg/apis/meta/v1"

	"github.com/projectcalico/calico/libcalico-go/lib/backend/model"
	cerrors "github.com/projectcalico/calico/libcalico-go/lib/errors"
	"github.com/projectcalico/calico/libcalico-go/lib/ipam"
	cnet "github.com/projectcalico/calico/libcalico-go/lib/net"

	"verif/internal/casstore"
)

// Step kinds.
const (
	KAutoAssign            = "AutoAssign"
	KAssignIP              = "AssignIP"
	KReleaseIPs            = "ReleaseIPs"
	KReleaseByHandle       = "ReleaseByHandle"
	KIPsByHandle           = "IPsByHandle"
	KClaimAffinity         = "ClaimAffinity"
	KReleaseAffinity       = "ReleaseAffinity"
	KReleaseHostAffinities = "ReleaseHostAffinities"
	KReleasePoolAffinities = "ReleasePoolAffinities"
	KRemoveIPAMHost        = "RemoveIPAMHost"
	KEnsureBlock           = "EnsureBlock"
)

// RelOpt is one ReleaseOptions of a ReleaseIPs step.
type RelOpt struct {
	Addr   string  `json:"addr"`
	Handle string  `json:"handle,omitempty"`
	Seq    *uint64 `json:"seq,omitempty"`
}

// Step is one logical IPAM call.
type Step struct {
	Kind        string            `json:"kind"`
	Handle      string            `json:"handle,omitempty"`
	Num4        int               `json:"num4,omitempty"`
	Num6        int               `json:"num6,omitempty"`
	IP          string            `json:"ip,omitempty"`
	Rel         []RelOpt          `json:"rel,omitempty"`
	CIDR        string            `json:"cidr,omitempty"`
	Host        string            `json:"host,omitempty"` // target host of affinity ops / hostname of assignments (default: the client's)
	MustBeEmpty bool              `json:"mustBeEmpty,omitempty"`
	MaxBlocks   int               `json:"maxBlocks,omitempty"`
	Pools4      []string          `json:"pools4,omitempty"`
	Pools6      []string          `json:"pools6,omitempty"`
	Use         string            `json:"use,omitempty"` // Workload (default) | Tunnel | LoadBalancer
	NSLabels    map[string]string `json:"nsLabels,omitempty"`
	NoNamespace bool              `json:"noNamespace,omitempty"`
	Attrs       map[string]string `json:"attrs,omitempty"`
	// Handles: for composite operations recorded with World.Record (e.g. a CNI DEL), every handle
	// whose addresses the operation is entitled to release.
	Handles []string `json:"handles,omitempty"`
	Note    string   `json:"note,omitempty"`
}

// OpRec is the record of one executed logical operation (client boundary).
type OpRec struct {
	ID     int    `json:"id"`
	Client int    `json:"client"` // LClient.ID
	Host   string `json:"host"`   // host on whose behalf the op allocates (Step.Host or the client's)
	Step   Step   `json:"step"`
	Call   int64  `json:"call"`
	Return int64  `json:"return"`

	// Results.
	IPs         []string `json:"ips,omitempty"`         // addresses returned by AutoAssign / IPsByHandle, or the AssignIP address on success
	Masks       []string `json:"masks,omitempty"`       // AutoAssign: the returned CIDRs (address/mask)
	Unallocated []string `json:"unallocated,omitempty"` // ReleaseIPs: addresses reported "not allocated"
	ReleasedOK  []string `json:"releasedOK,omitempty"`  // ReleaseIPs: addresses of the options returned as processed without error
	Claimed     []string `json:"claimed,omitempty"`
	Failed      []string `json:"failed,omitempty"`
	Err         string   `json:"err,omitempty"`
	ErrKind     string   `json:"errKind,omitempty"`
	Msgs        []string `json:"msgs,omitempty"`

	// Faulted: an injected fault other than a spurious conflict hit one of this operation's
	// datastore calls; Crashed: the client died during it.  Such an operation "stays open".
	Faulted bool `json:"faulted,omitempty"`
	// HardFaults: how many such faults hit this operation.
	HardFaults int  `json:"hardFaults,omitempty"`
	Crashed    bool `json:"crashed,omitempty"`
	// MustBeEmpty: every affinity release this operation performs requires an empty block.
	MustBeEmpty bool `json:"-"`
	// Conflicts / datastore calls seen by this op.
	Conflicts int `json:"conflicts,omitempty"`
	DSOps     int `json:"dsops"`
	Writes    int `json:"writes"`

	// Observed in committed writes of this op (filled by the Tracker under the store lock).
	Acquired map[string]string `json:"acquired,omitempty"` // addr -> handle
	AcqSeq   map[string]uint64 `json:"-"`
	Freed    map[string]string `json:"freed,omitempty"` // addr -> handle it was taken from
	Handles  map[string]bool   `json:"-"`               // handle records written
	// HandleDelta: net change this operation made to the total count of each handle record.
	HandleDelta map[string]int `json:"handleDelta,omitempty"`

	err error
	mu  sync.Mutex
}

// noteDS records one completed datastore call of this operation (called from casstore's PostOp,
// possibly from several goroutines of the same operation).
func (o *OpRec) noteDS(conflict, hardFault bool) {
	o.mu.Lock()
	o.DSOps++
	if conflict {
		o.Conflicts++
	}
	if hardFault {
		o.Faulted = true
		o.HardFaults++
	}
	o.mu.Unlock()
}

func (o *OpRec) noteAcquired(a, h string, seq uint64) {
	if o.Acquired == nil {
		o.Acquired = map[string]string{}
		o.AcqSeq = map[string]uint64{}
	}
	o.Acquired[a] = h
	o.AcqSeq[a] = seq
}

func (o *OpRec) noteFreed(a, h string) {
	if o.Freed == nil {
		o.Freed = map[string]string{}
	}
	o.Freed[a] = h
}

func (o *OpRec) touchHandle(h string, delta int) {
	if o.Handles == nil {
		o.Handles = map[string]bool{}
		o.HandleDelta = map[string]int{}
	}
	o.Handles[h] = true
	o.HandleDelta[h] += delta
}

// mayRelease reports whether the operation asked for the release of address a (held by handle h).
func (o *OpRec) mayRelease(a, h string) bool {
	switch o.Step.Kind {
	case KReleaseIPs:
		for _, r := range o.Step.Rel {
			if canonIP(r.Addr) == a {
				return true
			}
		}
	case KReleaseByHandle:
		return sanitizeHandle(o.Step.Handle) == h
	}
	for _, x := range o.Step.Handles {
		if sanitizeHandle(x) == h {
			return true
		}
	}
	if _, own := o.Acquired[a]; own && len(o.Step.Handles) > 0 {
		return true // a composite operation rolling back what it allocated itself
	}
	return false
}

// Error returns the error the call returned (nil on success).
func (o *OpRec) Error() error { return o.err }

// Open reports whether the operation must be treated as still open (its effect may or may not
// have happened): it was hit by an injected fault or its client crashed.
func (o *OpRec) Open() bool { return o.Faulted || o.Crashed }

func canonIP(s string) string {
	ip := cnet.ParseIP(s)
	if ip == nil {
		return s
	}
	return ip.String()
}

func classify(err error) string {
	if err == nil {
		return ""
	}
	var bh cerrors.ErrorBadHandle
	var bs cerrors.ErrorBadSequenceNumber
	switch {
	case casstore.IsInjected(err):
		return "injected"
	case errors.As(err, &bh):
		return "bad-handle"
	case errors.As(err, &bs):
		return "bad-seq"
	case errors.Is(err, ipam.ErrBlockLimit):
		return "block-limit"
	case errors.Is(err, ipam.ErrNoQualifiedPool):
		return "no-qualified-pool"
	}
	var ae cerrors.ErrorResourceAlreadyExists
	var uc cerrors.ErrorResourceUpdateConflict
	var ne cerrors.ErrorResourceDoesNotExist
	switch {
	case errors.As(err, &ae):
		return "already-exists"
	case errors.As(err, &uc):
		return "conflict"
	case errors.As(err, &ne):
		return "does-not-exist"
	case strings.Contains(err.Error(), "Max retries hit"), strings.Contains(err.Error(), "Hit max retries"):
		return "max-retries"
	}
	return "other"
}

func useOf(s string) apiv3.IPPoolAllowedUse {
	switch s {
	case "Tunnel":
		return apiv3.IPPoolAllowedUseTunnel
	case "LoadBalancer":
		return apiv3.IPPoolAllowedUseLoadBalancer
	case "none":
		return ""
	}
	return apiv3.IPPoolAllowedUseWorkload
}

func nets(cidrs []string) []cnet.IPNet {
	var out []cnet.IPNet
	for _, c := range cidrs {
		_, n, err := cnet.ParseCIDR(c)
		if err == nil {
			out = append(out, *n)
		}
	}
	return out
}

// Exec runs one step on the real IPAM client of lc and records it.  It never panics on errors of
// the code under test; a Go panic inside the code under test propagates to the caller (the task
// wrapper records it).
func (w *World) Exec(lc *LClient, st Step) *OpRec {
	ctx := context.Background()
	rec := &OpRec{Client: lc.ID, Host: lc.Host, Step: st}
	if st.Host != "" {
		rec.Host = st.Host
	}
	switch st.Kind {
	case KAutoAssign, KAssignIP, KReleaseIPs, KReleaseByHandle, KEnsureBlock:
		// every affinity release inside these paths passes RequireEmpty
		rec.MustBeEmpty = true
	case KReleaseAffinity, KReleaseHostAffinities:
		rec.MustBeEmpty = st.MustBeEmpty
	}
	w.mu.Lock()
	rec.ID = len(w.ops)
	w.ops = append(w.ops, rec)
	w.mu.Unlock()

	lc.BC.Tag = rec
	rec.Call = w.Tick()
	var err error
	switch st.Kind {
	case KAutoAssign:
		args := ipam.AutoAssignArgs{Num4: st.Num4, Num6: st.Num6, Hostname: rec.Host, Attrs: st.Attrs,
			MaxBlocksPerHost: st.MaxBlocks, IntendedUse: useOf(st.Use), IPv4Pools: nets(st.Pools4), IPv6Pools: nets(st.Pools6)}
		if st.Handle != "" {
			h := st.Handle
			args.HandleID = &h
		}
		if !st.NoNamespace {
			args.Namespace = &corev1.Namespace{ObjectMeta: metav1.ObjectMeta{Name: "ns", Labels: st.NSLabels}}
		}
		var v4, v6 *ipam.IPAMAssignments
		v4, v6, err = lc.IPAM.AutoAssign(ctx, args)
		for _, ia := range []*ipam.IPAMAssignments{v4, v6} {
			if ia == nil {
				continue
			}
			for _, n := range ia.IPs {
				rec.IPs = append(rec.IPs, n.IP.String())
				rec.Masks = append(rec.Masks, n.String())
			}
			rec.Msgs = append(rec.Msgs, ia.Msgs...)
		}
	case KAssignIP:
		ip := cnet.ParseIP(st.IP)
		args := ipam.AssignIPArgs{IP: *ip, Hostname: rec.Host, Attrs: st.Attrs}
		if st.Use != "" {
			args.IntendedUse = useOf(st.Use)
		}
		if st.Handle != "" {
			h := st.Handle
			args.HandleID = &h
		}
		err = lc.IPAM.AssignIP(ctx, args)
		if err == nil {
			rec.IPs = []string{ip.String()}
		}
	case KReleaseIPs:
		var opts []ipam.ReleaseOptions
		for _, r := range st.Rel {
			opts = append(opts, ipam.ReleaseOptions{Address: r.Addr, Handle: r.Handle, SequenceNumber: r.Seq})
		}
		var un []cnet.IP
		var done []ipam.ReleaseOptions
		un, done, err = lc.IPAM.ReleaseIPs(ctx, opts...)
		for _, ip := range un {
			rec.Unallocated = append(rec.Unallocated, ip.String())
		}
		for _, d := range done {
			rec.ReleasedOK = append(rec.ReleasedOK, canonIP(d.Address))
		}
		sort.Strings(rec.Unallocated)
		sort.Strings(rec.ReleasedOK)
	case KReleaseByHandle:
		err = lc.IPAM.ReleaseByHandle(ctx, st.Handle)
	case KIPsByHandle:
		var ips []cnet.IP
		ips, err = lc.IPAM.IPsByHandle(ctx, st.Handle)
		for _, ip := range ips {
			rec.IPs = append(rec.IPs, ip.String())
		}
	case KClaimAffinity:
		_, n, perr := cnet.ParseCIDR(st.CIDR)
		if perr != nil {
			err = perr
			break
		}
		var cl, fl []cnet.IPNet
		cl, fl, err = lc.IPAM.ClaimAffinity(ctx, *n, ipam.AffinityConfig{AffinityType: ipam.AffinityTypeHost, Host: rec.Host})
		for _, c := range cl {
			rec.Claimed = append(rec.Claimed, c.String())
		}
		for _, c := range fl {
			rec.Failed = append(rec.Failed, c.String())
		}
	case KReleaseAffinity:
		_, n, perr := cnet.ParseCIDR(st.CIDR)
		if perr != nil {
			err = perr
			break
		}
		err = lc.IPAM.ReleaseAffinity(ctx, *n, rec.Host, st.MustBeEmpty)
	case KReleaseHostAffinities:
		err = lc.IPAM.ReleaseHostAffinities(ctx, ipam.AffinityConfig{AffinityType: ipam.AffinityTypeHost, Host: rec.Host}, st.MustBeEmpty)
	case KReleasePoolAffinities:
		_, n, perr := cnet.ParseCIDR(st.CIDR)
		if perr != nil {
			err = perr
			break
		}
		err = lc.IPAM.ReleasePoolAffinities(ctx, *n)
	case KRemoveIPAMHost:
		err = lc.IPAM.RemoveIPAMHost(ctx, ipam.AffinityConfig{AffinityType: ipam.AffinityTypeHost, Host: rec.Host})
	case KEnsureBlock:
		// not used with host-reserved attributes; EnsureBlock without them is a no-op, so skip
		err = fmt.Errorf("EnsureBlock not driven")
	default:
		err = fmt.Errorf("unknown step kind %q", st.Kind)
	}
	rec.Return = w.Tick()
	lc.BC.Tag = nil
	rec.err = err
	if err != nil {
		rec.Err = err.Error()
		if len(rec.Err) > 300 {
			rec.Err = rec.Err[:300]
		}
		rec.ErrKind = classify(err)
	}
	if lc.BC.Dead() {
		rec.Crashed = true
	}
	return rec
}

// Record runs fn as one logical operation of the given casstore client (used for composite calls
// such as the CNI plugin's ADD/DEL, which create their own IPAM client): every datastore call and
// committed write made through bc while fn runs is attributed to the returned record.
func (w *World) Record(bc *casstore.Client, clientID int, host string, st Step, fn func() error) *OpRec {
	rec := &OpRec{Client: clientID, Host: host, Step: st}
	w.mu.Lock()
	rec.ID = len(w.ops)
	w.ops = append(w.ops, rec)
	w.mu.Unlock()
	bc.Tag = rec
	rec.Call = w.Tick()
	err := fn()
	rec.Return = w.Tick()
	bc.Tag = nil
	rec.err = err
	if err != nil {
		rec.Err = err.Error()
		if len(rec.Err) > 300 {
			rec.Err = rec.Err[:300]
		}
		rec.ErrKind = classify(err)
	}
	if bc.Dead() {
		rec.Crashed = true
	}
	return rec
}

// NoteDS lets a custom casstore PostOp hook feed the per-operation counters (conflicts seen,
// hard faults) of a record created by Record.
func (o *OpRec) NoteDS(conflict, hardFault bool) { o.noteDS(conflict, hardFault) }

// Ops returns the recorded operations in start order.
func (w *World) Ops() []*OpRec {
	w.mu.Lock()
	defer w.mu.Unlock()
	return append([]*OpRec(nil), w.ops...)
}

// BlockOf returns the stored block containing addr, if any (fresh copy).
func (w *World) BlockOf(addr string) *model.AllocationBlock {
	ip := cnet.ParseIP(addr)
	if ip == nil {
		return nil
	}
	var out *model.AllocationBlock
	w.Store.View(func(v casstore.View) {
		for _, kv := range v.Blocks() {
			b := kv.Value.(*model.AllocationBlock)
			if b.CIDR.Contains(ip.IP) {
				out = b
			}
		}
	})
	return out
}

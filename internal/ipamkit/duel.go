package ipamkit

import (
	"fmt"
	"math/rand"
	"time"

	"verif/internal/casstore"
	"verif/internal/dsched"
)

// DuelStep is one logical call of a duel scenario, made by a (fresh) client on Host.
type DuelStep struct {
	Host string
	Step Step
	// CrashAfterWrite > 0 (prologue only): the client crashes right after its CrashAfterWrite-th
	// committed-or-attempted datastore write of this call, leaving a half-done protocol state.
	CrashAfterWrite int
}

// Duel is a small scenario explored SYSTEMATICALLY: a sequential prologue builds a state, then
// two or three single-call tasks race under every schedule with a bounded number of preemptions
// (dsched.Explore), then a sequential epilogue probes the result.
type Duel struct {
	Name     string
	Spec     WorldSpec
	Prologue []DuelStep
	Shift    time.Duration // virtual time passing after the prologue
	Racers   []DuelStep    // run concurrently, one task each
	Epilogue []DuelStep
	Tracker  TrackerOpts

	template    *World
	templateErr error
}

// DuelOutcome is one explored schedule.
type DuelOutcome struct {
	World      *World
	Tracker    *Tracker
	Race       *PhaseResult
	Violations []Violation
	Stuck      bool
	SetupErr   error
}

// Run executes the duel once following the decision prefix (dsched Replay semantics).
func (d *Duel) Run(prefix []int) *DuelOutcome {
	out := &DuelOutcome{}
	if d.template == nil && d.templateErr == nil {
		d.template, d.templateErr = NewWorld(d.Spec)
	}
	if d.templateErr != nil {
		out.SetupErr = d.templateErr
		return out
	}
	w := d.template.Fork()
	defer w.Store.Shutdown()
	out.World = w
	out.Tracker = NewTracker(w, d.Tracker)
	R := rand.New(rand.NewSource(1))
	seq := func(steps []DuelStep) bool {
		for _, ds := range steps {
			lc := w.AddClient(ds.Host)
			fp := FaultPlan{}
			if ds.CrashAfterWrite > 0 {
				fp = FaultPlan{AtWrite: ds.CrashAfterWrite, Kind: casstore.FaultCrashAfter}
			}
			st := ds.Step
			pr := w.RunPhase(PhaseOpts{Mode: dsched.Replay, Rand: R, Faults: fp, Watchdog: 30 * time.Second}, []*LClient{lc},
				[]Script{func(lc *LClient, r *rand.Rand, exec func(Step) *OpRec) { exec(st) }})
			if pr.Stuck {
				return false
			}
			d.collectPanics(out, pr)
		}
		return true
	}
	if !seq(d.Prologue) {
		out.Stuck = true
		return out
	}
	if d.Shift > 0 {
		w.Store.ShiftTimestamps(d.Shift)
	}
	var clients []*LClient
	var scripts []Script
	for _, ds := range d.Racers {
		st := ds.Step
		clients = append(clients, w.AddClient(ds.Host))
		scripts = append(scripts, func(lc *LClient, r *rand.Rand, exec func(Step) *OpRec) { exec(st) })
	}
	out.Race = w.RunPhase(PhaseOpts{Mode: dsched.Replay, Rand: R, Decisions: prefix, Watchdog: 30 * time.Second}, clients, scripts)
	if out.Race.Stuck {
		out.Stuck = true
		return out
	}
	d.collectPanics(out, out.Race)
	if !seq(d.Epilogue) {
		out.Stuck = true
		return out
	}
	out.Tracker.mu.Lock()
	for _, f := range out.Tracker.Findings {
		out.Violations = append(out.Violations, Violation{Key: f.Key, Msg: f.Msg})
	}
	out.Tracker.mu.Unlock()
	return out
}

func (d *Duel) collectPanics(out *DuelOutcome, pr *PhaseResult) {
	for _, p := range pr.Panics {
		out.Violations = append(out.Violations, Violation{Key: "panic:" + panicSite(p.Stack), Msg: fmt.Sprintf("panic in the code under test (task %s): %v\n%s", p.Task, p.Value, trim(p.Stack, 3000))})
	}
}

// Witness describes one explored schedule for the replay file.
func (o *DuelOutcome) Witness(d *Duel) map[string]any {
	wit := map[string]any{"duel": d.Name, "prologue": d.Prologue, "racers": d.Racers, "epilogue": d.Epilogue, "config": d.Spec.Config, "pools": d.Spec.Pools}
	if o.Race != nil {
		wit["schedule"] = o.Race.Decisions
	}
	if o.World != nil {
		wit["ops"] = o.World.Ops()
		wit["final_ipam_state"] = o.World.Store.Dump("/calico/ipam/")
	}
	if o.Tracker != nil {
		o.Tracker.mu.Lock()
		wit["writes"] = append([]WriteRec(nil), o.Tracker.Writes...)
		o.Tracker.mu.Unlock()
	}
	return wit
}

package ipamkit

import (
	"fmt"

	"verif/internal/dsched"
	"verif/internal/harness"
)

// Driver runs one harness case of a concurrent IPAM check: the fault-free base run, the fault
// enumeration over every write attempt of that run, random multi-fault runs, or (FreeRunning) a
// few free-running runs for the race detector.  It feeds the harness counters and turns judged
// violations into harness violations (one per key and case; exploration continues so that a
// listed finding cannot hide another one).
type Driver struct {
	C           *harness.Case
	CC          *ConcCase
	Seed        int64
	Mode        dsched.Mode
	Depth       int
	RandomRuns  int
	FreeRunning bool
	FreeRuns    int
	// MultiBlockRelease: free-running runs start with the multi-block same-handle release
	// warm-up (see ConcCase.MultiBlockRelease).
	MultiBlockRelease bool

	reported map[string]bool
}

func (d *Driver) report(o *RunOutcome, what string) bool {
	c := d.C
	if o.SetupErr != nil {
		c.Inconclusive("setup: " + o.SetupErr.Error())
		return false
	}
	c.Count("runs", 1)
	c.Count("runs_"+o.Plan.Mode.String(), 1)
	for _, p := range o.Phases {
		c.Count("ds_ops", int64(p.DSOps))
		c.Count("write_attempts", int64(p.WriteAttempts))
		c.Count("conflicts_seen", int64(p.Conflicts))
		c.Count("conflicts_real", int64(p.RealConflicts))
		for k, n := range p.Faults {
			c.Count("fault_"+k, int64(n))
		}
		c.Count("sched_overlaps", p.Overlaps)
		c.Count("sched_steps", int64(len(p.Decisions)))
		if o.Plan.Mode != dsched.Free {
			c.Distinct("schedules", fmt.Sprint(p.Decisions))
		}
	}
	if o.Tracker != nil {
		c.Count("committed_writes", o.Tracker.NWrites)
		c.Count("block_writes", o.Tracker.NBlockWrites)
		c.Count("affinity_writes", o.Tracker.NAffWrites)
		c.Count("allocations_committed", o.Tracker.NAllocs)
		c.Count("frees_committed", o.Tracker.NFrees)
		c.Count("online_checks", o.Tracker.NChecks)
		c.Count("blocks_given_up", o.Tracker.NGivenUp)
		c.Count("affinities_confirmed", o.Tracker.NConfirms)
	}
	c.Count("logical_ops", int64(len(o.World.Ops())))
	c.Count("logical_ops_ok", int64(o.OKOps))
	for k, n := range o.ErrOps {
		c.Count("logical_ops_err_"+k, int64(n))
	}
	if d.CC.CheckLin {
		c.Count("porcupine_partitions", int64(o.Lin.Checked))
		c.Count("porcupine_unknown", int64(o.Lin.Unknown))
	}
	if d.CC.CheckHandles {
		c.Count("handles_compared", int64(o.HandlesCmp))
	}
	if o.Inconclusive != "" {
		c.Count("inconclusive_runs", 1)
		if !c.Failed() {
			c.Inconclusive(o.Inconclusive)
		}
		return false
	}
	if len(o.Violations) == 0 {
		return true
	}
	if d.reported == nil {
		d.reported = map[string]bool{}
	}
	var wit map[string]any
	for _, v := range o.Violations {
		if d.reported[v.Key] {
			continue
		}
		d.reported[v.Key] = true
		if wit == nil {
			wit = o.Witness(d.CC)
			wit["run"] = what
		}
		c.Violationf(v.Key, wit, "%s [%s]", v.Msg, what)
	}
	return len(d.reported) < 4
}

// Run executes the case.
func (d *Driver) Run() {
	c, cc := d.C, d.CC
	if d.FreeRunning {
		cc.MultiBlockRelease = d.MultiBlockRelease
		for i := 0; i < d.FreeRuns; i++ {
			plan := RunPlan{Seed: d.Seed + int64(i), Mode: dsched.Free,
				Fault: FaultPlan{PSpurious: 0.05, PAbort: 0.01, PLost: 0.01, PCrash: 0.005, MaxRandom: 2}}
			o := cc.Run(plan)
			if !d.report(o, fmt.Sprintf("free-running #%d", i)) {
				return
			}
			c.Count("free_runs", 1)
		}
		c.NonTrivial("free", d.Seed)
		return
	}
	// 1. fault-free base run.
	base := cc.Run(RunPlan{Seed: d.Seed, Mode: d.Mode, Depth: d.Depth})
	if !d.report(base, "fault-free base run") {
		return
	}
	if len(cc.ClientHosts) >= 2 && len(base.Phases) > 0 {
		c.NonTrivial(fmt.Sprint(base.Phases[0].Decisions), d.Seed)
	}
	// 2. the same run with one fault at every write attempt.
	for ph, p := range base.Phases {
		if cc.Epilogue && ph == len(base.Phases)-1 {
			break // the epilogue is a fault-free probe
		}
		for k := 1; k <= p.WriteAttempts; k++ {
			for _, f := range FaultKindsFor(p.WriteKinds[k-1]) {
				plan := RunPlan{Seed: d.Seed, Mode: d.Mode, Depth: d.Depth, FaultPhase: ph, Fault: FaultPlan{AtWrite: k, Kind: f}}
				o := cc.Run(plan)
				c.Count("enumerated_fault_runs", 1)
				if !d.report(o, fmt.Sprintf("%s at write %d of phase %d", f, k, ph)) {
					return
				}
			}
		}
	}
	// 3. random multi-fault runs on fresh schedules.
	for i := 0; i < d.RandomRuns; i++ {
		plan := RunPlan{Seed: d.Seed + 1000 + int64(i), Mode: d.Mode, Depth: d.Depth, FaultPhase: 0,
			Fault: FaultPlan{PSpurious: 0.10, PAbort: 0.02, PLost: 0.02, PCrash: 0.01, PReadAbort: 0.005, MaxRandom: 3}}
		o := cc.Run(plan)
		c.Count("random_fault_runs", 1)
		if !d.report(o, fmt.Sprintf("random faults #%d", i)) {
			return
		}
	}
}

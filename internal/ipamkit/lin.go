package ipamkit

import (
	"fmt"
	"math"
	"sort"
	"time"

	"github.com/anishathalye/porcupine"
)

// Per-address sequential model used with porcupine: the state of one address is "" (free) or the
// handle that owns it.  Every logical operation contributes one event per address it may touch.
//
//	acquire(h)      -> ok       legal iff free; then owned(h)
//	acquire(h)      -> unknown  (failed / open op) free -> free | owned(h); otherwise unchanged
//	observe-owned   -> ok       (AssignIP answered "already assigned") legal iff owned by someone
//	release(f)      -> released legal iff owned (by f if a handle filter f was given); then free
//	release(f)      -> absent   (reported "not allocated") legal iff free
//	release(f)      -> unknown  owned (matching f) -> owned | free; otherwise unchanged
//	release-by(h)   -> done     owned(h) -> free; otherwise unchanged
//	release-by(h)   -> unknown  owned(h) -> owned(h) | free; otherwise unchanged
//
// Open operations (hit by an injected fault, or whose client crashed) get an unknown output and
// never return (Return = +inf), so they may take effect at any later point or never.

type linKind int

const (
	lAcquire linKind = iota
	lObserveOwned
	lRelease
	lReleaseBy
)

type linOut int

const (
	oOK linOut = iota
	oAbsent
	oUnknown
)

type linIn struct {
	Kind   linKind
	Handle string // acquire: new owner; release: handle filter ("" = any); release-by: handle
	Addr   string
	OpID   int
}

const noHandle = "\x00none" // owner id of a live allocation without a handle

func linStep(state, input, output interface{}) []interface{} {
	s := state.(string)
	in := input.(linIn)
	out := output.(linOut)
	switch in.Kind {
	case lAcquire:
		h := in.Handle
		if h == "" {
			h = noHandle
		}
		if out == oOK {
			if s == "" {
				return []interface{}{h}
			}
			return nil
		}
		if s == "" {
			return []interface{}{"", h}
		}
		return []interface{}{s}
	case lObserveOwned:
		if s != "" {
			return []interface{}{s}
		}
		return nil
	case lRelease:
		match := s != "" && (in.Handle == "" || in.Handle == s)
		switch out {
		case oOK:
			if match {
				return []interface{}{""}
			}
			return nil
		case oAbsent:
			if s == "" {
				return []interface{}{""}
			}
			return nil
		default:
			if match {
				return []interface{}{s, ""}
			}
			return []interface{}{s}
		}
	case lReleaseBy:
		if s == in.Handle && s != "" {
			if out == oOK {
				return []interface{}{""}
			}
			return []interface{}{s, ""}
		}
		return []interface{}{s}
	}
	return nil
}

var linModel = func() porcupine.Model {
	nm := porcupine.NondeterministicModel{
		Init: func() []interface{} { return []interface{}{""} },
		Step: linStep,
		Equal: func(a, b interface{}) bool {
			return a.(string) == b.(string)
		},
		DescribeOperation: func(in, out interface{}) string {
			i := in.(linIn)
			return fmt.Sprintf("op#%d %v(%s,%q)->%v", i.OpID, i.Kind, i.Addr, i.Handle, out)
		},
	}
	return nm.ToModel()
}()

// LinOpts tunes BuildHistories.
type LinOpts struct {
	// StrictReleaseBy: a ReleaseByHandle(h) that returned nil, was not hit by a fault, and whose
	// handle is not in Tainted frees every address owned by h (output "done"); otherwise it is
	// lenient (may or may not).
	StrictReleaseBy bool
	Tainted         map[string]bool
}

// BuildHistories turns the recorded operations into one porcupine history per address of the
// universe that is touched by at least one definite (non-"unknown") event.
func BuildHistories(universe []string, ops []*OpRec, lo LinOpts) map[string][]porcupine.Operation {
	hist := map[string][]porcupine.Operation{}
	definite := map[string]bool{}
	inf := int64(math.MaxInt64 / 2)
	add := func(op *OpRec, a string, in linIn, out linOut) {
		in.Addr, in.OpID = a, op.ID
		ret := op.Return
		if op.Open() {
			ret = inf
		}
		if out != oUnknown {
			definite[a] = true
		}
		hist[a] = append(hist[a], porcupine.Operation{ClientId: op.Client, Input: in, Output: out, Call: op.Call, Return: ret})
	}
	for _, op := range ops {
		if op.ID < 0 {
			continue
		}
		switch op.Step.Kind {
		case KAutoAssign:
			got := map[string]bool{}
			for _, a := range op.IPs {
				got[a] = true
				add(op, a, linIn{Kind: lAcquire, Handle: op.Step.Handle}, oOK)
			}
			if op.err != nil || op.Open() {
				for _, a := range universe {
					if got[a] || (IsV6(a) && op.Step.Num6 == 0) || (!IsV6(a) && op.Step.Num4 == 0) {
						continue
					}
					add(op, a, linIn{Kind: lAcquire, Handle: op.Step.Handle}, oUnknown)
				}
			}
			if op.Open() {
				// A write whose reply was lost (or that preceded a crash) may have committed an
				// allocation that the call never reported; the call then carries on and can allocate
				// the SAME address again after somebody released it.  So an open AutoAssign may have
				// acquired each address once more per fault that hit it, besides what it returned.
				for k := 0; k < op.HardFaults; k++ {
					for a := range got {
						add(op, a, linIn{Kind: lAcquire, Handle: op.Step.Handle}, oUnknown)
					}
				}
			}
		case KAssignIP:
			a := canonIP(op.Step.IP)
			switch {
			case op.Open():
				add(op, a, linIn{Kind: lAcquire, Handle: op.Step.Handle}, oUnknown)
			case op.err == nil:
				add(op, a, linIn{Kind: lAcquire, Handle: op.Step.Handle}, oOK)
			case op.ErrKind == "already-exists":
				add(op, a, linIn{Kind: lObserveOwned}, oOK)
			default:
				add(op, a, linIn{Kind: lAcquire, Handle: op.Step.Handle}, oUnknown)
			}
		case KReleaseIPs:
			un := map[string]bool{}
			for _, a := range op.Unallocated {
				un[a] = true
			}
			okSet := map[string]bool{}
			for _, a := range op.ReleasedOK {
				okSet[a] = true
			}
			seen := map[string]bool{}
			for _, r := range op.Step.Rel {
				a := canonIP(r.Addr)
				if seen[a] {
					continue
				}
				seen[a] = true
				in := linIn{Kind: lRelease, Handle: sanitizeHandle(r.Handle)}
				switch {
				case op.Open() || r.Seq != nil:
					// sequence-number semantics are C21's business: leave the outcome open here
					add(op, a, in, oUnknown)
				case op.err == nil || okSet[a]:
					if un[a] {
						add(op, a, in, oAbsent)
					} else {
						add(op, a, in, oOK)
					}
				default:
					add(op, a, in, oUnknown)
				}
			}
		case KReleaseByHandle:
			h := sanitizeHandle(op.Step.Handle)
			out := oUnknown
			if lo.StrictReleaseBy && op.err == nil && !op.Open() && !lo.Tainted[h] {
				out = oOK
			}
			for _, a := range universe {
				add(op, a, linIn{Kind: lReleaseBy, Handle: h}, out)
			}
		}
	}
	for a := range hist {
		if !definite[a] {
			delete(hist, a)
		}
	}
	return hist
}

// LinResult is the outcome of checking all partitions.
type LinResult struct {
	Checked  int
	Unknown  int      // partitions on which porcupine timed out
	Illegal  []string // addresses whose history is not linearizable
	Detail   map[string][]string
	MaxEvent int
}

// CheckHistories runs porcupine on every per-address history.
func CheckHistories(hist map[string][]porcupine.Operation, timeout time.Duration) LinResult {
	res := LinResult{Detail: map[string][]string{}}
	addrs := make([]string, 0, len(hist))
	for a := range hist {
		addrs = append(addrs, a)
	}
	sort.Strings(addrs)
	for _, a := range addrs {
		h := hist[a]
		if len(h) > res.MaxEvent {
			res.MaxEvent = len(h)
		}
		r := porcupine.CheckOperationsTimeout(linModel, h, timeout)
		res.Checked++
		switch r {
		case porcupine.Unknown:
			res.Unknown++
		case porcupine.Illegal:
			res.Illegal = append(res.Illegal, a)
			var lines []string
			for _, o := range h {
				ret := fmt.Sprint(o.Return)
				if o.Return > math.MaxInt64/4 {
					ret = "open"
				}
				lines = append(lines, fmt.Sprintf("[%d,%s] client %d %s", o.Call, ret, o.ClientId, linModel.DescribeOperation(o.Input, o.Output)))
			}
			res.Detail[a] = lines
		}
	}
	return res
}

func (k linKind) String() string {
	return [...]string{"acquire", "observe-owned", "release", "release-by-handle"}[k]
}

func (o linOut) String() string { return [...]string{"ok", "absent", "unknown"}[o] }

package ipamkit

import (
	"fmt"
	"sort"
	"strings"
	"sync"

	"github.com/projectcalico/calico/libcalico-go/lib/backend/model"

	"verif/internal/casstore"
)

// Owner is the allocation state of one address as stored in its block.
type Owner struct {
	Live    bool   // allocated to someone (not free, not cooling down)
	Cooling bool   // released, ReleasedAt set, not yet back on the Unallocated list
	Handle  string // handle of a live allocation ("" if the allocation has no handle)
	Seq     uint64 // SequenceNumberForAllocation of the ordinal
}

func (o Owner) String() string {
	switch {
	case o.Live:
		return "owned(" + o.Handle + ")"
	case o.Cooling:
		return "cooling"
	}
	return "free"
}

func sanitizeHandle(h string) string { return strings.Split(h, "\r")[0] }

// OwnEvent is one ownership transition of one address, observed in a committed block write.
type OwnEvent struct {
	Rev    int64  `json:"rev"`
	Addr   string `json:"addr"`
	Block  string `json:"block"`
	From   string `json:"from"`
	To     string `json:"to"`
	Client int    `json:"client"` // casstore client ID of the writer
	OpID   int    `json:"op"`     // logical operation (-1 if none)
	from   Owner
	to     Owner
}

// Finding is a violation noticed by the commit monitor; the case runner turns it into
// harness.Case.Violationf.
type Finding struct {
	Key    string `json:"key"`
	Msg    string `json:"msg"`
	Rev    int64  `json:"rev"`
	OpID   int    `json:"op"`
	Client int    `json:"client"`
}

// WriteRec is a compact record of a committed write (for witnesses).
type WriteRec struct {
	Rev    int64  `json:"rev"`
	Client int    `json:"client"`
	OpID   int    `json:"op"`
	Kind   string `json:"kind"`
	Path   string `json:"path"`
	Value  string `json:"value,omitempty"`
}

// TrackerOpts selects the online checks.
type TrackerOpts struct {
	// Structural: every block write keeps "Unallocated ∪ allocated ordinals" a partition and all
	// attribute indexes valid.
	Structural bool
	// Ownership: no address goes owned(h1) -> owned(h2) in one write; a live allocation only
	// disappears in a write of an operation that asked for its release.
	Ownership bool
	// Affinity: the C22 invariants.
	Affinity bool
	// Strict: IPAM config has StrictAffinity (for the Affinity checks).
	Strict bool
	// KeepValues stores the serialised value of IPAM writes in the write log.
	KeepValues bool
}

// Tracker observes every committed write of a World's store.  All its state is guarded by the
// store lock (it only runs inside casstore's OnCommit) plus mu for readers.
type Tracker struct {
	w    *World
	opts TrackerOpts

	mu       sync.Mutex
	Events   []OwnEvent
	Findings []Finding
	Writes   []WriteRec

	// counters
	NWrites, NBlockWrites, NAffWrites, NHandleWrites int64
	NAllocs, NFrees                                  int64
	NChecks                                          int64
	NGivenUp, NConfirms                              int64 // blocks whose affinity was given up; affinities written as confirmed

	confirmedBy map[string]string // "type:host@cidr" -> kind of the logical op that wrote the confirmation
}

// NewTracker installs a tracker as the store's OnCommit hook.
func NewTracker(w *World, opts TrackerOpts) *Tracker {
	t := &Tracker{w: w, opts: opts}
	w.Store.OnCommit = t.onCommit
	return t
}

func (t *Tracker) find(key string, wr *casstore.Write, op *OpRec, format string, args ...any) {
	f := Finding{Key: key, Msg: fmt.Sprintf(format, args...), Rev: wr.Rev, OpID: -1, Client: wr.Op.Client.ID}
	if op != nil {
		f.OpID = op.ID
	}
	if len(t.Findings) < 20 {
		t.Findings = append(t.Findings, f)
	}
}

// blockOwners returns the per-address owner map of a block value and structural complaints.
func blockOwners(b *model.AllocationBlock) (map[string]Owner, []string) {
	var bad []string
	out := map[string]Owner{}
	n := b.NumAddresses()
	if len(b.Allocations) != n {
		bad = append(bad, fmt.Sprintf("len(Allocations)=%d for a block of %d addresses", len(b.Allocations), n))
		return out, bad
	}
	inUnalloc := make([]int, n)
	for _, o := range b.Unallocated {
		if o < 0 || o >= n {
			bad = append(bad, fmt.Sprintf("Unallocated holds ordinal %d outside the block", o))
			continue
		}
		inUnalloc[o]++
	}
	for o := 0; o < n; o++ {
		addr := b.OrdinalToIP(o).String()
		idx := b.Allocations[o]
		if inUnalloc[o] > 1 {
			bad = append(bad, fmt.Sprintf("ordinal %d appears %d times in Unallocated", o, inUnalloc[o]))
		}
		if idx == nil {
			if inUnalloc[o] == 0 {
				bad = append(bad, fmt.Sprintf("ordinal %d is neither allocated nor in Unallocated", o))
			}
			out[addr] = Owner{}
			continue
		}
		if inUnalloc[o] != 0 {
			bad = append(bad, fmt.Sprintf("ordinal %d is allocated and also in Unallocated", o))
		}
		if *idx < 0 || *idx >= len(b.Attributes) {
			bad = append(bad, fmt.Sprintf("ordinal %d points at attribute %d of %d", o, *idx, len(b.Attributes)))
			out[addr] = Owner{Live: true, Handle: "?"}
			continue
		}
		attr := b.Attributes[*idx]
		ow := Owner{Seq: b.GetSequenceNumberForOrdinal(o)}
		if attr.ReleasedAt != nil {
			ow.Cooling = true
		} else {
			ow.Live = true
			if attr.HandleID != nil {
				ow.Handle = sanitizeHandle(*attr.HandleID)
			}
		}
		out[addr] = ow
	}
	return out, bad
}

func asBlock(v any) *model.AllocationBlock {
	b, _ := v.(*model.AllocationBlock)
	return b
}

func (t *Tracker) onCommit(wr *casstore.Write) {
	t.mu.Lock()
	defer t.mu.Unlock()
	t.NWrites++
	var op *OpRec
	if wr.Op != nil {
		op, _ = wr.Op.Tag.(*OpRec)
	}
	rec := WriteRec{Rev: wr.Rev, Client: wr.Op.Client.ID, OpID: -1, Kind: wr.Kind.String(), Path: wr.Path}
	if op != nil {
		rec.OpID = op.ID
		op.Writes++
	}
	switch k := wr.Key.(type) {
	case model.BlockKey:
		t.NBlockWrites++
		if t.opts.KeepValues {
			rec.Value = string(wr.NewRaw)
		}
		t.onBlock(wr, k, op)
	case model.BlockAffinityKey:
		t.NAffWrites++
		if t.opts.KeepValues {
			rec.Value = string(wr.NewRaw)
		}
		if aff, ok := wr.New().(*model.BlockAffinity); ok && aff.State == model.StateConfirmed {
			t.NConfirms++
		}
		if t.opts.Affinity {
			t.checkAffinityInvariants(wr, k.CIDR.String(), op)
		}
	case model.IPAMHandleKey:
		t.NHandleWrites++
		if t.opts.KeepValues {
			rec.Value = string(wr.NewRaw)
		}
		if op != nil {
			total := func(v any) int {
				n := 0
				if h, ok := v.(*model.IPAMHandle); ok && h != nil {
					for _, c := range h.Block {
						n += c
					}
				}
				return n
			}
			op.touchHandle(k.HandleID, total(wr.New())-total(wr.Old()))
		}
	}
	if len(t.Writes) < 4000 {
		t.Writes = append(t.Writes, rec)
	}
}

func (t *Tracker) onBlock(wr *casstore.Write, k model.BlockKey, op *OpRec) {
	oldB, newB := asBlock(wr.Old()), asBlock(wr.New())
	cidr := k.CIDR.String()
	oldOwn, newOwn := map[string]Owner{}, map[string]Owner{}
	if oldB != nil {
		oldOwn, _ = blockOwners(oldB)
	}
	if newB != nil {
		var bad []string
		newOwn, bad = blockOwners(newB)
		if t.opts.Structural {
			t.NChecks++
			for _, m := range bad {
				t.find("block-structure", wr, op, "block %s written at rev %d is malformed: %s", cidr, wr.Rev, m)
			}
		}
	}
	addrs := make([]string, 0, len(oldOwn)+len(newOwn))
	for a := range oldOwn {
		addrs = append(addrs, a)
	}
	for a := range newOwn {
		if _, ok := oldOwn[a]; !ok {
			addrs = append(addrs, a)
		}
	}
	sort.Strings(addrs)
	for _, a := range addrs {
		from, to := oldOwn[a], newOwn[a]
		if from.Live == to.Live && from.Handle == to.Handle && from.Cooling == to.Cooling {
			continue
		}
		ev := OwnEvent{Rev: wr.Rev, Addr: a, Block: cidr, From: from.String(), To: to.String(), Client: wr.Op.Client.ID, OpID: -1, from: from, to: to}
		if op != nil {
			ev.OpID = op.ID
		}
		t.Events = append(t.Events, ev)
		if to.Live && !from.Live {
			t.NAllocs++
			if op != nil {
				op.noteAcquired(a, to.Handle, to.Seq)
			}
		}
		if from.Live && !to.Live {
			t.NFrees++
			if op != nil {
				op.noteFreed(a, from.Handle)
			}
		}
		if t.opts.Ownership {
			t.NChecks++
			if from.Live && to.Live && from.Handle != to.Handle {
				t.find("address-reassigned-while-owned", wr, op,
					"address %s went from %s to %s in one write (rev %d, %s of block %s): the previous owner never released it",
					a, from, to, wr.Rev, wr.Kind, cidr)
			}
			if from.Live && !to.Live && (op == nil || !op.mayRelease(a, from.Handle)) {
				t.find("allocation-lost", wr, op,
					"address %s owned by handle %q was freed at rev %d (%s of block %s) by an operation that did not ask to release it: %s",
					a, from.Handle, wr.Rev, wr.Kind, cidr, describeOp(op))
			}
		}
	}
	if t.opts.Affinity {
		t.checkAffinityInvariants(wr, cidr, op)
		t.checkBlockAffinityWrite(wr, cidr, oldB, newB, oldOwn, newOwn, op)
	}
}

func describeOp(op *OpRec) string {
	if op == nil {
		return "(no logical operation)"
	}
	return fmt.Sprintf("op#%d %s by client %d", op.ID, op.Step.Kind, op.Client)
}

// checkAffinityInvariants evaluates the C22 state invariants for one block CIDR on the store as it
// is right after the write.  Violation keys carry the kind of logical operation that wrote the
// confirmation which disagrees with the block ("confirmed-by-<Kind>"), so that distinct causes
// get distinct identities.
func (t *Tracker) checkAffinityInvariants(wr *casstore.Write, cidr string, op *OpRec) {
	t.NChecks++
	// remember who confirmed what
	if ak, ok := wr.Key.(model.BlockAffinityKey); ok {
		if t.confirmedBy == nil {
			t.confirmedBy = map[string]string{}
		}
		id := ak.AffinityType + ":" + ak.Host + "@" + ak.CIDR.String()
		if aff, ok := wr.New().(*model.BlockAffinity); ok && aff.State == model.StateConfirmed {
			kind := "?"
			if op != nil {
				kind = op.Step.Kind
			}
			t.confirmedBy[id] = kind
		} else {
			delete(t.confirmedBy, id)
		}
	}
	var confirmed []string
	for _, kv := range wr.View.Affinities() {
		ak := kv.Key.(model.BlockAffinityKey)
		if ak.CIDR.String() != cidr {
			continue
		}
		aff, ok := kv.Value.(*model.BlockAffinity)
		if !ok {
			continue
		}
		if aff.State == model.StateConfirmed {
			confirmed = append(confirmed, ak.AffinityType+":"+ak.Host)
		}
	}
	if len(confirmed) == 0 {
		return
	}
	var block *model.AllocationBlock
	for _, kv := range wr.View.Blocks() {
		if kv.Key.(model.BlockKey).CIDR.String() == cidr {
			block = kv.Value.(*model.AllocationBlock)
		}
	}
	// the confirmation that does not belong to the block's recorded owner
	stale := ""
	for _, c := range confirmed {
		if block == nil || block.Affinity == nil || c != *block.Affinity {
			stale = c
			break
		}
	}
	by := "confirmed-by-" + t.confirmedBy[stale+"@"+cidr]
	if len(confirmed) > 1 {
		t.find("two-confirmed-affinities:"+by, wr, op, "block %s has %d confirmed affinities after rev %d: %v (the one of %s was written by a %s)",
			cidr, len(confirmed), wr.Rev, confirmed, stale, t.confirmedBy[stale+"@"+cidr])
	}
	if block == nil {
		return
	}
	for _, c := range confirmed {
		switch {
		case block.Affinity == nil:
			t.find("block-without-affinity-has-confirmed-claim:"+by, wr, op,
				"after rev %d block %s records no affinity but %q holds a confirmed affinity for it (written by a %s)", wr.Rev, cidr, c, t.confirmedBy[c+"@"+cidr])
		case c != *block.Affinity:
			t.find("block-affinity-mismatch:"+by, wr, op,
				"after rev %d block %s records affinity %q but %q holds a confirmed affinity for it (written by a %s)", wr.Rev, cidr, *block.Affinity, c, t.confirmedBy[c+"@"+cidr])
		}
	}
}

func liveCount(own map[string]Owner) (n int, addrs []string) {
	for a, o := range own {
		if o.Live {
			n++
			addrs = append(addrs, a)
		}
	}
	sort.Strings(addrs)
	return
}

// checkBlockAffinityWrite evaluates the C22 transition rules on one block write.
func (t *Tracker) checkBlockAffinityWrite(wr *casstore.Write, cidr string, oldB, newB *model.AllocationBlock, oldOwn, newOwn map[string]Owner, op *OpRec) {
	// (c) strict affinity: new allocations only into a block recorded as affine to the writer's host.
	if t.opts.Strict && newB != nil && op != nil && op.Host != "" {
		for a, to := range newOwn {
			if from := oldOwn[a]; to.Live && !from.Live {
				t.NChecks++
				want := "host:" + op.Host
				if op.Step.Use == "LoadBalancer" {
					want = "virtual:" + op.Host
				}
				if newB.Affinity == nil || *newB.Affinity != want {
					got := "<nil>"
					if newB.Affinity != nil {
						got = *newB.Affinity
					}
					t.find("strict-affinity-foreign-allocation", wr, op,
						"strict affinity: %s (host %s) allocated %s at rev %d in block %s whose affinity is %s",
						describeOp(op), op.Host, a, wr.Rev, cidr, got)
				}
			}
		}
	}
	// (d) a must-be-empty release gives up (deletes, or clears the affinity of) only blocks that
	// hold no live allocation.
	if oldB != nil && oldB.Affinity != nil && (newB == nil || newB.Affinity == nil) {
		t.NChecks++
		t.NGivenUp++
		n, addrs := liveCount(oldOwn)
		if n > 0 && op != nil && op.MustBeEmpty {
			// Allocations that this very operation releases in the same write do not count.
			var kept []string
			for _, a := range addrs {
				if !op.mayRelease(a, oldOwn[a].Handle) {
					kept = append(kept, a)
				}
			}
			if len(kept) > 0 {
				t.find("nonempty-block-released", wr, op,
					"%s requires the block to be empty but gave up block %s (affinity %s, %s at rev %d) while %v were allocated",
					describeOp(op), cidr, *oldB.Affinity, wr.Kind, wr.Rev, kept)
			}
		}
	}
}

// OwnersNow returns the current owner of every address that lies in an existing block.
func (w *World) OwnersNow() map[string]Owner {
	out := map[string]Owner{}
	w.Store.View(func(v casstore.View) {
		for _, kv := range v.Blocks() {
			own, _ := blockOwners(kv.Value.(*model.AllocationBlock))
			for a, o := range own {
				out[a] = o
			}
		}
	})
	return out
}

// HandleMismatch describes a disagreement between a handle record and the blocks.
type HandleMismatch struct {
	Handle string         `json:"handle"`
	Record map[string]int `json:"record"` // block -> count in the IPAMHandle object (nil if missing)
	Blocks map[string]int `json:"blocks"` // block -> live allocations carrying the handle
}

// HandleAgreement compares every handle record with the blocks, skipping the handles in skip.
// Returns the mismatches and the number of handles compared.
func (w *World) HandleAgreement(skip map[string]bool) ([]HandleMismatch, int) {
	var out []HandleMismatch
	n := 0
	w.Store.View(func(v casstore.View) {
		inBlocks := map[string]map[string]int{}
		for _, kv := range v.Blocks() {
			b := kv.Value.(*model.AllocationBlock)
			own, _ := blockOwners(b)
			for _, o := range own {
				if o.Live && o.Handle != "" {
					if inBlocks[o.Handle] == nil {
						inBlocks[o.Handle] = map[string]int{}
					}
					inBlocks[o.Handle][b.CIDR.String()]++
				}
			}
		}
		records := map[string]map[string]int{}
		for _, kv := range v.Handles() {
			h := kv.Value.(*model.IPAMHandle)
			rec := map[string]int{}
			for b, c := range h.Block {
				rec[b] = c
			}
			records[kv.Key.(model.IPAMHandleKey).HandleID] = rec
		}
		all := map[string]bool{}
		for h := range inBlocks {
			all[h] = true
		}
		for h := range records {
			all[h] = true
		}
		hs := make([]string, 0, len(all))
		for h := range all {
			hs = append(hs, h)
		}
		sort.Strings(hs)
		for _, h := range hs {
			if skip[h] {
				continue
			}
			n++
			rec, blk := records[h], inBlocks[h]
			same := len(rec) == len(blk)
			for b, c := range blk {
				if rec[b] != c {
					same = false
				}
			}
			if !same {
				out = append(out, HandleMismatch{Handle: h, Record: rec, Blocks: blk})
			}
		}
	})
	return out, n
}

// AllHandlesNow lists every handle that appears in a handle record or in a block right now.
func (w *World) AllHandlesNow() []string {
	set := map[string]bool{}
	w.Store.View(func(v casstore.View) {
		for _, kv := range v.Handles() {
			set[kv.Key.(model.IPAMHandleKey).HandleID] = true
		}
		for _, kv := range v.Blocks() {
			for _, a := range kv.Value.(*model.AllocationBlock).Attributes {
				if a.HandleID != nil {
					set[sanitizeHandle(*a.HandleID)] = true
				}
			}
		}
	})
	out := make([]string, 0, len(set))
	for h := range set {
		out = append(out, h)
	}
	sort.Strings(out)
	return out
}

package ipamkit

import (
	"errors"
	"fmt"
	"math/rand"
	"sync"
	"time"

	cerrors "github.com/projectcalico/calico/libcalico-go/lib/errors"

	"verif/internal/casstore"
	"verif/internal/dsched"
)

// FaultPlan says which faults to inject during a phase.
type FaultPlan struct {
	// AtWrite > 0: inject Kind into the AtWrite-th datastore write attempt of the phase (1-based,
	// counted over all non-admin clients in execution order).  This is the enumeration mode.
	AtWrite int
	Kind    casstore.Fault
	// Random mode: independent per-operation probabilities (writes: all four kinds; reads: abort).
	PAbort, PLost, PSpurious, PCrash, PReadAbort float64
	// MaxRandom bounds the number of random non-conflict faults (0 = unlimited).
	MaxRandom int
}

// Script drives one client: it is called in the client's task and issues steps through exec.  It
// must stop when exec returns a record with Crashed set.  r is the client's private PRNG.
type Script func(lc *LClient, r *rand.Rand, exec func(Step) *OpRec)

// PhaseOpts configures one concurrent phase.
type PhaseOpts struct {
	Mode      dsched.Mode
	Rand      *rand.Rand // case PRNG: seeds the scheduler, the per-client PRNGs and the fault PRNG
	Depth     int
	Steps     int // PCT's expected number of scheduling steps
	Decisions []int
	Faults    FaultPlan
	Watchdog  time.Duration
}

// PhaseResult is what a phase observed.
type PhaseResult struct {
	Decisions     []int
	Trace         []dsched.StepInfo
	WriteAttempts int
	WriteKinds    []casstore.OpKind // kind of each write attempt, in order (index k-1 = k-th attempt)
	DSOps         int
	Conflicts     int // ErrorResourceUpdateConflict / AlreadyExists results seen by the code under test
	RealConflicts int // of which not injected
	Faults        map[string]int
	FaultAt       []string // description of each injected fault
	Overlaps      int64
	Divergences   int
	Panics        []dsched.Panic
	Stuck         bool
	Tainted       map[string]bool // handles that a faulted operation may have left inconsistent
	Ops           []*OpRec        // operations executed in this phase
}

// RunPhase runs one script per client concurrently to completion (a quiescent point) under the
// given scheduler mode and fault plan.  clients[i] runs scripts[i].
func (w *World) RunPhase(opts PhaseOpts, clients []*LClient, scripts []Script) *PhaseResult {
	if opts.Watchdog == 0 {
		opts.Watchdog = 30 * time.Second
	}
	res := &PhaseResult{Faults: map[string]int{}, Tainted: map[string]bool{}}
	sched := dsched.New(dsched.Options{Mode: opts.Mode, Rand: opts.Rand, Depth: opts.Depth, ExpectedSteps: opts.Steps, Decisions: opts.Decisions})
	faultR := rand.New(rand.NewSource(opts.Rand.Int63()))
	var mu sync.Mutex
	taskOf := map[int]*dsched.Task{}
	nRandom := 0
	taint := func() {
		hs := w.AllHandlesNow()
		mu.Lock()
		for _, h := range hs {
			res.Tainted[h] = true
		}
		mu.Unlock()
	}

	w.Store.PreOp = func(op *casstore.Op) casstore.Fault {
		if t := taskOf[op.Client.ID]; t != nil {
			t.Yield()
		}
		mu.Lock()
		defer mu.Unlock()
		res.DSOps++
		f := casstore.FaultNone
		if op.Kind.IsWrite() {
			res.WriteAttempts++
			res.WriteKinds = append(res.WriteKinds, op.Kind)
			if opts.Faults.AtWrite > 0 && res.WriteAttempts == opts.Faults.AtWrite {
				return opts.Faults.Kind
			}
			p := opts.Faults
			if p.PAbort+p.PLost+p.PSpurious+p.PCrash > 0 {
				x := faultR.Float64()
				switch {
				case x < p.PSpurious:
					f = casstore.FaultSpuriousConflict
				case x < p.PSpurious+p.PAbort:
					f = casstore.FaultAbortBefore
				case x < p.PSpurious+p.PAbort+p.PLost:
					f = casstore.FaultLostReply
				case x < p.PSpurious+p.PAbort+p.PLost+p.PCrash:
					f = casstore.FaultCrashAfter
				}
			}
		} else if opts.Faults.PReadAbort > 0 && faultR.Float64() < opts.Faults.PReadAbort {
			f = casstore.FaultAbortBefore
		}
		if f != casstore.FaultNone && f != casstore.FaultSpuriousConflict {
			if opts.Faults.MaxRandom > 0 && nRandom >= opts.Faults.MaxRandom {
				f = casstore.FaultNone
			} else {
				nRandom++
			}
		}
		return f
	}
	w.Store.PostOp = func(op *casstore.Op) {
		rec, _ := op.Tag.(*OpRec)
		var uc cerrors.ErrorResourceUpdateConflict
		var ae cerrors.ErrorResourceAlreadyExists
		conflict := op.Err != nil && (errors.As(op.Err, &uc) || errors.As(op.Err, &ae))
		hard := op.Applied == casstore.FaultAbortBefore || op.Applied == casstore.FaultLostReply || op.Applied == casstore.FaultCrashAfter
		mu.Lock()
		if conflict {
			res.Conflicts++
			if op.Applied != casstore.FaultSpuriousConflict {
				res.RealConflicts++
			}
		}
		if op.Applied != casstore.FaultNone {
			res.Faults[op.Applied.String()]++
			if len(res.FaultAt) < 16 {
				id := -1
				if rec != nil {
					id = rec.ID
				}
				res.FaultAt = append(res.FaultAt, fmt.Sprintf("%s at ds-op %d (%s %s) of op#%d client %d committed=%v", op.Applied, op.Seq, op.Kind, op.Path, id, op.Client.ID, op.Committed))
			}
		}
		mu.Unlock()
		if rec != nil {
			rec.noteDS(conflict, hard)
		}
		if hard {
			taint()
		}
	}
	defer func() { w.Store.PreOp, w.Store.PostOp = nil, nil }()

	first := len(w.Ops())
	for i, lc := range clients {
		lc, script := lc, scripts[i]
		r := rand.New(rand.NewSource(opts.Rand.Int63()))
		taskOf[lc.BC.ID] = sched.Go(fmt.Sprintf("client-%d@%s", lc.ID, lc.Host), func(t *dsched.Task) {
			script(lc, r, func(st Step) *OpRec {
				if lc.BC.Dead() {
					return &OpRec{ID: -1, Client: lc.ID, Step: st, Crashed: true, Err: "client is dead"}
				}
				rec := w.Exec(lc, st)
				if rec.Open() {
					if rec.Step.Handle != "" {
						mu.Lock()
						res.Tainted[sanitizeHandle(rec.Step.Handle)] = true
						mu.Unlock()
					}
					taint()
				}
				return rec
			})
		})
	}
	err := sched.Run(opts.Watchdog)
	res.Stuck = err != nil
	res.Decisions = sched.Decisions()
	res.Trace = sched.Trace()
	res.Overlaps = sched.Overlaps.Load()
	res.Divergences = sched.Divergences
	res.Panics = sched.Panics
	all := w.Ops()
	if first <= len(all) {
		res.Ops = all[first:]
	}
	return res
}

// Package ipamkit is the shared harness of the IPAM checks (C19, C20, C21, C22, C38): it builds a
// small calico "cluster" (nodes, pools, IPAM config, reservations) on an internal/casstore store,
// hands out real libcalico-go IPAM clients (clientv3.NewFromBackend(...).IPAM()) bound to logical
// casstore clients, executes and records logical IPAM operations at the client boundary, and
// watches every committed write (ownership transitions per address, structural block invariants,
// affinity invariants).
//
// Nothing here re-implements IPAM: the tracker only reads what the real code wrote.
package ipamkit

import (
	"context"
	"fmt"
	"net"
	"sort"
	"sync"
	"sync/atomic"

	apiv3 "github.com/projectcalico/api/pkg/apis/projectcalico/v3"
	metav1 "k8s.io/apimachinery/pkg/apis/meta/v1"
	"k8s.io/apimachinery/pkg/types"

	"github.com/projectcalico/calico/libcalico-go/lib/apiconfig"
	"github.com/projectcalico/calico/libcalico-go/lib/apis/internalapi"
	"github.com/projectcalico/calico/libcalico-go/lib/backend/model"
	"github.com/projectcalico/calico/libcalico-go/lib/clientv3"
	"github.com/projectcalico/calico/libcalico-go/lib/ipam"
	cnet "github.com/projectcalico/calico/libcalico-go/lib/net"
	"github.com/projectcalico/calico/libcalico-go/lib/options"

	"verif/internal/casstore"
)

// PoolSpec describes one IP pool of the generated cluster.
type PoolSpec struct {
	Name              string
	CIDR              string
	BlockSize         int
	NodeSelector      string
	NamespaceSelector string
	AllowedUses       []apiv3.IPPoolAllowedUse
	Disabled          bool
	Manual            bool // AssignmentMode=Manual
	NotAllocatable    bool // status condition Allocatable=false
}

// NodeSpec describes one node.
type NodeSpec struct {
	Name   string
	Labels map[string]string
}

// WorldSpec is the generated cluster.
type WorldSpec struct {
	Nodes        []NodeSpec
	Pools        []PoolSpec
	Reservations []string // CIDRs
	Config       *ipam.IPAMConfig
}

// LClient is one logical client: a casstore client and the real IPAM client on top of it.
type LClient struct {
	ID   int // index in World.Clients
	Host string
	BC   *casstore.Client
	V3   clientv3.Interface
	IPAM ipam.Interface
}

// World is one case's cluster.
type World struct {
	Spec    WorldSpec
	Store   *casstore.Store
	AdminBC *casstore.Client
	Admin   clientv3.Interface
	Clients []*LClient

	// Universe is every address of every pool, sorted; only meaningful for small pools.
	Universe []string

	clock atomic.Int64

	mu  sync.Mutex
	ops []*OpRec
}

var apiCfg = func() apiconfig.CalicoAPIConfig {
	c := apiconfig.NewCalicoAPIConfig()
	c.Spec.DatastoreType = apiconfig.EtcdV3
	return *c
}()

// NewWorld creates the store and the cluster objects through an admin client (not scheduled, not
// faulted).  Pools go through clientv3 (validation + defaulting, as calicoctl would do).
func NewWorld(spec WorldSpec) (*World, error) {
	ctx := context.Background()
	w := &World{Spec: spec, Store: casstore.New()}
	w.AdminBC = w.Store.NewAdminClient("admin")
	w.Admin = clientv3.NewFromBackend(apiCfg, w.AdminBC)
	for _, n := range spec.Nodes {
		node := internalapi.NewNode()
		node.ObjectMeta = metav1.ObjectMeta{Name: n.Name, Labels: n.Labels, UID: types.UID("uid-node-" + n.Name), CreationTimestamp: metav1.Now()}
		if _, err := w.AdminBC.Create(ctx, &model.KVPair{Key: model.ResourceKey{Kind: internalapi.KindNode, Name: n.Name}, Value: node}); err != nil {
			return nil, fmt.Errorf("create node %s: %w", n.Name, err)
		}
	}
	for _, p := range spec.Pools {
		pool := apiv3.NewIPPool()
		pool.Name = p.Name
		pool.Spec.CIDR = p.CIDR
		pool.Spec.BlockSize = p.BlockSize
		pool.Spec.NodeSelector = p.NodeSelector
		pool.Spec.NamespaceSelector = p.NamespaceSelector
		pool.Spec.AllowedUses = p.AllowedUses
		pool.Spec.Disabled = p.Disabled
		if p.Manual {
			m := apiv3.Manual
			pool.Spec.AssignmentMode = &m
		}
		created, err := w.Admin.IPPools().Create(ctx, pool, options.SetOptions{})
		if err != nil {
			return nil, fmt.Errorf("create pool %s: %w", p.Name, err)
		}
		if p.NotAllocatable {
			created.Status = &apiv3.IPPoolStatus{Conditions: []metav1.Condition{{
				Type: apiv3.IPPoolConditionAllocatable, Status: metav1.ConditionFalse, Reason: "Verif", LastTransitionTime: metav1.Now()}}}
			if _, err := w.Admin.IPPools().UpdateStatus(ctx, created, options.SetOptions{}); err != nil {
				return nil, fmt.Errorf("pool status %s: %w", p.Name, err)
			}
		}
		for _, a := range AddrsOf(p.CIDR) {
			w.Universe = append(w.Universe, a)
		}
	}
	sort.Strings(w.Universe)
	for i, r := range spec.Reservations {
		res := apiv3.NewIPReservation()
		res.Name = fmt.Sprintf("rsv-%d", i)
		res.Spec.ReservedCIDRs = []string{r}
		if _, err := w.Admin.IPReservations().Create(ctx, res, options.SetOptions{}); err != nil {
			return nil, fmt.Errorf("create reservation %s: %w", r, err)
		}
	}
	if spec.Config != nil {
		if err := w.Admin.IPAM().SetIPAMConfig(ctx, *spec.Config); err != nil {
			return nil, fmt.Errorf("set IPAM config: %w", err)
		}
	}
	return w, nil
}

// Fork returns a new World on a clone of this world's store (same cluster objects, no clients, no
// recorded operations).  Creating the cluster once and forking it per run avoids repeating the
// validation-heavy set-up.
func (w *World) Fork() *World {
	n := &World{Spec: w.Spec, Store: w.Store.Clone(), Universe: w.Universe}
	n.AdminBC = n.Store.NewAdminClient("admin")
	n.Admin = clientv3.NewFromBackend(apiCfg, n.AdminBC)
	return n
}

// AddClient adds a logical client running on host.
func (w *World) AddClient(host string) *LClient {
	bc := w.Store.NewClient(fmt.Sprintf("c%d@%s", len(w.Clients), host))
	v3c := clientv3.NewFromBackend(apiCfg, bc)
	lc := &LClient{ID: len(w.Clients), Host: host, BC: bc, V3: v3c, IPAM: v3c.IPAM()}
	w.Clients = append(w.Clients, lc)
	return lc
}

// Tick advances and returns the logical clock used for operation call/return stamps.
func (w *World) Tick() int64 { return w.clock.Add(1) }

// AddrsOf lists every address of a (small) CIDR in canonical text form.
func AddrsOf(cidr string) []string {
	_, n, err := cnet.ParseCIDR(cidr)
	if err != nil {
		return nil
	}
	ones, bits := n.Mask.Size()
	if bits-ones > 12 {
		return nil
	}
	var out []string
	for i := 0; i < 1<<uint(bits-ones); i++ {
		out = append(out, n.NthIP(i).String())
	}
	return out
}

// BlockCIDRsOf lists the block CIDRs of a pool.
func BlockCIDRsOf(p PoolSpec) []string {
	_, n, err := net.ParseCIDR(p.CIDR)
	if err != nil {
		return nil
	}
	ones, bits := n.Mask.Size()
	if p.BlockSize < ones || p.BlockSize-ones > 12 {
		return nil
	}
	var out []string
	cn := cnet.IPNet{IPNet: *n}
	per := 1 << uint(bits-p.BlockSize)
	for i := 0; i < 1<<uint(p.BlockSize-ones); i++ {
		ip := cn.NthIP(i * per)
		out = append(out, fmt.Sprintf("%s/%d", ip.String(), p.BlockSize))
	}
	return out
}

// IsV6 reports whether the textual address (or CIDR) is IPv6.
func IsV6(a string) bool {
	for i := 0; i < len(a); i++ {
		if a[i] == ':' {
			return true
		}
	}
	return false
}

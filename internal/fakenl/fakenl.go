// Package fakenl is a fake of the kernel's rtnetlink route/link/neighbour interface behind
// felix/netlinkshim.Interface, for driving felix/routetable.RouteTable.
//
// What is modelled (and why this is the real behaviour):
//
//   - links: index, name, admin (IFF_UP) and operational (IFF_RUNNING) state.  Setting a link admin-down
//     or deleting it flushes every route that leaves through it (fib_disable_ip / fib_sync_down_dev), in
//     all tables; a re-created link gets a fresh index.
//   - routes are keyed by (family, table, destination prefix, tos, priority) as in the kernel FIB; IPv6
//     priority 0 is stored as 1024.  RouteReplace (NLM_F_CREATE|NLM_F_REPLACE) creates or replaces the
//     entry with that key whoever created it; it fails with ENODEV for an unknown output device and
//     ENETDOWN when the device is administratively down (unicast/local routes with a device).
//   - RouteDel selects by key; Protocol 0, Type 0, Scope RT_SCOPE_NOWHERE are wildcards, a given
//     device/gateway must match (fib_table_delete); ESRCH when nothing matches.
//   - RouteListFilteredIter filters by family and, according to the mask, table and output interface;
//     in strict mode a filter on an unknown device gives ENODEV.  A dump can be interrupted (EINTR)
//     after a prefix of the routes has been delivered.
//   - LinkByName returns netlink.LinkNotFoundError for a missing link.
//   - NeighSet stores a permanent neighbour entry; ENODEV for an unknown device.
//
// Not modelled: gateway reachability checks (ENETUNREACH), multipath next-hop validation beyond the
// device check, route metrics other than MTU, addresses and connected routes, rules, link types,
// netlink sequence/timeouts (a "timeout" is just an injected error), truly concurrent clients.
package fakenl

import (
	"errors"
	"fmt"
	"net"
	"sort"
	"sync"
	"syscall"
	"time"

	"github.com/vishvananda/netlink"
	"golang.org/x/sys/unix"

	"github.com/projectcalico/calico/felix/netlinkshim"
)

// Link is one interface.
type Link struct {
	Index   int
	Name    string
	AdminUp bool
	OperUp  bool
}

// RouteKey is the FIB key.
type RouteKey struct {
	Family   int
	Table    int
	Dst      string
	Tos      int
	Priority int
}

func (k RouteKey) String() string {
	return fmt.Sprintf("v%d table=%d %s tos=%d metric=%d", map[int]int{unix.AF_INET: 4, unix.AF_INET6: 6}[k.Family], k.Table, k.Dst, k.Tos, k.Priority)
}

// FaultPoint identifies a netlink call.
type FaultPoint struct {
	Op  string // new-handle | set-timeout | link-list | link-by-name | route-list | route-replace | route-del | neigh-set
	Seq int    // 1-based per Op
	Arg string
}

// Op is reported for every mutating call made through a handle.
type Op struct {
	Op      string // route-replace | route-del | neigh-set
	Key     RouteKey
	Route   netlink.Route  // the argument
	Old     *netlink.Route // what the key held before (nil if nothing)
	Err     error
	Fault   string
	Applied bool
}

// Kernel is the fake.
type Kernel struct {
	mu        sync.Mutex
	links     map[string]*Link
	nextIndex int
	routes    map[RouteKey]netlink.Route
	neighs    map[string]netlink.Neigh

	// Fault returns "" or an error name: "eintr" (route-list only), "eio", "enetdown", "enodev", "timeout".
	Fault func(p FaultPoint) string
	OnOp  func(op Op) // called with the kernel lock held

	seq map[string]int
	Log []string
}

// New returns an empty kernel (with lo as index 1).
func New() *Kernel {
	k := &Kernel{links: map[string]*Link{}, nextIndex: 2, routes: map[RouteKey]netlink.Route{}, neighs: map[string]netlink.Neigh{}, seq: map[string]int{}}
	k.links["lo"] = &Link{Index: 1, Name: "lo", AdminUp: true, OperUp: true}
	return k
}

func (k *Kernel) logf(f string, a ...any) {
	if len(k.Log) < 6000 {
		k.Log = append(k.Log, fmt.Sprintf(f, a...))
	}
}

// TailLog returns the last n log lines.
func (k *Kernel) TailLog(n int) []string {
	k.mu.Lock()
	defer k.mu.Unlock()
	if len(k.Log) <= n {
		return append([]string(nil), k.Log...)
	}
	return append([]string(nil), k.Log[len(k.Log)-n:]...)
}

// SeqCounts returns the number of calls per op.
func (k *Kernel) SeqCounts() map[string]int {
	k.mu.Lock()
	defer k.mu.Unlock()
	m := map[string]int{}
	for n, v := range k.seq {
		m[n] = v
	}
	return m
}

func famOf(ipn *net.IPNet, fallback int) int {
	if ipn == nil {
		return fallback
	}
	if ipn.IP.To4() != nil {
		return unix.AF_INET
	}
	return unix.AF_INET6
}

// KeyOf computes the FIB key of a route as the kernel would.
func KeyOf(r *netlink.Route) RouteKey {
	fam := r.Family
	if fam == 0 {
		fam = famOf(r.Dst, unix.AF_INET)
	}
	dst := "default"
	if r.Dst != nil {
		dst = r.Dst.String()
	}
	table := r.Table
	if table == 0 {
		table = unix.RT_TABLE_MAIN
	}
	prio := r.Priority
	if fam == unix.AF_INET6 && prio == 0 {
		prio = 1024
	}
	return RouteKey{Family: fam, Table: table, Dst: dst, Tos: r.Tos, Priority: prio}
}

func cloneRoute(r netlink.Route) netlink.Route {
	c := r
	if r.Dst != nil {
		d := *r.Dst
		d.IP = append(net.IP(nil), r.Dst.IP...)
		d.Mask = append(net.IPMask(nil), r.Dst.Mask...)
		c.Dst = &d
	}
	c.Gw = append(net.IP(nil), r.Gw...)
	c.Src = append(net.IP(nil), r.Src...)
	if len(r.Gw) == 0 {
		c.Gw = nil
	}
	if len(r.Src) == 0 {
		c.Src = nil
	}
	c.MultiPath = nil
	for _, nh := range r.MultiPath {
		n := *nh
		n.Gw = append(net.IP(nil), nh.Gw...)
		c.MultiPath = append(c.MultiPath, &n)
	}
	return c
}

// Describe renders a route canonically.
func Describe(r *netlink.Route) string {
	k := KeyOf(r)
	s := fmt.Sprintf("%s dev=%d type=%d scope=%d proto=%d gw=%v src=%v flags=%#x mtu=%d", k, r.LinkIndex, r.Type, r.Scope, r.Protocol, r.Gw, r.Src, r.Flags, r.MTU)
	for _, nh := range r.MultiPath {
		s += fmt.Sprintf(" nh(dev=%d gw=%v flags=%#x)", nh.LinkIndex, nh.Gw, nh.Flags)
	}
	return s
}

// ---- harness-side (out-of-band) API ----

// AddLink creates a link with a fresh index and returns it.
func (k *Kernel) AddLink(name string, adminUp, operUp bool) Link {
	k.mu.Lock()
	defer k.mu.Unlock()
	l := &Link{Index: k.nextIndex, Name: name, AdminUp: adminUp, OperUp: adminUp && operUp}
	k.nextIndex++
	k.links[name] = l
	k.logf("OOB link add %s idx=%d admin=%v oper=%v", name, l.Index, l.AdminUp, l.OperUp)
	return *l
}

// SetLink changes the state of a link; admin-down flushes its routes.  Returns false if missing.
func (k *Kernel) SetLink(name string, adminUp, operUp bool) (Link, bool) {
	k.mu.Lock()
	defer k.mu.Unlock()
	l, ok := k.links[name]
	if !ok {
		return Link{}, false
	}
	l.AdminUp, l.OperUp = adminUp, adminUp && operUp
	if !adminUp {
		k.flushDev(l.Index)
	}
	k.logf("OOB link set %s idx=%d admin=%v oper=%v", name, l.Index, l.AdminUp, l.OperUp)
	return *l, true
}

// DelLink deletes a link and flushes its routes.
func (k *Kernel) DelLink(name string) (Link, bool) {
	k.mu.Lock()
	defer k.mu.Unlock()
	l, ok := k.links[name]
	if !ok {
		return Link{}, false
	}
	delete(k.links, name)
	k.flushDev(l.Index)
	k.logf("OOB link del %s idx=%d", name, l.Index)
	return *l, true
}

func (k *Kernel) flushDev(idx int) {
	for key, r := range k.routes {
		if r.LinkIndex == idx {
			delete(k.routes, key)
			continue
		}
		for _, nh := range r.MultiPath {
			if nh.LinkIndex == idx {
				delete(k.routes, key)
				break
			}
		}
	}
	for key, n := range k.neighs {
		if n.LinkIndex == idx {
			delete(k.neighs, key)
		}
	}
}

// Links returns a copy of all links sorted by index.
func (k *Kernel) Links() []Link {
	k.mu.Lock()
	defer k.mu.Unlock()
	return k.linksLocked()
}

func (k *Kernel) linksLocked() []Link {
	var out []Link
	for _, l := range k.links {
		out = append(out, *l)
	}
	sort.Slice(out, func(i, j int) bool { return out[i].Index < out[j].Index })
	return out
}

// LinkByNameOOB returns the link or false.
func (k *Kernel) LinkByNameOOB(name string) (Link, bool) {
	k.mu.Lock()
	defer k.mu.Unlock()
	l, ok := k.links[name]
	if !ok {
		return Link{}, false
	}
	return *l, true
}

// PutRoute installs a route out of band (no validation).
func (k *Kernel) PutRoute(r netlink.Route) {
	k.mu.Lock()
	defer k.mu.Unlock()
	r = cloneRoute(r)
	key := KeyOf(&r)
	r.Family, r.Table, r.Priority = key.Family, key.Table, key.Priority
	k.routes[key] = r
	k.logf("OOB route put %s", Describe(&r))
}

// RemoveRoute removes a route out of band.
func (k *Kernel) RemoveRoute(key RouteKey) bool {
	k.mu.Lock()
	defer k.mu.Unlock()
	if _, ok := k.routes[key]; !ok {
		return false
	}
	delete(k.routes, key)
	k.logf("OOB route remove %s", key)
	return true
}

// Routes returns a copy of all routes.
func (k *Kernel) Routes() map[RouteKey]netlink.Route {
	k.mu.Lock()
	defer k.mu.Unlock()
	return k.routesLocked()
}

// RoutesLocked is Routes for use inside OnOp.
func (k *Kernel) RoutesLocked() map[RouteKey]netlink.Route { return k.routesLocked() }

func (k *Kernel) routesLocked() map[RouteKey]netlink.Route {
	out := make(map[RouteKey]netlink.Route, len(k.routes))
	for key, r := range k.routes {
		out[key] = cloneRoute(r)
	}
	return out
}

// LinkNameLocked resolves an index to a name ("" if unknown); for use inside OnOp.
func (k *Kernel) LinkNameLocked(idx int) string {
	for _, l := range k.links {
		if l.Index == idx {
			return l.Name
		}
	}
	return ""
}

// Neighs returns the neighbour table keys (sorted).
func (k *Kernel) Neighs() []string {
	k.mu.Lock()
	defer k.mu.Unlock()
	var out []string
	for key := range k.neighs {
		out = append(out, key)
	}
	sort.Strings(out)
	return out
}

// ---- the netlink handle ----

type handle struct {
	k      *Kernel
	closed bool
	strict bool
}

var _ netlinkshim.Interface = (*handle)(nil)

// ErrTimeout is what an injected socket timeout looks like.
var ErrTimeout = errors.New("receive failed: resource temporarily unavailable (netlink timeout)")

func faultErr(mode string) error {
	switch mode {
	case "":
		return nil
	case "eintr":
		return unix.EINTR
	case "enetdown":
		return syscall.ENETDOWN
	case "enodev":
		return unix.ENODEV
	case "timeout":
		return ErrTimeout
	case "eexist":
		return unix.EEXIST
	}
	return unix.EIO
}

func (k *Kernel) fault(op, arg string) string {
	k.seq[op]++
	if k.Fault == nil {
		return ""
	}
	return k.Fault(FaultPoint{Op: op, Seq: k.seq[op], Arg: arg})
}

// NewHandle is the function to pass to routetable.WithNetlinkHandleShim.
func (k *Kernel) NewHandle() (netlinkshim.Interface, error) {
	k.mu.Lock()
	defer k.mu.Unlock()
	if m := k.fault("new-handle", ""); m != "" {
		k.logf("new-handle FAULT(%s)", m)
		return nil, faultErr(m)
	}
	k.logf("new-handle")
	return &handle{k: k}, nil
}

func (h *handle) check() error {
	if h.closed {
		return errors.New("fakenl: use of a closed netlink handle")
	}
	return nil
}

func (h *handle) SetSocketTimeout(to time.Duration) error {
	h.k.mu.Lock()
	defer h.k.mu.Unlock()
	if m := h.k.fault("set-timeout", ""); m != "" {
		return faultErr(m)
	}
	return h.check()
}

func (h *handle) SetStrictCheck(b bool) error { h.strict = b; return h.check() }

func (h *handle) Delete() { h.closed = true }

func mkLink(l Link) netlink.Link {
	attrs := netlink.NewLinkAttrs()
	attrs.Index, attrs.Name = l.Index, l.Name
	if l.AdminUp {
		attrs.Flags |= net.FlagUp
		attrs.RawFlags |= syscall.IFF_UP
	}
	if l.OperUp {
		attrs.RawFlags |= syscall.IFF_RUNNING
		attrs.OperState = netlink.OperUp
	} else {
		attrs.OperState = netlink.OperDown
	}
	return &netlink.Dummy{LinkAttrs: attrs}
}

func (h *handle) LinkList() ([]netlink.Link, error) {
	h.k.mu.Lock()
	defer h.k.mu.Unlock()
	if err := h.check(); err != nil {
		return nil, err
	}
	if m := h.k.fault("link-list", ""); m != "" {
		h.k.logf("link-list FAULT(%s)", m)
		return nil, faultErr(m)
	}
	var out []netlink.Link
	for _, l := range h.k.linksLocked() {
		out = append(out, mkLink(l))
	}
	return out, nil
}

func (h *handle) LinkByName(name string) (netlink.Link, error) {
	h.k.mu.Lock()
	defer h.k.mu.Unlock()
	if err := h.check(); err != nil {
		return nil, err
	}
	if m := h.k.fault("link-by-name", name); m != "" {
		h.k.logf("link-by-name %s FAULT(%s)", name, m)
		return nil, faultErr(m)
	}
	l, ok := h.k.links[name]
	if !ok {
		return nil, netlink.LinkNotFoundError{}
	}
	return mkLink(*l), nil
}

func (h *handle) RouteListFiltered(family int, filter *netlink.Route, filterMask uint64) ([]netlink.Route, error) {
	var out []netlink.Route
	err := h.RouteListFilteredIter(family, filter, filterMask, func(r netlink.Route) bool { out = append(out, r); return true })
	return out, err
}

func (h *handle) RouteListFilteredIter(family int, filter *netlink.Route, filterMask uint64, f func(netlink.Route) (cont bool)) error {
	h.k.mu.Lock()
	if err := h.check(); err != nil {
		h.k.mu.Unlock()
		return err
	}
	arg := ""
	if filter != nil {
		arg = fmt.Sprintf("table=%d oif=%d mask=%#x", filter.Table, filter.LinkIndex, filterMask)
	}
	m := h.k.fault("route-list", arg)
	h.k.logf("route-list %s fault=%q", arg, m)
	if m != "" && m != "eintr" {
		h.k.mu.Unlock()
		return faultErr(m)
	}
	if filter != nil && filterMask&netlink.RT_FILTER_OIF != 0 && h.strict && filter.LinkIndex != 0 {
		found := false
		for _, l := range h.k.links {
			if l.Index == filter.LinkIndex {
				found = true
			}
		}
		if !found {
			h.k.mu.Unlock()
			return unix.ENODEV
		}
	}
	var keys []RouteKey
	for key := range h.k.routes {
		keys = append(keys, key)
	}
	sort.Slice(keys, func(i, j int) bool { return keys[i].String() < keys[j].String() })
	var out []netlink.Route
	for _, key := range keys {
		r := h.k.routes[key]
		if family != netlink.FAMILY_ALL && key.Family != family {
			continue
		}
		if filter != nil && filterMask&netlink.RT_FILTER_TABLE != 0 && key.Table != filter.Table {
			continue
		}
		if (filter == nil || filterMask&netlink.RT_FILTER_TABLE == 0) && key.Table != unix.RT_TABLE_MAIN {
			continue
		}
		if filter != nil && filterMask&netlink.RT_FILTER_OIF != 0 && r.LinkIndex != filter.LinkIndex {
			continue
		}
		out = append(out, cloneRoute(r))
	}
	if m == "eintr" {
		out = out[:len(out)/2]
	}
	h.k.mu.Unlock()
	// The callback runs without the kernel lock: it may call back into the route table only.
	for _, r := range out {
		if !f(r) {
			break
		}
	}
	if m == "eintr" {
		return unix.EINTR
	}
	return nil
}

func (h *handle) devCheck(idx int, needUp bool) error {
	if idx == 0 {
		return nil
	}
	for _, l := range h.k.links {
		if l.Index == idx {
			if needUp && !l.AdminUp {
				return syscall.ENETDOWN
			}
			return nil
		}
	}
	return unix.ENODEV
}

func (h *handle) RouteAdd(route *netlink.Route) error {
	return errors.New("fakenl: RouteAdd is not used by routetable and not implemented")
}

func (h *handle) RouteReplace(route *netlink.Route) error {
	k := h.k
	k.mu.Lock()
	defer k.mu.Unlock()
	if err := h.check(); err != nil {
		return err
	}
	r := cloneRoute(*route)
	key := KeyOf(&r)
	r.Family, r.Table, r.Priority = key.Family, key.Table, key.Priority
	op := Op{Op: "route-replace", Key: key, Route: r}
	if old, ok := k.routes[key]; ok {
		o := cloneRoute(old)
		op.Old = &o
	}
	if m := k.fault("route-replace", key.String()); m != "" {
		op.Fault, op.Err = m, faultErr(m)
		k.logf("route-replace FAULT(%s) %s", m, Describe(&r))
		if k.OnOp != nil {
			k.OnOp(op)
		}
		return op.Err
	}
	needUp := r.Type == unix.RTN_UNICAST || r.Type == unix.RTN_LOCAL || r.Type == 0
	err := h.devCheck(r.LinkIndex, needUp)
	if err == nil && r.Type == unix.RTN_UNICAST && r.LinkIndex == 0 && len(r.MultiPath) == 0 && r.Gw == nil {
		err = unix.ENODEV // a unicast route needs a device or a gateway
	}
	for _, nh := range r.MultiPath {
		if err == nil {
			err = h.devCheck(nh.LinkIndex, true)
		}
	}
	if err != nil {
		op.Err = err
		k.logf("route-replace REFUSED(%v) %s", err, Describe(&r))
		if k.OnOp != nil {
			k.OnOp(op)
		}
		return err
	}
	k.routes[key] = r
	op.Applied = true
	k.logf("route-replace ok %s", Describe(&r))
	if k.OnOp != nil {
		k.OnOp(op)
	}
	return nil
}

func (h *handle) RouteDel(route *netlink.Route) error {
	k := h.k
	k.mu.Lock()
	defer k.mu.Unlock()
	if err := h.check(); err != nil {
		return err
	}
	key := KeyOf(route)
	op := Op{Op: "route-del", Key: key, Route: cloneRoute(*route)}
	old, ok := k.routes[key]
	if ok {
		o := cloneRoute(old)
		op.Old = &o
	}
	if m := k.fault("route-del", key.String()); m != "" {
		op.Fault, op.Err = m, faultErr(m)
		k.logf("route-del FAULT(%s) %s", m, key)
		if k.OnOp != nil {
			k.OnOp(op)
		}
		return op.Err
	}
	match := ok &&
		(route.Protocol == 0 || route.Protocol == old.Protocol) &&
		(route.Type == 0 || route.Type == old.Type) &&
		(route.Scope == netlink.Scope(unix.RT_SCOPE_NOWHERE) || route.Scope == old.Scope) &&
		(route.LinkIndex == 0 || route.LinkIndex == old.LinkIndex) &&
		(route.Gw == nil || route.Gw.Equal(old.Gw))
	if !match {
		op.Err = unix.ESRCH
		k.logf("route-del ESRCH %s", key)
		if k.OnOp != nil {
			k.OnOp(op)
		}
		return unix.ESRCH
	}
	delete(k.routes, key)
	op.Applied = true
	k.logf("route-del ok %s (was %s)", key, Describe(&old))
	if k.OnOp != nil {
		k.OnOp(op)
	}
	return nil
}

func neighKey(n *netlink.Neigh) string { return fmt.Sprintf("dev=%d %s", n.LinkIndex, n.IP) }

func (h *handle) NeighSet(n *netlink.Neigh) error {
	k := h.k
	k.mu.Lock()
	defer k.mu.Unlock()
	if err := h.check(); err != nil {
		return err
	}
	if m := k.fault("neigh-set", neighKey(n)); m != "" {
		k.logf("neigh-set FAULT(%s) %s", m, neighKey(n))
		return faultErr(m)
	}
	if err := h.devCheck(n.LinkIndex, false); err != nil {
		return err
	}
	k.neighs[neighKey(n)] = *n
	k.logf("neigh-set ok %s lladdr=%s", neighKey(n), n.HardwareAddr)
	return nil
}

func (h *handle) NeighAdd(n *netlink.Neigh) error { return h.NeighSet(n) }

func (h *handle) NeighList(linkIndex, family int) ([]netlink.Neigh, error) {
	h.k.mu.Lock()
	defer h.k.mu.Unlock()
	var out []netlink.Neigh
	for _, n := range h.k.neighs {
		if linkIndex == 0 || n.LinkIndex == linkIndex {
			out = append(out, n)
		}
	}
	return out, nil
}

func (h *handle) NeighDel(n *netlink.Neigh) error {
	h.k.mu.Lock()
	defer h.k.mu.Unlock()
	delete(h.k.neighs, neighKey(n))
	return nil
}

var errUnsupported = errors.New("fakenl: operation not supported by the fake")

func (h *handle) LinkAdd(netlink.Link) error                      { return errUnsupported }
func (h *handle) LinkDel(netlink.Link) error                      { return errUnsupported }
func (h *handle) LinkSetMTU(netlink.Link, int) error              { return errUnsupported }
func (h *handle) LinkSetUp(netlink.Link) error                    { return errUnsupported }
func (h *handle) AddrList(netlink.Link, int) ([]netlink.Addr, error) { return nil, errUnsupported }
func (h *handle) AddrAdd(netlink.Link, *netlink.Addr) error       { return errUnsupported }
func (h *handle) AddrDel(netlink.Link, *netlink.Addr) error       { return errUnsupported }
func (h *handle) RuleList(int) ([]netlink.Rule, error)            { return nil, errUnsupported }
func (h *handle) RuleAdd(*netlink.Rule) error                     { return errUnsupported }
func (h *handle) RuleDel(*netlink.Rule) error                     { return errUnsupported }

// Package refpolicy is the reference semantics of Calico policy used as the oracle by the
// dataplane-rendering checks (C08, C09, C11, C12, C29, C30, C40 ...).
//
// It is written from the documentation of the data model (the comments on proto.Rule, the
// NetworkPolicy / GlobalNetworkPolicy / Tier / Profile reference pages and the comment block
// of rules.FilterRuleToIPVersion), NOT from any of the renderers.  It is deliberately small
// and direct: no optimisation, no mark bits, no chains.
//
// Stable API (other builders import this):
//
//	type Packet                        the fields policy can look at
//	type IPSets, IPSet, IPPort         id -> members; ParseIPSet / MustParseIPSets build them
//	ProtocolNumber(*proto.Protocol)    protocol name/number -> IP protocol number
//	RuleApplies(rule, ipVersion)       the documented IP-version rule (FilterRuleToIPVersion)
//	MatchRule(rule, pkt, sets)         does the rule match the packet (includes RuleApplies)
//	ActionOf(rule)                     Allow | Deny | Pass | Log
//	EvalRules(rules, pkt, sets)        first-match evaluation of a policy/profile rule list
//	Endpoint(ep, dir, kind, pkt, sets) tiers, pass, staged, end-of-tier default, profiles
//
// Nothing in here imports felix/rules, felix/iptables, felix/nftables, felix/bpf or
// felix/dataplane.
package refpolicy

import (
	"fmt"
	"net/netip"
	"strconv"
	"strings"

	"github.com/projectcalico/calico/felix/proto"
)

// IP protocol numbers of the protocols Calico knows by name.
const (
	ProtoICMP    = 1
	ProtoIPIP    = 4
	ProtoTCP     = 6
	ProtoUDP     = 17
	ProtoICMPv6  = 58
	ProtoSCTP    = 132
	ProtoUDPLite = 136
)

// Packet holds everything a policy rule can match on.
type Packet struct {
	IPVersion uint8 // 4 or 6
	Src, Dst  netip.Addr
	Proto     uint8
	// SrcPort/DstPort are meaningful only when Proto is TCP, UDP or SCTP.
	SrcPort, DstPort uint16
	// ICMPType/ICMPCode are meaningful only when Proto is ICMP (IPv4) or ICMPv6 (IPv6).
	ICMPType, ICMPCode uint8
}

func (p Packet) String() string {
	s := fmt.Sprintf("v%d %s->%s proto=%d", p.IPVersion, p.Src, p.Dst, p.Proto)
	if HasPorts(p.Proto) {
		s += fmt.Sprintf(" sport=%d dport=%d", p.SrcPort, p.DstPort)
	}
	if p.IsICMP() {
		s += fmt.Sprintf(" icmp=%d/%d", p.ICMPType, p.ICMPCode)
	}
	return s
}

// HasPorts reports whether the protocol carries the 16-bit source/destination ports that
// Calico port matches look at (TCP, UDP, SCTP - numorstring.Protocol.SupportsPorts).
func HasPorts(proto uint8) bool {
	return proto == ProtoTCP || proto == ProtoUDP || proto == ProtoSCTP
}

// IsICMP reports whether the packet is an ICMP message of its own IP family.
func (p Packet) IsICMP() bool {
	return (p.IPVersion == 4 && p.Proto == ProtoICMP) || (p.IPVersion == 6 && p.Proto == ProtoICMPv6)
}

// IPPort is one member of a named-port / service IP set: (address, protocol, port).
type IPPort struct {
	Addr  netip.Addr
	Proto uint8
	Port  uint16
}

// IPSet is the content of one IP set.  A set is either a set of CIDRs (selector sets, network
// sets, service-IP sets) or a set of (ip, protocol, port) triples (named ports, services with
// ports); a set never has both kinds of member.
type IPSet struct {
	Nets    []netip.Prefix
	IPPorts []IPPort
}

// IPSets maps IP set ID (as it appears in proto.Rule) to its content.  An ID that is absent
// behaves as the empty set.
type IPSets map[string]*IPSet

// ContainsAddr reports whether a is inside one of the set's CIDRs.
func (s *IPSet) ContainsAddr(a netip.Addr) bool {
	if s == nil {
		return false
	}
	for _, n := range s.Nets {
		if n.Contains(a) {
			return true
		}
	}
	return false
}

// ContainsIPPort reports whether (a, proto, port) is a member.
func (s *IPSet) ContainsIPPort(a netip.Addr, proto uint8, port uint16) bool {
	if s == nil {
		return false
	}
	for _, m := range s.IPPorts {
		if m.Addr == a && m.Proto == proto && m.Port == port {
			return true
		}
	}
	return false
}

// ParseIPSet parses members in the format Felix sends them to the dataplane
// (proto.IPSetUpdate): "10.0.0.0/24", "10.0.0.1", "fe80::1/128", or for named-port sets
// "10.0.0.1,tcp:8080" / "fe80::1,udp:53" (protocols tcp, udp, sctp).
func ParseIPSet(members []string) (*IPSet, error) {
	s := &IPSet{}
	for _, m := range members {
		if i := strings.IndexByte(m, ','); i >= 0 {
			a, err := netip.ParseAddr(m[:i])
			if err != nil {
				return nil, fmt.Errorf("bad ip,proto:port member %q: %v", m, err)
			}
			rest := m[i+1:]
			j := strings.IndexByte(rest, ':')
			if j < 0 {
				return nil, fmt.Errorf("bad ip,proto:port member %q", m)
			}
			pn, ok := protoByName[strings.ToLower(rest[:j])]
			if !ok {
				return nil, fmt.Errorf("bad protocol in member %q", m)
			}
			port, err := strconv.ParseUint(rest[j+1:], 10, 16)
			if err != nil {
				return nil, fmt.Errorf("bad port in member %q", m)
			}
			s.IPPorts = append(s.IPPorts, IPPort{Addr: a.Unmap(), Proto: pn, Port: uint16(port)})
			continue
		}
		if strings.Contains(m, "/") {
			p, err := netip.ParsePrefix(m)
			if err != nil {
				return nil, fmt.Errorf("bad CIDR member %q: %v", m, err)
			}
			s.Nets = append(s.Nets, p.Masked())
			continue
		}
		a, err := netip.ParseAddr(m)
		if err != nil {
			return nil, fmt.Errorf("bad member %q: %v", m, err)
		}
		s.Nets = append(s.Nets, netip.PrefixFrom(a, a.BitLen()))
	}
	if len(s.Nets) > 0 && len(s.IPPorts) > 0 {
		return nil, fmt.Errorf("IP set mixes CIDR and ip,proto:port members")
	}
	return s, nil
}

// MustParseIPSets converts id -> member strings into IPSets; it panics on a malformed member
// (generator bug).
func MustParseIPSets(in map[string][]string) IPSets {
	out := IPSets{}
	for id, ms := range in {
		s, err := ParseIPSet(ms)
		if err != nil {
			panic(fmt.Sprintf("refpolicy: IP set %q: %v", id, err))
		}
		out[id] = s
	}
	return out
}

var protoByName = map[string]uint8{
	"icmp":    ProtoICMP,
	"tcp":     ProtoTCP,
	"udp":     ProtoUDP,
	"icmpv6":  ProtoICMPv6,
	"sctp":    ProtoSCTP,
	"udplite": ProtoUDPLite,
}

// ProtocolNumber resolves a rule's protocol (name or number) to an IP protocol number.
// ok is false for nil and for a name Calico does not define.
func ProtocolNumber(p *proto.Protocol) (num uint8, ok bool) {
	if p == nil {
		return 0, false
	}
	switch v := p.NumberOrName.(type) {
	case *proto.Protocol_Number:
		if v.Number < 0 || v.Number > 255 {
			return 0, false
		}
		return uint8(v.Number), true
	case *proto.Protocol_Name:
		n, ok := protoByName[strings.ToLower(v.Name)]
		return n, ok
	}
	return 0, false
}

func netsOfFamily(cidrs []string, ipVersion uint8) (out []netip.Prefix, any bool) {
	for _, c := range cidrs {
		var p netip.Prefix
		var err error
		if strings.Contains(c, "/") {
			p, err = netip.ParsePrefix(c)
		} else {
			var a netip.Addr
			a, err = netip.ParseAddr(c)
			if err == nil {
				p = netip.PrefixFrom(a, a.BitLen())
			}
		}
		if err != nil {
			continue // not a CIDR Felix can receive
		}
		is6 := p.Addr().Is6() && !p.Addr().Is4In6()
		if is6 != (ipVersion == 6) {
			continue
		}
		out = append(out, p.Masked())
	}
	return out, len(out) > 0
}

func hasCatchAll(nets []netip.Prefix) bool {
	for _, n := range nets {
		if n.Bits() == 0 {
			return true
		}
	}
	return false
}

// RuleApplies implements the documented IP-version rule (comment block of
// rules.FilterRuleToIPVersion):
//
//   - a rule with an explicit IP version applies only to packets of that version;
//   - CIDRs of the other family are ignored, unless that would completely remove one of the
//     rule's CIDR match fields (src nets, !src nets, dst nets, !dst nets): then the rule has no
//     meaning for this family and does not apply at all;
//   - a negated catch-all CIDR (0.0.0.0/0 or ::/0) of this family can match nothing: the rule
//     does not apply.
func RuleApplies(r *proto.Rule, ipVersion uint8) bool {
	if r.IpVersion != proto.IPVersion_ANY && uint8(r.IpVersion) != ipVersion {
		return false
	}
	for i, f := range [][]string{r.SrcNet, r.NotSrcNet, r.DstNet, r.NotDstNet} {
		if len(f) == 0 {
			continue
		}
		nets, any := netsOfFamily(f, ipVersion)
		if !any {
			return false
		}
		negated := i == 1 || i == 3
		if negated && hasCatchAll(nets) {
			return false
		}
	}
	return true
}

func inAnyNet(nets []netip.Prefix, a netip.Addr) bool {
	for _, n := range nets {
		if n.Contains(a) {
			return true
		}
	}
	return false
}

func inAnyRange(ranges []*proto.PortRange, port uint16) bool {
	for _, pr := range ranges {
		if int32(port) >= pr.First && int32(port) <= pr.Last {
			return true
		}
	}
	return false
}

// portsMatch: "A packet matches this rule if it matches any numeric port range *or* any listed
// named port IP set" (proto.Rule).  Numeric ports exist only for TCP/UDP/SCTP packets; a
// named-port set holds (ip, protocol, port) triples and is matched on the packet's own
// address (source address for source ports, destination address for destination ports).
func portsMatch(ranges []*proto.PortRange, namedSets []string, addr netip.Addr, pkt *Packet, port uint16, sets IPSets) bool {
	if !HasPorts(pkt.Proto) {
		return false
	}
	if inAnyRange(ranges, port) {
		return true
	}
	for _, id := range namedSets {
		if sets[id].ContainsIPPort(addr, pkt.Proto, port) {
			return true
		}
	}
	return false
}

func icmpMatch(pkt *Packet, typ int32, code int32, withCode bool) bool {
	if !pkt.IsICMP() {
		return false
	}
	if int32(pkt.ICMPType) != typ {
		return false
	}
	return !withCode || int32(pkt.ICMPCode) == code
}

// MatchRule reports whether rule r matches packet pkt: the rule must apply to the packet's IP
// version (RuleApplies), every positive criterion that is present must hold and no negated
// criterion may hold.
func MatchRule(r *proto.Rule, pkt *Packet, sets IPSets) bool {
	if !RuleApplies(r, pkt.IPVersion) {
		return false
	}
	// ---- positive criteria
	if r.Protocol != nil {
		n, ok := ProtocolNumber(r.Protocol)
		if !ok || n != pkt.Proto {
			return false
		}
	}
	if len(r.SrcNet) > 0 {
		nets, _ := netsOfFamily(r.SrcNet, pkt.IPVersion)
		if !inAnyNet(nets, pkt.Src) {
			return false
		}
	}
	if len(r.DstNet) > 0 {
		nets, _ := netsOfFamily(r.DstNet, pkt.IPVersion)
		if !inAnyNet(nets, pkt.Dst) {
			return false
		}
	}
	for _, id := range r.SrcIpSetIds {
		if !sets[id].ContainsAddr(pkt.Src) {
			return false
		}
	}
	for _, id := range r.DstIpSetIds {
		if !sets[id].ContainsAddr(pkt.Dst) {
			return false
		}
	}
	for _, id := range r.DstIpPortSetIds {
		if !HasPorts(pkt.Proto) || !sets[id].ContainsIPPort(pkt.Dst, pkt.Proto, pkt.DstPort) {
			return false
		}
	}
	if len(r.SrcPorts) > 0 || len(r.SrcNamedPortIpSetIds) > 0 {
		if !portsMatch(r.SrcPorts, r.SrcNamedPortIpSetIds, pkt.Src, pkt, pkt.SrcPort, sets) {
			return false
		}
	}
	if len(r.DstPorts) > 0 || len(r.DstNamedPortIpSetIds) > 0 {
		if !portsMatch(r.DstPorts, r.DstNamedPortIpSetIds, pkt.Dst, pkt, pkt.DstPort, sets) {
			return false
		}
	}
	switch ic := r.Icmp.(type) {
	case *proto.Rule_IcmpType:
		if !icmpMatch(pkt, ic.IcmpType, 0, false) {
			return false
		}
	case *proto.Rule_IcmpTypeCode:
		if !icmpMatch(pkt, ic.IcmpTypeCode.Type, ic.IcmpTypeCode.Code, true) {
			return false
		}
	}
	// ---- negated criteria
	if r.NotProtocol != nil {
		if n, ok := ProtocolNumber(r.NotProtocol); ok && n == pkt.Proto {
			return false
		}
	}
	if len(r.NotSrcNet) > 0 {
		nets, _ := netsOfFamily(r.NotSrcNet, pkt.IPVersion)
		if inAnyNet(nets, pkt.Src) {
			return false
		}
	}
	if len(r.NotDstNet) > 0 {
		nets, _ := netsOfFamily(r.NotDstNet, pkt.IPVersion)
		if inAnyNet(nets, pkt.Dst) {
			return false
		}
	}
	for _, id := range r.NotSrcIpSetIds {
		if sets[id].ContainsAddr(pkt.Src) {
			return false
		}
	}
	for _, id := range r.NotDstIpSetIds {
		if sets[id].ContainsAddr(pkt.Dst) {
			return false
		}
	}
	if len(r.NotSrcPorts) > 0 || len(r.NotSrcNamedPortIpSetIds) > 0 {
		if portsMatch(r.NotSrcPorts, r.NotSrcNamedPortIpSetIds, pkt.Src, pkt, pkt.SrcPort, sets) {
			return false
		}
	}
	if len(r.NotDstPorts) > 0 || len(r.NotDstNamedPortIpSetIds) > 0 {
		if portsMatch(r.NotDstPorts, r.NotDstNamedPortIpSetIds, pkt.Dst, pkt, pkt.DstPort, sets) {
			return false
		}
	}
	switch ic := r.NotIcmp.(type) {
	case *proto.Rule_NotIcmpType:
		if icmpMatch(pkt, ic.NotIcmpType, 0, false) {
			return false
		}
	case *proto.Rule_NotIcmpTypeCode:
		if icmpMatch(pkt, ic.NotIcmpTypeCode.Type, ic.NotIcmpTypeCode.Code, true) {
			return false
		}
	}
	return true
}

// Action is what a rule does when it matches.
type Action int

const (
	NoMatch Action = iota // no rule decided
	Allow
	Deny
	Pass
	Log // non-terminal: logs and evaluation continues with the next rule
)

func (a Action) String() string {
	return [...]string{"no-match", "allow", "deny", "pass", "log"}[a]
}

// ActionOf maps the rule's action string ("" and "allow" = Allow, "deny", "pass" and its
// historical API name "next-tier", "log").  ok is false for anything else.
func ActionOf(r *proto.Rule) (Action, bool) {
	switch strings.ToLower(r.Action) {
	case "", "allow":
		return Allow, true
	case "deny":
		return Deny, true
	case "pass", "next-tier":
		return Pass, true
	case "log":
		return Log, true
	}
	return NoMatch, false
}

// RulesResult is the outcome of evaluating one ordered rule list (one direction of a policy or
// profile).
type RulesResult struct {
	Action  Action // Allow, Deny, Pass or NoMatch
	Index   int    // index of the deciding rule, -1 for NoMatch
	LogHits []int  // indexes of matching log rules that were passed on the way
}

// EvalRules: the first matching rule whose action is allow, deny or pass decides; a matching
// log rule logs and evaluation continues.
func EvalRules(rules []*proto.Rule, pkt *Packet, sets IPSets) RulesResult {
	res := RulesResult{Index: -1}
	for i, r := range rules {
		if !MatchRule(r, pkt, sets) {
			continue
		}
		a, ok := ActionOf(r)
		if !ok {
			continue
		}
		if a == Log {
			res.LogHits = append(res.LogHits, i)
			continue
		}
		res.Action, res.Index = a, i
		return res
	}
	return res
}

// Direction of traffic relative to the endpoint.
type Direction int

const (
	Ingress Direction = iota // to the endpoint (inbound rules)
	Egress                   // from the endpoint (outbound rules)
)

func (d Direction) String() string {
	if d == Ingress {
		return "ingress"
	}
	return "egress"
}

// Kind selects which family of an endpoint's policy is being evaluated.
type Kind int

const (
	// KindNormal: workload endpoints, and host endpoints' normal (to/from the host itself)
	// policy.  Tiers, then profiles, then default deny.
	KindNormal Kind = iota
	// KindUntracked: host endpoint doNotTrack policy (raw table).  No profiles; a tier never
	// denies by default; nothing matched = no verdict (normal policy decides later).
	KindUntracked
	// KindPreDNAT: host endpoint preDNAT policy.  As untracked.
	KindPreDNAT
	// KindForward: host endpoint applyOnForward policy for forwarded traffic.  End-of-tier
	// default applies; no profiles; with no tiers at all forwarded traffic is allowed; if the
	// last tier passes, no verdict.
	KindForward
)

func (k Kind) String() string {
	return [...]string{"normal", "untracked", "pre-dnat", "forward"}[k]
}

// Policy is one policy as an endpoint sees it.
type Policy struct {
	Name     string
	Staged   bool // Staged(Global|Kubernetes)NetworkPolicy: never affects the verdict
	Inbound  []*proto.Rule
	Outbound []*proto.Rule
}

// Tier is one tier of an endpoint: the ordered policies that apply to the endpoint for
// ingress and for egress (a policy appears in a list only if it has that policy type).
type Tier struct {
	Name          string
	DefaultAction string // "Deny" (also "") or "Pass"
	Ingress       []*Policy
	Egress        []*Policy
}

// Profile is one profile's rules.
type Profile struct {
	Name     string
	Inbound  []*proto.Rule
	Outbound []*proto.Rule
}

// EndpointPolicy is everything attached to an endpoint for one Kind.
type EndpointPolicy struct {
	Tiers    []*Tier
	Profiles []*Profile // consulted for KindNormal only
}

// Verdict of an endpoint for a packet.
type Verdict int

const (
	// NoVerdict: policy of this kind said nothing (possible for untracked, pre-DNAT and forward
	// kinds only); later stages decide.
	NoVerdict Verdict = iota
	Allowed
	Denied
)

func (v Verdict) String() string { return [...]string{"no-verdict", "allowed", "denied"}[v] }

// Decision is a Verdict with the reason, for witnesses.
type Decision struct {
	Verdict Verdict
	// Why is one of: "policy" (Tier/Policy/Rule identify the rule), "end-of-tier" (Tier),
	// "profile" (Policy = profile name, Rule), "profile-pass", "no-profile-match",
	// "forward-no-tiers", "fell-through".
	Why    string
	Tier   string
	Policy string
	Rule   int
	// Ambiguous is set in the one case the documentation leaves open: a "pass" rule matched in
	// a profile (reported as Denied / "profile-pass") and a LATER profile of the endpoint
	// would have allowed the packet.  The iptables/nftables dataplanes go on to the next
	// profile, the BPF dataplane denies at once.  Checks should not judge such a packet.
	Ambiguous bool
}

func (d Decision) String() string {
	return fmt.Sprintf("%s (%s tier=%q policy=%q rule=%d)", d.Verdict, d.Why, d.Tier, d.Policy, d.Rule)
}

// Endpoint evaluates an endpoint's policy for one packet in one direction:
//
//   - tiers are evaluated in order; within a tier only the policies listed for the direction,
//     in order; staged policies are skipped entirely;
//   - the first matching allow or deny rule is final; pass moves on to the next tier;
//   - a tier that has at least one enforced (non-staged) policy for the direction and in which
//     no rule matched denies the packet, unless the tier's default action is Pass, in which
//     case evaluation moves on to the next tier (for untracked and pre-DNAT kinds a tier never
//     denies by default and evaluation always moves on);
//   - KindNormal: after the tiers (all passed / empty) the profiles are evaluated in order;
//     allow and deny are final; a pass in a profile is NOT an allow: it is reported as Denied
//     (see Decision.Ambiguous for the one case that leaves open); a packet that no profile
//     allowed is denied;
//   - KindForward: with no tiers at all, allowed; otherwise if the tiers end without a
//     verdict, NoVerdict;
//   - KindUntracked / KindPreDNAT: if the tiers end without a verdict, NoVerdict.
func Endpoint(ep *EndpointPolicy, dir Direction, kind Kind, pkt *Packet, sets IPSets) Decision {
	for _, t := range ep.Tiers {
		pols := t.Ingress
		if dir == Egress {
			pols = t.Egress
		}
		enforced := 0
		passed := false
	policies:
		for _, p := range pols {
			if p.Staged {
				continue
			}
			enforced++
			rules := p.Inbound
			if dir == Egress {
				rules = p.Outbound
			}
			res := EvalRules(rules, pkt, sets)
			switch res.Action {
			case Allow:
				return Decision{Verdict: Allowed, Why: "policy", Tier: t.Name, Policy: p.Name, Rule: res.Index}
			case Deny:
				return Decision{Verdict: Denied, Why: "policy", Tier: t.Name, Policy: p.Name, Rule: res.Index}
			case Pass:
				passed = true
				break policies
			}
		}
		if passed || enforced == 0 {
			continue
		}
		if kind == KindUntracked || kind == KindPreDNAT {
			continue
		}
		if !strings.EqualFold(t.DefaultAction, "Pass") {
			return Decision{Verdict: Denied, Why: "end-of-tier", Tier: t.Name, Rule: -1}
		}
	}
	switch kind {
	case KindNormal:
		for i, pr := range ep.Profiles {
			rules := pr.Inbound
			if dir == Egress {
				rules = pr.Outbound
			}
			res := EvalRules(rules, pkt, sets)
			switch res.Action {
			case Allow:
				return Decision{Verdict: Allowed, Why: "profile", Policy: pr.Name, Rule: res.Index}
			case Deny:
				return Decision{Verdict: Denied, Why: "profile", Policy: pr.Name, Rule: res.Index}
			case Pass:
				d := Decision{Verdict: Denied, Why: "profile-pass", Policy: pr.Name, Rule: res.Index}
				// Would a later profile have allowed it?  Then the outcome is not defined
				// by the documentation and the dataplanes are known to differ.
				for _, later := range ep.Profiles[i+1:] {
					lr := later.Inbound
					if dir == Egress {
						lr = later.Outbound
					}
					if EvalRules(lr, pkt, sets).Action == Allow {
						d.Ambiguous = true
					}
				}
				return d
			}
		}
		return Decision{Verdict: Denied, Why: "no-profile-match", Rule: -1}
	case KindForward:
		if len(ep.Tiers) == 0 {
			return Decision{Verdict: Allowed, Why: "forward-no-tiers", Rule: -1}
		}
	}
	return Decision{Verdict: NoVerdict, Why: "fell-through", Rule: -1}
}

// Package harness is the worker side of every /verif check.
//
// A check is a `package main` under /verif/checks/<id>/ that calls harness.Main with a Check
// value.  The runner (/verif/vcheck) builds it from /repo's working tree, starts one worker
// process per shard and merges the shard result files into /verif/evidence/<id>.json.
//
// Ground rules enforced here (DESIGN.md §0): fixed case lists (case i of property P uses seed
// splitmix64(VERIF_SEED ^ hash(P) ^ i)), three-valued verdicts (held / violated / inconclusive),
// a progress file written before each case so that a process-fatal error in the code under test
// still names the case that caused it, and measured (not derived) coverage counts.
package harness

import (
	"encoding/json"
	"flag"
	"fmt"
	"hash/fnv"
	"math/rand"
	"os"
	"path/filepath"
	"runtime/debug"
	"sort"
	"strings"
	"sync"
	"time"
)

// Check describes one property check.
type Check struct {
	ID          string   // "C07"
	Level       string   // evidence level: exploration | fault_enumeration | ...
	Rule        string   // how cases are generated and what makes one non-trivial
	Assumptions []string // trusted base
	Exhaustive  bool     // the case list enumerates a finite space completely
	// Cases returns the number of cases of a tier ("quick" or "thorough").
	Cases func(tier string) int
	// Run executes one case.  It must derive every random choice from c.R.
	Run func(c *Case)
	// Floors: minimum totals (summed over all shards) of named counters below which the run is a
	// harness error (the monitor observed nothing).  Checked by the runner.
	Floors map[string]int64
	// Setup, if set, runs once per worker before the first case.
	Setup func(tier string) error
	// CaseTimeout is the wall-clock watchdog per case (default 120s).  Firing = inconclusive.
	CaseTimeout time.Duration
}

// Violation is one refutation of the property, with its witness.
type Violation struct {
	Property string `json:"property"`
	Key      string `json:"key"` // stable identity used to match known_findings.json
	Message  string `json:"message"`
	Case     int    `json:"case"`
	CaseSeed uint64 `json:"case_seed"`
	Seed     int64  `json:"seed"`
	Tier     string `json:"tier"`
	Detail   any    `json:"detail,omitempty"`
	Replay   string `json:"replay"`
}

// Case is the context handed to Check.Run.
type Case struct {
	Index int
	Seed  uint64
	R     *rand.Rand
	Tier  string

	w          *worker
	nontrivial bool
	fp         uint64
	violated   bool
	inconcl    string
}

// Thorough reports whether the tier is "thorough".
func (c *Case) Thorough() bool { return c.Tier == "thorough" }

// Pick returns q for the quick tier and t for the thorough tier.
func (c *Case) Pick(q, t int) int {
	if c.Thorough() {
		return t
	}
	return q
}

// NonTrivial marks the case as non-trivial by the check's rule; parts identify the case for
// the distinct count (they are hashed).
func (c *Case) NonTrivial(parts ...any) {
	c.nontrivial = true
	c.fp = Fingerprint(parts...)
}

// Violationf records a violation.  key must be stable across runs for the same defect (it is
// matched against known_findings.json); detail is stored in the replay file.
func (c *Case) Violationf(key string, detail any, format string, args ...any) {
	c.violated = true
	c.w.addViolation(c, key, fmt.Sprintf(format, args...), detail)
}

// Inconclusive marks the case as neither held nor violated.
func (c *Case) Inconclusive(reason string) { c.inconcl = reason }

// Sample offers an actual case for the evidence file (the first few per shard are kept).
func (c *Case) Sample(v any) { c.w.addSample(v) }

// Count adds n to a named measured counter (events observed, fault points hit, ...).
func (c *Case) Count(name string, n int64) { c.w.count(name, n) }

// Distinct records fp in the named distinct-set (distinct schedules, final states, ...).
func (c *Case) Distinct(name string, parts ...any) { c.w.distinct(name, Fingerprint(parts...)) }

// Failed reports whether a violation has already been recorded for this case.
func (c *Case) Failed() bool { return c.violated }

// Fingerprint hashes its arguments (via %#v for non-string values).
func Fingerprint(parts ...any) uint64 {
	h := fnv.New64a()
	for _, p := range parts {
		switch v := p.(type) {
		case string:
			h.Write([]byte(v))
		case []byte:
			h.Write(v)
		default:
			fmt.Fprintf(h, "%#v", v)
		}
		h.Write([]byte{0})
	}
	return h.Sum64()
}

func splitmix64(x uint64) uint64 {
	x += 0x9e3779b97f4a7c15
	x = (x ^ (x >> 30)) * 0xbf58476d1ce4e5b9
	x = (x ^ (x >> 27)) * 0x94d049bb133111eb
	return x ^ (x >> 31)
}

// CaseSeed is the PRNG seed of case i of property id under VERIF_SEED seed.
func CaseSeed(seed int64, id string, i int) uint64 {
	h := fnv.New64a()
	h.Write([]byte(id))
	return splitmix64(uint64(seed) ^ h.Sum64() ^ splitmix64(uint64(i)+1))
}

type shardResult struct {
	Property     string            `json:"property"`
	Tier         string            `json:"tier"`
	Seed         int64             `json:"seed"`
	Shard        int               `json:"shard"`
	NShards      int               `json:"nshards"`
	Level        string            `json:"level"`
	Rule         string            `json:"rule"`
	Assumptions  []string          `json:"assumptions"`
	Exhaustive   bool              `json:"exhaustive"`
	TotalCases   int               `json:"total_cases"`
	Evaluations  int               `json:"evaluations"`
	Held         int               `json:"held"`
	Inconclusive map[string]int    `json:"inconclusive"`
	NonTrivial   int               `json:"nontrivial"`
	FPs          []string          `json:"fps"`
	FPOverflow   bool              `json:"fp_overflow"`
	Samples      []json.RawMessage `json:"samples"`
	Violations   []Violation       `json:"violations"`
	Counters     map[string]int64  `json:"counters"`
	DistinctSets map[string][]string `json:"distinct_sets"`
	DistinctOver map[string]bool   `json:"distinct_overflow"`
	Floors       map[string]int64  `json:"floors"`
	WallS        float64           `json:"wall_s"`
	Complete     bool              `json:"complete"`
}

const maxFPs = 400000
const maxSamples = 4

type worker struct {
	chk       *Check
	mu        sync.Mutex
	res       shardResult
	fps       map[uint64]struct{}
	dsets     map[string]map[uint64]struct{}
	replayDir string
}

func (w *worker) addViolation(c *Case, key, msg string, detail any) {
	w.mu.Lock()
	defer w.mu.Unlock()
	v := Violation{Property: w.chk.ID, Key: key, Message: msg, Case: c.Index, CaseSeed: c.Seed,
		Seed: w.res.Seed, Tier: w.res.Tier, Detail: detail}
	// one replay file per (case,key); keep the number of recorded violations bounded
	if len(w.res.Violations) < 50 {
		_ = os.MkdirAll(w.replayDir, 0o755)
		name := fmt.Sprintf("%d-%s-%d-%x.json", w.res.Seed, w.res.Tier, c.Index, Fingerprint(key)&0xffff)
		v.Replay = filepath.Join(w.replayDir, name)
		b, err := json.MarshalIndent(v, "", " ")
		if err != nil {
			v.Detail = fmt.Sprintf("%+v", detail)
			b, _ = json.MarshalIndent(v, "", " ")
		}
		_ = os.WriteFile(v.Replay, b, 0o644)
		w.res.Violations = append(w.res.Violations, v)
	}
}

func (w *worker) addSample(v any) {
	w.mu.Lock()
	defer w.mu.Unlock()
	if len(w.res.Samples) >= maxSamples {
		return
	}
	b, err := json.Marshal(v)
	if err != nil {
		b, _ = json.Marshal(fmt.Sprintf("%+v", v))
	}
	if len(b) > 6000 {
		b, _ = json.Marshal(string(b[:6000]) + "...(truncated)")
	}
	w.res.Samples = append(w.res.Samples, b)
}

func (w *worker) count(name string, n int64) {
	w.mu.Lock()
	w.res.Counters[name] += n
	w.mu.Unlock()
}

func (w *worker) distinct(name string, fp uint64) {
	w.mu.Lock()
	defer w.mu.Unlock()
	s := w.dsets[name]
	if s == nil {
		s = map[uint64]struct{}{}
		w.dsets[name] = s
	}
	if len(s) >= maxFPs {
		w.res.DistinctOver[name] = true
		return
	}
	s[fp] = struct{}{}
}

// Main is the entry point of every check binary.
func Main(chk Check) {
	tier := flag.String("tier", "quick", "quick|thorough")
	seed := flag.Int64("seed", 1, "VERIF_SEED")
	shard := flag.Int("shard", 0, "shard index")
	nshards := flag.Int("nshards", 1, "number of shards")
	out := flag.String("out", "", "result file")
	only := flag.Int("case", -1, "run only this case index (replay)")
	progress := flag.String("progress", "", "progress file (case about to run)")
	replayDir := flag.String("replays", "/verif/replays/"+chk.ID, "replay directory")
	maxCases := flag.Int("max-cases", -1, "override the number of cases")
	flag.Parse()

	if chk.CaseTimeout == 0 {
		chk.CaseTimeout = 120 * time.Second
	}
	w := &worker{chk: &chk, fps: map[uint64]struct{}{}, dsets: map[string]map[uint64]struct{}{}, replayDir: *replayDir}
	total := chk.Cases(*tier)
	if *maxCases >= 0 {
		total = *maxCases
	}
	w.res = shardResult{Property: chk.ID, Tier: *tier, Seed: *seed, Shard: *shard, NShards: *nshards,
		Level: chk.Level, Rule: chk.Rule, Assumptions: chk.Assumptions, Exhaustive: chk.Exhaustive,
		TotalCases: total, Inconclusive: map[string]int{}, Counters: map[string]int64{},
		DistinctOver: map[string]bool{}, Floors: chk.Floors}
	start := time.Now()
	flush := func(complete bool) {
		w.mu.Lock()
		defer w.mu.Unlock()
		w.res.Complete = complete
		w.res.WallS = time.Since(start).Seconds()
		w.res.FPs = w.res.FPs[:0]
		for fp := range w.fps {
			w.res.FPs = append(w.res.FPs, fmt.Sprintf("%x", fp))
		}
		sort.Strings(w.res.FPs)
		w.res.DistinctSets = map[string][]string{}
		for n, s := range w.dsets {
			l := make([]string, 0, len(s))
			for fp := range s {
				l = append(l, fmt.Sprintf("%x", fp))
			}
			sort.Strings(l)
			w.res.DistinctSets[n] = l
		}
		if *out != "" {
			b, _ := json.Marshal(&w.res)
			tmp := *out + ".tmp"
			_ = os.WriteFile(tmp, b, 0o644)
			_ = os.Rename(tmp, *out)
		}
	}
	if chk.Setup != nil {
		if err := chk.Setup(*tier); err != nil {
			fmt.Fprintf(os.Stderr, "HARNESS-ERROR setup: %v\n", err)
			os.Exit(2)
		}
	}
	for i := 0; i < total; i++ {
		if *only >= 0 {
			if i != *only {
				continue
			}
		} else if i%*nshards != *shard {
			continue
		}
		cs := CaseSeed(*seed, chk.ID, i)
		if *progress != "" {
			_ = os.WriteFile(*progress, []byte(fmt.Sprintf("{\"case\":%d,\"case_seed\":%d,\"seed\":%d,\"tier\":%q}\n", i, cs, *seed, *tier)), 0o644)
		}
		c := &Case{Index: i, Seed: cs, R: rand.New(rand.NewSource(int64(cs))), Tier: *tier, w: w}
		runCase(&chk, c)
		w.mu.Lock()
		w.res.Evaluations++
		switch {
		case c.violated:
		case c.inconcl != "":
			w.res.Inconclusive[c.inconcl]++
		default:
			w.res.Held++
		}
		if c.nontrivial {
			w.res.NonTrivial++
			if len(w.fps) < maxFPs {
				w.fps[c.fp] = struct{}{}
			} else {
				w.res.FPOverflow = true
			}
		}
		w.mu.Unlock()
		if *only >= 0 {
			break
		}
	}
	flush(true)
	w.mu.Lock()
	nv := len(w.res.Violations)
	w.mu.Unlock()
	if *only >= 0 {
		for _, v := range w.res.Violations {
			fmt.Printf("VIOLATION property=%s replay=%s key=%s :: %s\n", v.Property, v.Replay, v.Key, v.Message)
		}
	}
	if nv > 0 {
		os.Exit(1)
	}
}

func runCase(chk *Check, c *Case) {
	done := make(chan struct{})
	go func() {
		defer close(done)
		defer func() {
			if r := recover(); r != nil {
				st := string(debug.Stack())
				c.Violationf("panic:"+panicSite(st), map[string]any{"panic": fmt.Sprint(r), "stack": st},
					"panic while running the code under test: %v", r)
			}
		}()
		chk.Run(c)
	}()
	select {
	case <-done:
	case <-time.After(chk.CaseTimeout):
		// The goroutine is leaked; the case is inconclusive, never a violation.
		c.Inconclusive("watchdog")
	}
}

// panicSite extracts the innermost non-runtime frame from a stack dump, for a stable key.
func panicSite(st string) string {
	lines := strings.Split(st, "\n")
	seenPanic := false
	for _, l := range lines {
		if strings.HasPrefix(l, "panic(") {
			seenPanic = true
			continue
		}
		if !seenPanic || strings.HasPrefix(l, "\t") || l == "" {
			continue
		}
		if strings.HasPrefix(l, "runtime.") || strings.HasPrefix(l, "runtime/") {
			continue
		}
		if i := strings.LastIndex(l, "("); i > 0 {
			l = l[:i]
		}
		return l
	}
	return "unknown"
}

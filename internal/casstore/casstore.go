// Package casstore is an in-memory compare-and-swap datastore that implements
// libcalico-go/lib/backend/api.Client with etcd-v3-like semantics, for driving the real calico
// IPAM code (and anything else that only needs a backend client) under deterministic schedules,
// injected faults and online invariant monitors.
//
// # Model
//
// One Store holds a map "etcd path -> (serialised value, mod revision)" and a global revision
// counter that is incremented by every committed write (Create/Update/Apply/Delete), exactly as
// etcd's header revision.  Keys and values go through the repo's own model.KeyToDefaultPath /
// model.SerializeValue / model.ParseValue, so whatever a caller passes in is serialised on the way
// in and freshly parsed on the way out: no pointer is ever shared between two clients or between a
// client and the store.
//
// Semantics (copied from libcalico-go/lib/backend/etcdv3):
//
//	Create  existing key                     -> ErrorResourceAlreadyExists (+ current KVPair)
//	Update  missing key                      -> ErrorResourceDoesNotExist
//	Update  revision != stored mod revision  -> ErrorResourceUpdateConflict (+ current KVPair)
//	Update  empty / unparsable revision      -> ErrorValidation (as etcdv3.parseRevision)
//	Apply   unconditional put
//	Delete  revision "" unconditional; missing -> ErrorResourceDoesNotExist; stale -> ErrorResourceUpdateConflict
//	Get     missing                          -> ErrorResourceDoesNotExist
//	List    prefix scan filtered through ListInterface.KeyFromDefaultPath, sorted by path,
//	        KVPairList.Revision = current global revision
//	Watch   optional initial ADDED events (no revision given) then ADDED/MODIFIED/DELETED events
//
// On a successful Create/Update/Apply the passed-in KVPair is updated in place (Value replaced by
// a freshly parsed copy, Revision set) and returned, as the etcd backend does.
//
// # Clients
//
// Every operation goes through a *Client handle obtained from Store.NewClient, so each operation
// is attributed to one logical client.  A client can be killed (Client.Kill or the CrashAfter
// fault): every later operation of a dead client fails immediately with ErrClientCrashed and has
// no effect, which for the datastore is indistinguishable from a process that stopped running.
//
// # Hooks (all optional, set them before the store is used concurrently)
//
//	Store.PreOp    called by the client's goroutine BEFORE the operation, without the store lock.
//	               It may block (this is where internal/dsched parks goroutines) and returns the
//	               Fault to inject into this operation.
//	Store.OnCommit called UNDER the store lock after every committed write, with the old and new
//	               raw values and a View of the whole store: the place for online invariant monitors.
//	Store.PostOp   called after the operation completed (without the lock) with the outcome filled
//	               into the Op (Err, Committed, Rev, Applied fault).
//
// Clients created with NewAdminClient bypass PreOp/PostOp (never scheduled, never faulted); their
// commits still reach OnCommit with Write.Admin set.
//
// # Virtual time
//
// Store.ShiftTimestamps(d) moves every stored block timestamp (AllocationAttribute.ReleasedAt,
// AllocationBlock.AffinityClaimTime) back by d without touching revisions: for code that compares
// time.Now() with stored stamps this is the same as d of time passing.
//
// Not modelled: TTLs/leases, historical reads (Get/List at a revision), the etcd backend's policy
// name annotations and the static default-allow profile.
package casstore

import (
	"context"
	"errors"
	"fmt"
	"sort"
	"strconv"
	"strings"
	"sync"
	"sync/atomic"
	"time"

	apiv3 "github.com/projectcalico/api/pkg/apis/projectcalico/v3"
	metav1 "k8s.io/apimachinery/pkg/apis/meta/v1"
	"k8s.io/apimachinery/pkg/labels"

	"github.com/projectcalico/calico/libcalico-go/lib/apis/internalapi"
	bapi "github.com/projectcalico/calico/libcalico-go/lib/backend/api"
	"github.com/projectcalico/calico/libcalico-go/lib/backend/model"
	cerrors "github.com/projectcalico/calico/libcalico-go/lib/errors"
)

// OpKind identifies a backend operation.
type OpKind int

const (
	OpCreate OpKind = iota
	OpUpdate
	OpApply
	OpDelete
	OpGet
	OpList
	OpWatch
)

func (k OpKind) String() string {
	switch k {
	case OpCreate:
		return "create"
	case OpUpdate:
		return "update"
	case OpApply:
		return "apply"
	case OpDelete:
		return "delete"
	case OpGet:
		return "get"
	case OpList:
		return "list"
	case OpWatch:
		return "watch"
	}
	return "op?"
}

// IsWrite reports whether operations of this kind can commit a write.
func (k OpKind) IsWrite() bool { return k <= OpDelete }

// Fault is what the PreOp hook asks the store to do to one operation.
type Fault int

const (
	// FaultNone: perform the operation normally.
	FaultNone Fault = iota
	// FaultAbortBefore: the operation is abandoned; nothing is read or written and the caller
	// gets ErrorDatastoreError{ErrInjectedAbort}.  Applies to every kind of operation.
	FaultAbortBefore
	// FaultLostReply: the operation is performed (a write that would succeed IS committed) but
	// the caller gets ErrorDatastoreError{ErrInjectedTimeout} instead of the result.
	// On reads it degrades to FaultAbortBefore.
	FaultLostReply
	// FaultSpuriousConflict: an Update, or a Delete with a revision, of an existing key returns
	// ErrorResourceUpdateConflict (with the current KVPair) although it was not attempted;
	// nothing is written.  Not applicable (ignored) on other operations and on missing keys.
	FaultSpuriousConflict
	// FaultCrashAfter: the operation is performed (a write that would succeed IS committed),
	// then the client is killed; the caller gets ErrClientCrashed and so does every later
	// operation of that client.
	FaultCrashAfter
)

func (f Fault) String() string {
	switch f {
	case FaultNone:
		return "none"
	case FaultAbortBefore:
		return "abort-before"
	case FaultLostReply:
		return "lost-reply"
	case FaultSpuriousConflict:
		return "spurious-conflict"
	case FaultCrashAfter:
		return "crash-after"
	}
	return "fault?"
}

// Injected error causes (wrapped in cerrors.ErrorDatastoreError, like a failed etcd round trip).
var (
	ErrInjectedAbort   = errors.New("casstore: injected failure before the operation reached the datastore")
	ErrInjectedTimeout = errors.New("casstore: injected timeout, the reply was lost")
	ErrCrashed         = errors.New("casstore: client crashed")
)

// ErrClientCrashed is returned by every operation of a dead client.
var ErrClientCrashed error = cerrors.ErrorDatastoreError{Err: ErrCrashed}

// IsInjected reports whether err is (or wraps) one of the errors injected by this package.
func IsInjected(err error) bool {
	return errors.Is(err, ErrInjectedAbort) || errors.Is(err, ErrInjectedTimeout) || errors.Is(err, ErrCrashed)
}

// Op describes one backend operation of one client.  The PreOp hook sees it before execution;
// the PostOp hook sees it with the outcome fields set.
type Op struct {
	Seq      int64 // store-wide sequence number of the operation attempt (1,2,3,...)
	Client   *Client
	Kind     OpKind
	Key      model.Key           // nil for List/Watch
	List     model.ListInterface // set for List/Watch
	Path     string              // etcd path of Key, or the path root of List
	Revision string              // revision passed by the caller ("" if none)
	Tag      any                 // copy of Client.Tag at the time of the call (harness annotation)

	// Outcome, valid in PostOp.
	Applied   Fault // the fault that actually took effect (FaultNone if the requested one did not apply)
	Err       error // what the caller got
	Committed bool  // a write was committed by this operation
	Rev       int64 // global revision after the operation
}

// WriteKind says how a committed write changed its key.
type WriteKind int

const (
	WriteCreated WriteKind = iota
	WriteUpdated
	WriteDeleted
)

func (k WriteKind) String() string { return [...]string{"created", "updated", "deleted"}[k] }

// Write is one committed write, handed to OnCommit under the store lock.
type Write struct {
	Rev    int64 // the new global revision (= mod revision of the key unless deleted)
	Op     *Op   // the operation that committed it (Op.Client is the writer)
	Admin  bool  // written by an admin client
	Kind   WriteKind
	Path   string
	Key    model.Key
	OldRaw []byte // nil if created
	OldRev int64
	NewRaw []byte // nil if deleted
	View   View   // the store after this write; only valid during the callback
}

// Old parses the previous value (nil if the key was created).
func (w *Write) Old() any { return parseOrNil(w.Key, w.OldRaw) }

// New parses the written value (nil if the key was deleted).
func (w *Write) New() any { return parseOrNil(w.Key, w.NewRaw) }

func parseOrNil(k model.Key, raw []byte) any {
	if raw == nil {
		return nil
	}
	v, err := model.ParseValue(k, raw)
	if err != nil {
		return nil
	}
	return v
}

type entry struct {
	raw       []byte
	modRev    int64
	createRev int64
}

type event struct {
	rev    int64
	path   string
	kind   WriteKind
	oldRaw []byte
	oldRev int64
	newRaw []byte
}

// Store is the shared datastore.  Create with New.
type Store struct {
	// Hooks; see the package comment.  Set before concurrent use.
	PreOp    func(op *Op) Fault
	OnCommit func(w *Write)
	PostOp   func(op *Op)

	mu      sync.Mutex
	cond    *sync.Cond // signalled on every commit (watchers)
	rev     int64
	data    map[string]*entry
	events  []event
	clients []*Client
	opSeq   atomic.Int64
	closed  bool
}

// New returns an empty store at revision 0.
func New() *Store {
	s := &Store{data: map[string]*entry{}}
	s.cond = sync.NewCond(&s.mu)
	return s
}

// Client is a per-logical-client handle implementing backend/api.Client.
type Client struct {
	ID   int    // 0,1,2,... in creation order
	Name string // free-form label ("cni@host-a")
	// Tag is a harness annotation copied into every Op of this client (for example the logical
	// operation in progress).  Set it from the goroutine that then calls into the code under test.
	Tag any

	s     *Store
	admin bool
	dead  atomic.Bool
}

var _ bapi.Client = (*Client)(nil)

// Clone returns an independent store with the same contents and revision (values are immutable
// byte slices, so this is cheap) and no clients, hooks, watchers or event history.  Use it to
// start many runs from one prepared initial state.
func (s *Store) Clone() *Store {
	s.mu.Lock()
	defer s.mu.Unlock()
	n := New()
	n.rev = s.rev
	for p, e := range s.data {
		c := *e
		n.data[p] = &c
	}
	return n
}

// NewClient returns a new logical client of the store.
func (s *Store) NewClient(name string) *Client {
	s.mu.Lock()
	defer s.mu.Unlock()
	c := &Client{ID: len(s.clients), Name: name, s: s}
	s.clients = append(s.clients, c)
	return c
}

// NewAdminClient returns a client whose operations bypass PreOp and PostOp (for set-up and for
// the harness's own reads/writes).  Its commits still reach OnCommit, with Write.Admin set.
func (s *Store) NewAdminClient(name string) *Client {
	c := s.NewClient(name)
	c.admin = true
	return c
}

// Store returns the store this client belongs to.
func (c *Client) Store() *Store { return c.s }

// Kill marks the client dead: all later operations fail with ErrClientCrashed and do nothing.
func (c *Client) Kill() { c.dead.Store(true) }

// Dead reports whether the client has crashed / been killed.
func (c *Client) Dead() bool { return c.dead.Load() }

// Admin reports whether this is an admin client.
func (c *Client) Admin() bool { return c.admin }

func (c *Client) String() string { return fmt.Sprintf("client#%d(%s)", c.ID, c.Name) }

// begin runs the pre-operation protocol.  It returns the op, the fault to apply and whether to
// proceed at all.
func (c *Client) begin(kind OpKind, key model.Key, list model.ListInterface, path, rev string) (*Op, Fault, bool) {
	op := &Op{Seq: c.s.opSeq.Add(1), Client: c, Kind: kind, Key: key, List: list, Path: path, Revision: rev, Tag: c.Tag}
	if c.dead.Load() {
		op.Err = ErrClientCrashed
		return op, FaultNone, false
	}
	f := FaultNone
	if !c.admin && c.s.PreOp != nil {
		f = c.s.PreOp(op)
		if c.dead.Load() { // killed while parked in the hook
			op.Err = ErrClientCrashed
			c.finish(op)
			return op, FaultNone, false
		}
	}
	if f == FaultAbortBefore || (f == FaultLostReply && !kind.IsWrite()) {
		op.Applied = FaultAbortBefore
		op.Err = cerrors.ErrorDatastoreError{Err: ErrInjectedAbort, Identifier: key}
		c.finish(op)
		return op, f, false
	}
	return op, f, true
}

func (c *Client) finish(op *Op) {
	if op.Rev == 0 {
		c.s.mu.Lock()
		op.Rev = c.s.rev
		c.s.mu.Unlock()
	}
	if !c.admin && c.s.PostOp != nil {
		c.s.PostOp(op)
	}
}

// after applies the post-execution part of a fault: lost reply / crash-after replace the result.
func (c *Client) after(op *Op, f Fault, kvp *model.KVPair, err error) (*model.KVPair, error) {
	switch f {
	case FaultLostReply:
		op.Applied = FaultLostReply
		kvp, err = nil, cerrors.ErrorDatastoreError{Err: ErrInjectedTimeout, Identifier: op.Key}
	case FaultCrashAfter:
		op.Applied = FaultCrashAfter
		c.dead.Store(true)
		kvp, err = nil, ErrClientCrashed
	}
	op.Err = err
	c.finish(op)
	return kvp, err
}

// commit records a write under the lock and calls OnCommit.
func (s *Store) commit(op *Op, kind WriteKind, path string, key model.Key, old *entry, newRaw []byte) int64 {
	s.rev++
	w := &Write{Rev: s.rev, Op: op, Admin: op.Client.admin, Kind: kind, Path: path, Key: key, NewRaw: newRaw, View: View{s}}
	ev := event{rev: s.rev, path: path, kind: kind, newRaw: newRaw}
	if old != nil {
		w.OldRaw, w.OldRev = old.raw, old.modRev
		ev.oldRaw, ev.oldRev = old.raw, old.modRev
	}
	if kind == WriteDeleted {
		delete(s.data, path)
	} else {
		e := &entry{raw: newRaw, modRev: s.rev, createRev: s.rev}
		if old != nil {
			e.createRev = old.createRev
		}
		s.data[path] = e
	}
	s.events = append(s.events, ev)
	op.Committed = true
	op.Rev = s.rev
	if s.OnCommit != nil {
		s.OnCommit(w)
	}
	s.cond.Broadcast()
	return s.rev
}

func revString(r int64) string { return strconv.FormatInt(r, 10) }

func parseRevision(revs string) (int64, error) {
	rev, err := strconv.ParseInt(revs, 10, 64)
	if err != nil {
		return 0, cerrors.ErrorValidation{ErroredFields: []cerrors.ErroredField{{Name: "ResourceVersion", Value: revs}}}
	}
	return rev, nil
}

// prepForWrite / prepForReturn mirror the etcd backend: v3 BlockAffinity resources are stored as
// internalapi objects.
func prepForWrite(d *model.KVPair) {
	if value, ok := d.Value.(*apiv3.BlockAffinity); ok {
		v1Obj := internalapi.NewBlockAffinity()
		v1Obj.ObjectMeta = value.ObjectMeta
		v1Obj.Spec = internalapi.BlockAffinitySpec{
			State:   string(value.Spec.State),
			Node:    value.Spec.Node,
			Type:    value.Spec.Type,
			CIDR:    value.Spec.CIDR,
			Deleted: fmt.Sprintf("%t", value.Spec.Deleted),
		}
		d.Value = v1Obj
	}
}

func prepForReturn(d *model.KVPair) {
	if value, ok := d.Value.(*internalapi.BlockAffinity); ok {
		v3Obj := apiv3.NewBlockAffinity()
		v3Obj.ObjectMeta = value.ObjectMeta
		deleted, _ := strconv.ParseBool(value.Spec.Deleted)
		v3Obj.Spec = apiv3.BlockAffinitySpec{
			State:   apiv3.BlockAffinityState(value.Spec.State),
			Node:    value.Spec.Node,
			Type:    value.Spec.Type,
			CIDR:    value.Spec.CIDR,
			Deleted: deleted,
		}
		d.Value = v3Obj
	}
}

func toKVPair(key model.Key, e *entry) (*model.KVPair, error) {
	v, err := model.ParseValue(key, e.raw)
	if err != nil {
		return nil, cerrors.ErrorParsingDatastoreEntry{RawKey: fmt.Sprint(key), RawValue: string(e.raw), Err: err}
	}
	kvp := &model.KVPair{Key: key, Value: v, Revision: revString(e.modRev)}
	prepForReturn(kvp)
	return kvp, nil
}

func keyAndValue(d *model.KVPair) (string, []byte, error) {
	path, err := model.KeyToDefaultPath(d.Key)
	if err != nil {
		return "", nil, cerrors.ErrorDatastoreError{Err: err, Identifier: d.Key}
	}
	raw, err := model.SerializeValue(d)
	if err != nil {
		return "", nil, cerrors.ErrorDatastoreError{Err: err, Identifier: d.Key}
	}
	return path, raw, nil
}

// put is the common tail of Create/Update/Apply once the preconditions hold (lock held).
func (s *Store) put(op *Op, d *model.KVPair, path string, raw []byte, old *entry) (*model.KVPair, error) {
	kind := WriteUpdated
	if old == nil {
		kind = WriteCreated
	}
	rev := s.commit(op, kind, path, d.Key, old, raw)
	v, err := model.ParseValue(d.Key, raw)
	if err != nil {
		return nil, cerrors.ErrorPartialFailure{Err: fmt.Errorf("unexpected error parsing stored datastore entry %q: %v", raw, err)}
	}
	d.Value = v
	d.Revision = revString(rev)
	prepForReturn(d)
	return d, nil
}

// Create implements api.Client.
func (c *Client) Create(ctx context.Context, d *model.KVPair) (*model.KVPair, error) {
	keyCopy := d.Key
	prepForWrite(d)
	path, raw, err := keyAndValue(d)
	if err != nil {
		return nil, err
	}
	op, f, ok := c.begin(OpCreate, d.Key, nil, path, d.Revision)
	if !ok {
		return nil, op.Err
	}
	s := c.s
	s.mu.Lock()
	var out *model.KVPair
	if cur := s.data[path]; cur != nil {
		out, _ = toKVPair(d.Key, cur)
		err = cerrors.ErrorResourceAlreadyExists{Identifier: keyCopy}
	} else {
		out, err = s.put(op, d, path, raw, nil)
	}
	s.mu.Unlock()
	return c.after(op, f, out, err)
}

// Update implements api.Client.
func (c *Client) Update(ctx context.Context, d *model.KVPair) (*model.KVPair, error) {
	keyCopy := d.Key
	prepForWrite(d)
	path, raw, err := keyAndValue(d)
	if err != nil {
		return nil, err
	}
	rev, err := parseRevision(d.Revision)
	if err != nil {
		return nil, err
	}
	op, f, ok := c.begin(OpUpdate, d.Key, nil, path, d.Revision)
	if !ok {
		return nil, op.Err
	}
	s := c.s
	s.mu.Lock()
	var out *model.KVPair
	cur := s.data[path]
	switch {
	case cur == nil:
		err = cerrors.ErrorResourceDoesNotExist{Identifier: keyCopy}
	case f == FaultSpuriousConflict:
		op.Applied = FaultSpuriousConflict
		out, _ = toKVPair(d.Key, cur)
		err = cerrors.ErrorResourceUpdateConflict{Identifier: keyCopy}
	case cur.modRev != rev:
		out, _ = toKVPair(d.Key, cur)
		err = cerrors.ErrorResourceUpdateConflict{Identifier: keyCopy}
	default:
		out, err = s.put(op, d, path, raw, cur)
	}
	s.mu.Unlock()
	if op.Applied == FaultSpuriousConflict {
		f = FaultNone
	}
	return c.after(op, f, out, err)
}

// Apply implements api.Client (unconditional put).
func (c *Client) Apply(ctx context.Context, d *model.KVPair) (*model.KVPair, error) {
	prepForWrite(d)
	path, raw, err := keyAndValue(d)
	if err != nil {
		return nil, err
	}
	op, f, ok := c.begin(OpApply, d.Key, nil, path, d.Revision)
	if !ok {
		return nil, op.Err
	}
	s := c.s
	s.mu.Lock()
	out, err := s.put(op, d, path, raw, s.data[path])
	s.mu.Unlock()
	return c.after(op, f, out, err)
}

// DeleteKVP implements api.Client.
func (c *Client) DeleteKVP(ctx context.Context, kvp *model.KVPair) (*model.KVPair, error) {
	return c.Delete(ctx, kvp.Key, kvp.Revision)
}

// Delete implements api.Client.  On success the deleted KVPair is returned.
func (c *Client) Delete(ctx context.Context, k model.Key, revision string) (*model.KVPair, error) {
	path, err := model.KeyToDefaultDeletePath(k)
	if err != nil {
		return nil, err
	}
	var rev int64
	if revision != "" {
		if rev, err = parseRevision(revision); err != nil {
			return nil, err
		}
	}
	op, f, ok := c.begin(OpDelete, k, nil, path, revision)
	if !ok {
		return nil, op.Err
	}
	s := c.s
	s.mu.Lock()
	var out *model.KVPair
	cur := s.data[path]
	switch {
	case cur == nil:
		err = cerrors.ErrorResourceDoesNotExist{Identifier: k}
	case f == FaultSpuriousConflict && revision != "":
		op.Applied = FaultSpuriousConflict
		out, _ = toKVPair(k, cur)
		err = cerrors.ErrorResourceUpdateConflict{Identifier: k}
	case revision != "" && cur.modRev != rev:
		out, _ = toKVPair(k, cur)
		err = cerrors.ErrorResourceUpdateConflict{Identifier: k}
	default:
		out, _ = toKVPair(k, cur)
		s.commit(op, WriteDeleted, path, k, cur, nil)
		err = nil
	}
	s.mu.Unlock()
	if op.Applied == FaultSpuriousConflict {
		f = FaultNone
	}
	return c.after(op, f, out, err)
}

// Get implements api.Client.  Historical reads (revision != "") are not supported.
func (c *Client) Get(ctx context.Context, k model.Key, revision string) (*model.KVPair, error) {
	path, err := model.KeyToDefaultPath(k)
	if err != nil {
		return nil, err
	}
	if revision != "" {
		return nil, cerrors.ErrorOperationNotSupported{Identifier: k, Operation: "Get at revision"}
	}
	op, f, ok := c.begin(OpGet, k, nil, path, revision)
	if !ok {
		return nil, op.Err
	}
	s := c.s
	s.mu.Lock()
	var out *model.KVPair
	if cur := s.data[path]; cur == nil {
		err = cerrors.ErrorResourceDoesNotExist{Identifier: k}
	} else {
		out, err = toKVPair(k, cur)
	}
	op.Rev = s.rev
	s.mu.Unlock()
	return c.after(op, f, out, err)
}

// listPrefix mirrors etcdv3.calculateListKeyAndOptions: returns the key and whether it is a prefix scan.
func listPrefix(l model.ListInterface) (string, bool) {
	key := model.ListOptionsToDefaultPathRoot(l)
	if model.IsListOptionsLastSegmentPrefix(l) {
		return key, true
	}
	if !model.ListOptionsIsFullyQualified(l) {
		if !strings.HasSuffix(key, "/") {
			key += "/"
		}
		return key, true
	}
	return key, false
}

// listLocked returns the matching KVPairs sorted by path.
func (s *Store) listLocked(l model.ListInterface) []*model.KVPair {
	key, prefix := listPrefix(l)
	var paths []string
	if prefix {
		for p := range s.data {
			if strings.HasPrefix(p, key) {
				paths = append(paths, p)
			}
		}
		sort.Strings(paths)
	} else if _, ok := s.data[key]; ok {
		paths = []string{key}
	}
	out := []*model.KVPair{}
	for _, p := range paths {
		k := l.KeyFromDefaultPath(p)
		if k == nil {
			continue
		}
		kvp, err := toKVPair(k, s.data[p])
		if err != nil {
			continue
		}
		out = append(out, kvp)
	}
	if ls, ok := l.(model.LabelSelectingListInterface); ok {
		if sel := ls.GetLabelSelector(); sel != nil {
			filtered := out[:0]
			for _, kv := range out {
				if labeled, ok := kv.Value.(metav1.Object); ok && sel.Matches(labels.Set(labeled.GetLabels())) {
					filtered = append(filtered, kv)
				}
			}
			out = filtered
		}
	}
	return out
}

// List implements api.Client.  Historical reads (revision != "") are not supported.
func (c *Client) List(ctx context.Context, l model.ListInterface, revision string) (*model.KVPairList, error) {
	if revision != "" {
		return nil, cerrors.ErrorOperationNotSupported{Identifier: l, Operation: "List at revision"}
	}
	root, _ := listPrefix(l)
	op, f, ok := c.begin(OpList, nil, l, root, revision)
	if !ok {
		return nil, op.Err
	}
	s := c.s
	s.mu.Lock()
	out := &model.KVPairList{KVPairs: s.listLocked(l), Revision: revString(s.rev)}
	op.Rev = s.rev
	s.mu.Unlock()
	if _, err := c.after(op, f, nil, nil); err != nil {
		return nil, err
	}
	return out, nil
}

// EnsureInitialized implements api.Client.
func (c *Client) EnsureInitialized() error { return nil }

// Clean implements api.Client: removes everything (each key as a committed delete).
func (c *Client) Clean() error {
	s := c.s
	s.mu.Lock()
	defer s.mu.Unlock()
	paths := make([]string, 0, len(s.data))
	for p := range s.data {
		paths = append(paths, p)
	}
	sort.Strings(paths)
	for _, p := range paths {
		op := &Op{Seq: s.opSeq.Add(1), Client: c, Kind: OpDelete, Path: p, Key: model.KeyFromDefaultPath(p)}
		s.commit(op, WriteDeleted, p, op.Key, s.data[p], nil)
	}
	return nil
}

// Close implements api.Client (no-op; the store is shared).
func (c *Client) Close() error { return nil }

// ---------------------------------------------------------------------------------------------
// Watch

type watcher struct {
	s          *Store
	list       model.ListInterface
	key        string
	prefix     bool
	ch         chan bapi.WatchEvent
	ctx        context.Context
	cancel     context.CancelFunc
	terminated atomic.Bool
}

// Watch implements api.Client.  With no revision the current matching entries are sent as ADDED
// events first; then every later commit under the list's path is sent in revision order.
func (c *Client) Watch(ctx context.Context, l model.ListInterface, options bapi.WatchOptions) (bapi.WatchInterface, error) {
	var from int64
	if options.Revision != "" {
		var err error
		if from, err = strconv.ParseInt(options.Revision, 10, 64); err != nil {
			return nil, err
		}
	}
	if c.dead.Load() {
		return nil, ErrClientCrashed
	}
	w := &watcher{s: c.s, list: l, ch: make(chan bapi.WatchEvent, 100)}
	w.key, w.prefix = listPrefix(l)
	w.ctx, w.cancel = context.WithCancel(ctx)
	var initial []*model.KVPair
	c.s.mu.Lock()
	if options.Revision == "" {
		initial = c.s.listLocked(l)
		from = c.s.rev
	}
	c.s.mu.Unlock()
	go w.loop(initial, from)
	// Wake the loop when the context ends.
	go func() {
		<-w.ctx.Done()
		c.s.mu.Lock()
		c.s.cond.Broadcast()
		c.s.mu.Unlock()
	}()
	return w, nil
}

func (w *watcher) Stop()                              { w.cancel() }
func (w *watcher) ResultChan() <-chan bapi.WatchEvent { return w.ch }
func (w *watcher) HasTerminated() bool                { return w.terminated.Load() }

func (w *watcher) send(e bapi.WatchEvent) bool {
	select {
	case w.ch <- e:
		return true
	case <-w.ctx.Done():
		return false
	}
}

func (w *watcher) loop(initial []*model.KVPair, from int64) {
	defer func() {
		w.cancel()
		close(w.ch)
		w.terminated.Store(true)
	}()
	for _, kv := range initial {
		if !w.send(bapi.WatchEvent{Type: bapi.WatchAdded, New: kv}) {
			return
		}
	}
	next := 0
	for {
		w.s.mu.Lock()
		for w.ctx.Err() == nil && !w.s.closed && (next >= len(w.s.events) || w.s.events[len(w.s.events)-1].rev <= from) {
			w.s.cond.Wait()
		}
		if w.ctx.Err() != nil || w.s.closed {
			w.s.mu.Unlock()
			return
		}
		batch := append([]event(nil), w.s.events[next:]...)
		next = len(w.s.events)
		w.s.mu.Unlock()
		for _, ev := range batch {
			if ev.rev <= from {
				continue
			}
			from = ev.rev
			if w.prefix && !strings.HasPrefix(ev.path, w.key) || !w.prefix && ev.path != w.key {
				continue
			}
			k := w.list.KeyFromDefaultPath(ev.path)
			if k == nil {
				continue
			}
			out := bapi.WatchEvent{}
			switch ev.kind {
			case WriteCreated:
				out.Type = bapi.WatchAdded
			case WriteUpdated:
				out.Type = bapi.WatchModified
			case WriteDeleted:
				out.Type = bapi.WatchDeleted
			}
			if ev.newRaw != nil {
				out.New, _ = toKVPair(k, &entry{raw: ev.newRaw, modRev: ev.rev})
			}
			if ev.oldRaw != nil {
				out.Old, _ = toKVPair(k, &entry{raw: ev.oldRaw, modRev: ev.oldRev})
			}
			if !w.send(out) {
				return
			}
		}
	}
}

// Shutdown terminates all watchers of the store.
func (s *Store) Shutdown() {
	s.mu.Lock()
	s.closed = true
	s.cond.Broadcast()
	s.mu.Unlock()
}

// ---------------------------------------------------------------------------------------------
// Views, snapshots, virtual time

// View gives read access to the store contents.  A View handed to OnCommit is only valid during
// that callback (the lock is held); Store.View obtains one under the lock for any other use.
type View struct{ s *Store }

// View runs fn with the store locked.
func (s *Store) View(fn func(v View)) {
	s.mu.Lock()
	defer s.mu.Unlock()
	fn(View{s})
}

// Rev returns the current global revision.
func (s *Store) Rev() int64 {
	s.mu.Lock()
	defer s.mu.Unlock()
	return s.rev
}

// Rev returns the current global revision.
func (v View) Rev() int64 { return v.s.rev }

// Get returns a freshly parsed copy of the entry, or nil if absent.
func (v View) Get(k model.Key) *model.KVPair {
	path, err := model.KeyToDefaultPath(k)
	if err != nil {
		return nil
	}
	e := v.s.data[path]
	if e == nil {
		return nil
	}
	kvp, _ := toKVPair(k, e)
	return kvp
}

// List returns freshly parsed copies of the entries matching l, sorted by path.
func (v View) List(l model.ListInterface) []*model.KVPair { return v.s.listLocked(l) }

// Blocks returns all allocation blocks.
func (v View) Blocks() []*model.KVPair { return v.s.listLocked(model.BlockListOptions{}) }

// Affinities returns all block affinities (host and virtual types).
func (v View) Affinities() []*model.KVPair {
	out := v.s.listLocked(model.BlockAffinityListOptions{AffinityType: model.IPAMAffinityTypeHost})
	return append(out, v.s.listLocked(model.BlockAffinityListOptions{AffinityType: model.IPAMAffinityTypeVirtual})...)
}

// Handles returns all IPAM handles.
func (v View) Handles() []*model.KVPair { return v.s.listLocked(model.IPAMHandleListOptions{}) }

// Paths returns all stored paths, sorted.
func (v View) Paths() []string {
	out := make([]string, 0, len(v.s.data))
	for p := range v.s.data {
		out = append(out, p)
	}
	sort.Strings(out)
	return out
}

// Raw returns the serialised value and mod revision stored at path.
func (v View) Raw(path string) ([]byte, int64, bool) {
	e := v.s.data[path]
	if e == nil {
		return nil, 0, false
	}
	return e.raw, e.modRev, true
}

// Dump returns path -> serialised value for everything under prefix (for witnesses).
func (s *Store) Dump(prefix string) map[string]string {
	s.mu.Lock()
	defer s.mu.Unlock()
	out := map[string]string{}
	for p, e := range s.data {
		if strings.HasPrefix(p, prefix) {
			out[p] = string(e.raw)
		}
	}
	return out
}

// ShiftTimestamps moves every stored block timestamp (AllocationAttribute.ReleasedAt and
// AllocationBlock.AffinityClaimTime) back by d, without changing any revision and without
// calling hooks.  For code that compares time.Now() with these stamps this is equivalent to d of
// time passing.  Call it at a quiescent point: an operation in flight that read a block before
// the shift writes the unshifted stamps back.  Returns the number of stamps moved.
func (s *Store) ShiftTimestamps(d time.Duration) int {
	s.mu.Lock()
	defer s.mu.Unlock()
	n := 0
	for p, e := range s.data {
		k, ok := model.BlockListOptions{}.KeyFromDefaultPath(p).(model.BlockKey)
		if !ok {
			continue
		}
		v, err := model.ParseValue(k, e.raw)
		if err != nil {
			continue
		}
		b, ok := v.(*model.AllocationBlock)
		if !ok {
			continue
		}
		changed := false
		if b.AffinityClaimTime != nil {
			t := metav1.NewTime(b.AffinityClaimTime.Add(-d))
			b.AffinityClaimTime = &t
			changed = true
			n++
		}
		for i := range b.Attributes {
			if b.Attributes[i].ReleasedAt != nil {
				t := metav1.NewTime(b.Attributes[i].ReleasedAt.Add(-d))
				b.Attributes[i].ReleasedAt = &t
				changed = true
				n++
			}
		}
		if !changed {
			continue
		}
		raw, err := model.SerializeValue(&model.KVPair{Key: k, Value: b})
		if err != nil {
			continue
		}
		e.raw = raw
	}
	return n
}

// Package fakeipset is a fake of the Linux ipset facility as seen through the `ipset` command line
// tool, for driving felix/ipsets.IPSets (which talks to the kernel only by spawning `ipset list`,
// `ipset restore` and `ipset destroy`).
//
// What is modelled (and why this is the real behaviour):
//
//   - `ipset restore` reads stdin line by line and applies each line as it goes; it stops at the first
//     line the kernel refuses and exits non-zero, with every earlier line already applied (ipset(8):
//     restore is not transactional).  COMMIT is a no-op for the kernel state.
//   - create fails if the name exists (no -exist), if the type is unknown, the name is longer than 31
//     bytes or the parameters do not parse; add fails if the set is missing, the element does not
//     parse for the set's type/family/range, the element already exists (no -exist) or the set is full
//     (maxelem); del of a missing element fails unless -exist/--exist is given; swap fails unless both
//     sets exist and have the same type and family (kernel ip_set_swap: type features and family must
//     match); swap exchanges contents and header parameters, the reference counts stay with the names
//     (rules refer to a set by its slot/name, ip_set_swap exchanges the slots' contents);
//     destroy fails for a missing set and for a set with references ("in use by a kernel component").
//   - hash:net / hash:net,net mask host bits and print host-length prefixes without "/32"; /0 is refused.
//   - `ipset list -name` prints all names; `ipset list NAME` prints the usual header block and the
//     members in an arbitrary (here: PRNG-chosen, deterministic) order; a missing set gives
//     "The set with the given name does not exist" on stderr and a non-zero exit.
//   - a set whose Revision exceeds Kernel.MaxRevision cannot be listed by this user space ("version
//     skew"), but can still be swapped/destroyed.
//
// What is NOT modelled: timeouts/counters/comments/skbinfo extensions, hashsize growth, list:set, the
// netlink batching of adjacent add/del lines (it does not change which lines are applied), rename,
// concurrent writers (all commands are serialised by one mutex), exit codes other than 0/1.
//
// Faults are injected through Kernel.Fault, which is consulted at every command start, at every restore
// line and at restore end; every applied or refused mutating line is reported through Kernel.OnEvent
// (called with the kernel lock held: use the *Locked accessors from inside it).
package fakeipset

import (
	"bytes"
	"errors"
	"fmt"
	"io"
	"math/rand"
	"net/netip"
	"sort"
	"strconv"
	"strings"
	"sync"

	"github.com/projectcalico/calico/felix/ipsets"
)

// Set is one kernel IP set.
type Set struct {
	Name     string
	Type     string // "hash:ip", ... or anything for a set created by other software
	Family   string // "inet" | "inet6" ("" for bitmap:port)
	MaxElem  int
	RangeMin int
	RangeMax int
	Revision int
	Members  map[string]struct{}
}

func (s *Set) clone() *Set {
	c := *s
	c.Members = make(map[string]struct{}, len(s.Members))
	for m := range s.Members {
		c.Members[m] = struct{}{}
	}
	return &c
}

// SortedMembers returns the members in sorted order.
func (s *Set) SortedMembers() []string {
	l := make([]string, 0, len(s.Members))
	for m := range s.Members {
		l = append(l, m)
	}
	sort.Strings(l)
	return l
}

// Describe is a canonical one-line rendering (used for byte-identity comparisons).
func (s *Set) Describe() string {
	return fmt.Sprintf("%s|%s|%s|maxelem=%d|range=%d-%d|rev=%d|%s", s.Name, s.Type, s.Family, s.MaxElem,
		s.RangeMin, s.RangeMax, s.Revision, strings.Join(s.SortedMembers(), " "))
}

// FaultPoint identifies a place where a command can fail.
type FaultPoint struct {
	Cmd     string // "list-names" | "list-set" | "restore" | "destroy"
	Seq     int    // 1-based index among commands of this Cmd kind since the kernel was created
	Line    int    // restore only: 1-based line number about to be applied; 0 = process start; -1 = after the last line
	SetName string // list-set / destroy: the argument
	Text    string // restore line text
}

// Fault modes.
const (
	// FaultStart: the process cannot be started (Start / CombinedOutput returns an error, no effect).
	FaultStart = "start"
	// FaultFail: the command exits non-zero.  list: no output; destroy: set left in place;
	// restore line k: lines < k stay applied, line k and later are not applied;
	// restore Line -1: every line was applied but the exit status is still non-zero.
	FaultFail = "fail"
	// FaultFailPipe: like FaultFail for a restore line, and later writes to stdin fail (EPIPE).
	FaultFailPipe = "fail-pipe"
	// FaultTruncate: list only: the output stops half way and the exit status is non-zero.
	FaultTruncate = "truncate"
)

// Event is reported after every command / restore line.
type Event struct {
	Cmd     string // "create","add","del","swap","destroy","flush","COMMIT","list-names","list-set","restore-start","restore-end","bad-line"
	Args    []string
	Line    string
	Restore int // restore sequence number, 0 for stand-alone commands
	LineNo  int
	Applied bool   // the kernel state may have changed
	Err     string // refusal reason, "" on success
	Fault   string // injected fault mode, "" if none
}

// Kernel is the fake.
type Kernel struct {
	mu          sync.Mutex
	sets        map[string]*Set
	order       []string // creation order (slot order), what list -name prints
	refs        map[string]int
	rnd         *rand.Rand
	MaxRevision int

	// Fault, if set, is consulted at each fault point; it returns "" for no fault.
	Fault func(p FaultPoint) string
	// OnEvent, if set, is called (kernel lock held) after each event.
	OnEvent func(ev Event)

	seq      map[string]int
	Counters map[string]int64
	Log      []string // bounded command log for witnesses
}

// New returns an empty kernel; seed drives the member print order.
func New(seed int64) *Kernel {
	return &Kernel{sets: map[string]*Set{}, refs: map[string]int{}, rnd: rand.New(rand.NewSource(seed)),
		MaxRevision: 5, seq: map[string]int{}, Counters: map[string]int64{}}
}

func (k *Kernel) logf(format string, a ...any) {
	if len(k.Log) < 4000 {
		k.Log = append(k.Log, fmt.Sprintf(format, a...))
	}
}

// TailLog returns the last n log lines.
func (k *Kernel) TailLog(n int) []string {
	k.mu.Lock()
	defer k.mu.Unlock()
	return k.tailLogLocked(n)
}

// TailLogLocked is TailLog for use inside OnEvent.
func (k *Kernel) TailLogLocked(n int) []string { return k.tailLogLocked(n) }

func (k *Kernel) tailLogLocked(n int) []string {
	if len(k.Log) <= n {
		return append([]string(nil), k.Log...)
	}
	return append([]string(nil), k.Log[len(k.Log)-n:]...)
}

// ---- out-of-band access (the harness playing "other software" / the rules layer) ----

// Put creates or replaces a set out of band (no validation: other software may create anything).
func (k *Kernel) Put(s *Set) {
	k.mu.Lock()
	defer k.mu.Unlock()
	if s.Members == nil {
		s.Members = map[string]struct{}{}
	}
	if _, ok := k.sets[s.Name]; !ok {
		k.order = append(k.order, s.Name)
	}
	k.sets[s.Name] = s.clone()
	k.logf("OOB put %s", s.Describe())
}

// Remove destroys a set out of band; it refuses (returns false) when the set is referenced.
func (k *Kernel) Remove(name string) bool {
	k.mu.Lock()
	defer k.mu.Unlock()
	if _, ok := k.sets[name]; !ok || k.refs[name] > 0 {
		return false
	}
	k.removeLocked(name)
	k.logf("OOB remove %s", name)
	return true
}

func (k *Kernel) removeLocked(name string) {
	delete(k.sets, name)
	for i, n := range k.order {
		if n == name {
			k.order = append(k.order[:i:i], k.order[i+1:]...)
			break
		}
	}
}

// Get returns a copy of the set or nil.
func (k *Kernel) Get(name string) *Set {
	k.mu.Lock()
	defer k.mu.Unlock()
	return k.GetLocked(name)
}

// GetLocked is Get for use inside OnEvent.
func (k *Kernel) GetLocked(name string) *Set {
	if s, ok := k.sets[name]; ok {
		return s.clone()
	}
	return nil
}

// Names returns all set names in slot order.
func (k *Kernel) Names() []string {
	k.mu.Lock()
	defer k.mu.Unlock()
	return append([]string(nil), k.order...)
}

// NamesLocked is Names for use inside OnEvent.
func (k *Kernel) NamesLocked() []string { return append([]string(nil), k.order...) }

// SetRefs sets the number of rule references to a set name (the rules layer).
func (k *Kernel) SetRefs(name string, n int) {
	k.mu.Lock()
	defer k.mu.Unlock()
	if n <= 0 {
		delete(k.refs, name)
	} else {
		k.refs[name] = n
	}
}

// Refs returns the reference count of a name.
func (k *Kernel) Refs(name string) int {
	k.mu.Lock()
	defer k.mu.Unlock()
	return k.refs[name]
}

// RefsLocked is Refs for use inside OnEvent.
func (k *Kernel) RefsLocked(name string) int { return k.refs[name] }

// ---- element parsing ----

func parseAddr(s, family string) (netip.Addr, error) {
	a, err := netip.ParseAddr(s)
	if err != nil {
		return a, fmt.Errorf("Syntax error: cannot parse %s: resolving to %s address failed", s, family)
	}
	if a.Zone() != "" || (family == "inet") != a.Is4() {
		return a, fmt.Errorf("Syntax error: cannot parse %s: resolving to %s address failed", s, family)
	}
	return a, nil
}

func parseNet(s, family string, allowZero bool) (string, error) {
	host := 32
	if family == "inet6" {
		host = 128
	}
	addrStr, bits := s, host
	if i := strings.IndexByte(s, '/'); i >= 0 {
		addrStr = s[:i]
		n, err := strconv.Atoi(s[i+1:])
		if err != nil || n < 0 || n > host {
			return "", fmt.Errorf("Syntax error: '%s' is out of range 0-%d", s[i+1:], host)
		}
		bits = n
	}
	a, err := parseAddr(addrStr, family)
	if err != nil {
		return "", err
	}
	if bits == 0 && !allowZero {
		return "", errors.New("The value of the CIDR parameter of the IP address is invalid")
	}
	p := netip.PrefixFrom(a, bits).Masked()
	if bits == host {
		return p.Addr().String(), nil
	}
	return p.String(), nil
}

func parsePort(s string) (int, error) {
	n, err := strconv.Atoi(s)
	if err != nil || n < 0 || n > 65535 {
		return 0, fmt.Errorf("Syntax error: '%s' is invalid as number", s)
	}
	return n, nil
}

// canonElem validates elem for set s and returns the form the kernel prints.
func canonElem(s *Set, elem string) (string, error) {
	switch s.Type {
	case "hash:ip":
		if strings.Contains(elem, "/") || strings.Contains(elem, "-") {
			// hash:ip accepts ranges/CIDRs and expands them; the only one we accept is a host prefix.
			c, err := parseNet(elem, s.Family, false)
			if err != nil {
				return "", err
			}
			if strings.Contains(c, "/") {
				return "", errors.New("unsupported by the fake: range expansion in hash:ip")
			}
			return c, nil
		}
		a, err := parseAddr(elem, s.Family)
		if err != nil {
			return "", err
		}
		return a.String(), nil
	case "hash:net":
		return parseNet(elem, s.Family, false)
	case "hash:net,net":
		parts := strings.Split(elem, ",")
		if len(parts) != 2 {
			return "", errors.New("Syntax error: Second element is missing from " + elem)
		}
		a, err := parseNet(parts[0], s.Family, false)
		if err != nil {
			return "", err
		}
		b, err := parseNet(parts[1], s.Family, false)
		if err != nil {
			return "", err
		}
		return a + "," + b, nil
	case "hash:ip,port":
		parts := strings.Split(elem, ",")
		if len(parts) != 2 {
			return "", errors.New("Syntax error: Second element is missing from " + elem)
		}
		a, err := parseAddr(parts[0], s.Family)
		if err != nil {
			return "", err
		}
		proto, portStr := "tcp", parts[1]
		if i := strings.IndexByte(parts[1], ':'); i >= 0 {
			proto, portStr = strings.ToLower(parts[1][:i]), parts[1][i+1:]
		}
		switch proto {
		case "tcp", "udp", "sctp", "udplite":
		default:
			return "", fmt.Errorf("Syntax error: cannot parse '%s' as a protocol", proto)
		}
		p, err := parsePort(portStr)
		if err != nil {
			return "", err
		}
		return fmt.Sprintf("%s,%s:%d", a, proto, p), nil
	case "bitmap:port":
		p, err := parsePort(elem)
		if err != nil {
			return "", err
		}
		if p < s.RangeMin || p > s.RangeMax {
			return "", errors.New("Element is out of the range of the set")
		}
		return strconv.Itoa(p), nil
	}
	return "", fmt.Errorf("the fake cannot add to a set of type %s", s.Type)
}

var knownTypes = map[string]bool{"hash:ip": true, "hash:net": true, "hash:ip,port": true, "hash:net,net": true, "bitmap:port": true}

// ---- command application (kernel lock held) ----

func hasExist(args []string) ([]string, bool) {
	out := args[:0:0]
	ex := false
	for _, a := range args {
		if a == "-exist" || a == "--exist" || a == "-!" {
			ex = true
			continue
		}
		out = append(out, a)
	}
	return out, ex
}

// applyLocked applies one command line; it returns (mutated, error).
func (k *Kernel) applyLocked(fields []string) (string, bool, error) {
	if len(fields) == 0 {
		return "", false, nil
	}
	cmd := fields[0]
	args, exist := hasExist(fields[1:])
	switch cmd {
	case "COMMIT":
		return cmd, false, nil
	case "create", "-N", "n":
		cmd = "create"
		if len(args) < 2 {
			return cmd, false, errors.New("Missing mandatory argument to command create")
		}
		name, typ := args[0], args[1]
		if len(name) > 31 {
			return cmd, false, errors.New("Syntax error: setname '" + name + "' is longer than 31 characters")
		}
		if !knownTypes[typ] {
			return cmd, false, errors.New("Syntax error: unknown settype " + typ)
		}
		ns := &Set{Name: name, Type: typ, Family: "inet", MaxElem: 65536, Revision: 4, Members: map[string]struct{}{}}
		rangeSeen := false
		for i := 2; i < len(args); i += 2 {
			if i+1 >= len(args) {
				return cmd, false, errors.New("Missing argument to option " + args[i])
			}
			v := args[i+1]
			switch args[i] {
			case "family":
				if v != "inet" && v != "inet6" {
					return cmd, false, errors.New("Syntax error: unknown INET family " + v)
				}
				ns.Family = v
			case "maxelem":
				n, err := strconv.Atoi(v)
				if err != nil || n < 0 {
					return cmd, false, errors.New("Syntax error: '" + v + "' is invalid as number")
				}
				ns.MaxElem = n
			case "hashsize", "timeout", "bucketsize", "initval":
			case "range":
				parts := strings.Split(v, "-")
				if len(parts) != 2 {
					return cmd, false, errors.New("Syntax error: cannot parse range " + v)
				}
				a, err1 := parsePort(parts[0])
				b, err2 := parsePort(parts[1])
				if err1 != nil || err2 != nil || a > b {
					return cmd, false, errors.New("Syntax error: cannot parse range " + v)
				}
				ns.RangeMin, ns.RangeMax, rangeSeen = a, b, true
			default:
				return cmd, false, errors.New("Unknown argument: " + args[i])
			}
		}
		if typ == "bitmap:port" {
			if !rangeSeen {
				return cmd, false, errors.New("Mandatory option `range' is missing")
			}
			ns.Family, ns.MaxElem = "", 0
		} else if rangeSeen {
			return cmd, false, errors.New("Unknown argument: range")
		}
		if old, ok := k.sets[name]; ok {
			if exist && old.Type == ns.Type && old.Family == ns.Family && old.MaxElem == ns.MaxElem &&
				old.RangeMin == ns.RangeMin && old.RangeMax == ns.RangeMax {
				return cmd, false, nil
			}
			return cmd, false, errors.New("Set cannot be created: set with the same name already exists")
		}
		k.sets[name] = ns
		k.order = append(k.order, name)
		return cmd, true, nil
	case "add", "-A", "a":
		cmd = "add"
		if len(args) != 2 {
			return cmd, false, errors.New("Syntax error: add needs a set and an element")
		}
		s, ok := k.sets[args[0]]
		if !ok {
			return cmd, false, errors.New("The set with the given name does not exist")
		}
		c, err := canonElem(s, args[1])
		if err != nil {
			return cmd, false, err
		}
		if _, dup := s.Members[c]; dup {
			if exist {
				return cmd, false, nil
			}
			return cmd, false, errors.New("Element cannot be added to the set: it's already added")
		}
		if s.Type != "bitmap:port" && len(s.Members) >= s.MaxElem {
			return cmd, false, errors.New("Hash is full, cannot add more elements")
		}
		s.Members[c] = struct{}{}
		return cmd, true, nil
	case "del", "-D", "d":
		cmd = "del"
		if len(args) != 2 {
			return cmd, false, errors.New("Syntax error: del needs a set and an element")
		}
		s, ok := k.sets[args[0]]
		if !ok {
			return cmd, false, errors.New("The set with the given name does not exist")
		}
		c, err := canonElem(s, args[1])
		if err != nil {
			return cmd, false, err
		}
		if _, there := s.Members[c]; !there {
			if exist {
				return cmd, false, nil
			}
			return cmd, false, errors.New("Element cannot be deleted from the set: it's not added")
		}
		delete(s.Members, c)
		return cmd, true, nil
	case "flush", "-F", "f":
		cmd = "flush"
		if len(args) == 0 {
			for _, s := range k.sets {
				s.Members = map[string]struct{}{}
			}
			return cmd, true, nil
		}
		s, ok := k.sets[args[0]]
		if !ok {
			return cmd, false, errors.New("The set with the given name does not exist")
		}
		s.Members = map[string]struct{}{}
		return cmd, true, nil
	case "swap", "-W", "w":
		cmd = "swap"
		if len(args) != 2 {
			return cmd, false, errors.New("Syntax error: swap needs two set names")
		}
		a, ok := k.sets[args[0]]
		if !ok {
			return cmd, false, errors.New("The set with the given name does not exist")
		}
		b, ok := k.sets[args[1]]
		if !ok {
			return cmd, false, errors.New("Sets cannot be swapped: the second set does not exist")
		}
		if a.Type != b.Type || a.Family != b.Family {
			return cmd, false, errors.New("The sets cannot be swapped: their type does not match")
		}
		an, bn := a.Name, b.Name
		k.sets[an], k.sets[bn] = b, a
		a.Name, b.Name = bn, an
		return cmd, true, nil
	case "destroy", "-X", "x":
		cmd = "destroy"
		if len(args) != 1 {
			return cmd, false, errors.New("the fake refuses destroy without a set name")
		}
		if _, ok := k.sets[args[0]]; !ok {
			return cmd, false, errors.New("The set with the given name does not exist")
		}
		if k.refs[args[0]] > 0 {
			return cmd, false, errors.New("Set cannot be destroyed: it is in use by a kernel component")
		}
		k.removeLocked(args[0])
		return cmd, true, nil
	}
	return "bad-line", false, errors.New("No command specified: unknown command " + cmd)
}

func (k *Kernel) emit(ev Event) {
	k.Counters["ev:"+ev.Cmd]++
	if ev.Fault != "" {
		k.Counters["fault:"+ev.Cmd+":"+ev.Fault]++
	}
	if k.OnEvent != nil {
		k.OnEvent(ev)
	}
}

func (k *Kernel) fault(p FaultPoint) string {
	if k.Fault == nil {
		return ""
	}
	return k.Fault(p)
}

func (k *Kernel) nextSeq(kind string) int {
	k.seq[kind]++
	return k.seq[kind]
}

// listOutputLocked renders `ipset list NAME`.
func (k *Kernel) listOutputLocked(s *Set) []byte {
	var b bytes.Buffer
	fmt.Fprintf(&b, "Name: %s\nType: %s\nRevision: %d\n", s.Name, s.Type, s.Revision)
	switch {
	case s.Type == "bitmap:port":
		fmt.Fprintf(&b, "Header: range %d-%d\n", s.RangeMin, s.RangeMax)
	case strings.HasPrefix(s.Type, "hash:"):
		fmt.Fprintf(&b, "Header: family %s hashsize 1024 maxelem %d bucketsize 12 initval 0x%08x\n", s.Family, s.MaxElem, k.rnd.Uint32())
	default:
		fmt.Fprintf(&b, "Header: size 8\n")
	}
	fmt.Fprintf(&b, "Size in memory: %d\nReferences: %d\nNumber of entries: %d\nMembers:\n", 200+24*len(s.Members), k.refs[s.Name], len(s.Members))
	ms := s.SortedMembers()
	k.rnd.Shuffle(len(ms), func(i, j int) { ms[i], ms[j] = ms[j], ms[i] })
	for _, m := range ms {
		b.WriteString(m)
		b.WriteByte('\n')
	}
	return b.Bytes()
}

// ---- the command shim ----

// Cmd implements the method set of felix/ipsets.CmdIface.
type Cmd struct {
	k      *Kernel
	args   []string
	stdout io.Writer
	stderr io.Writer

	// list
	outBuf  *lazyReader
	started bool
	waitErr error

	// restore
	stdin *restoreStdin
}

var errExit1 = errors.New("exit status 1")
var errStart = errors.New("fork/exec /usr/sbin/ipset: resource temporarily unavailable")
var errEPIPE = errors.New("write |1: broken pipe")

var _ ipsets.CmdIface = (*Cmd)(nil)

// Factory is the command factory to hand to ipsets.NewIPSetsWithShims.
func (k *Kernel) Factory(name string, arg ...string) ipsets.CmdIface { return k.NewCmd(name, arg...) }

// NewCmd creates a command object.
func (k *Kernel) NewCmd(name string, arg ...string) *Cmd {
	if name != "ipset" || len(arg) == 0 {
		panic(fmt.Sprintf("fakeipset: unexpected command %s %v", name, arg))
	}
	return &Cmd{k: k, args: append([]string(nil), arg...)}
}

func (c *Cmd) SetStdin(io.Reader)    { panic("fakeipset: SetStdin is not supported") }
func (c *Cmd) SetStdout(w io.Writer) { c.stdout = w }
func (c *Cmd) SetStderr(w io.Writer) { c.stderr = w }

func (c *Cmd) errOut(msg string) {
	if c.stderr != nil {
		_, _ = c.stderr.Write([]byte("ipset v7.11: " + msg + "\n"))
	}
}

type lazyReader struct {
	c      *Cmd
	buf    *bytes.Reader
	closed bool
}

func (l *lazyReader) Read(p []byte) (int, error) {
	if l.closed {
		return 0, errors.New("read |0: file already closed")
	}
	if !l.c.started || l.buf == nil {
		return 0, io.EOF
	}
	return l.buf.Read(p)
}
func (l *lazyReader) Close() error { l.closed = true; return nil }

// StdoutPipe is used by `ipset list`.
func (c *Cmd) StdoutPipe() (io.ReadCloser, error) {
	if c.args[0] != "list" {
		return nil, errors.New("fakeipset: StdoutPipe only for list")
	}
	c.outBuf = &lazyReader{c: c}
	return c.outBuf, nil
}

// StdinPipe is used by `ipset restore`.
func (c *Cmd) StdinPipe() (ipsets.WriteCloserFlusher, error) {
	if c.args[0] != "restore" {
		return nil, errors.New("fakeipset: StdinPipe only for restore")
	}
	c.stdin = &restoreStdin{c: c}
	return c.stdin, nil
}

type restoreStdin struct {
	c       *Cmd
	pending []byte
	seq     int
	lineNo  int
	failed  bool // the process has exited with an error
	epipe   bool
	closed  bool
	exitErr error
}

func (r *restoreStdin) Write(p []byte) (int, error) {
	if r.closed {
		return 0, errors.New("write |1: file already closed")
	}
	if !r.c.started {
		// Not started yet: buffer (the pipe exists before the child does).
		r.pending = append(r.pending, p...)
		return len(p), nil
	}
	if r.failed {
		if r.epipe {
			return 0, errEPIPE
		}
		return len(p), nil // swallowed by the pipe buffer of a dead reader
	}
	r.pending = append(r.pending, p...)
	r.process()
	return len(p), nil
}

func (r *restoreStdin) Flush() error {
	if r.failed && r.epipe {
		return errEPIPE
	}
	return nil
}

func (r *restoreStdin) Close() error {
	if r.closed {
		return errors.New("close |1: file already closed")
	}
	r.closed = true
	return nil
}

// process applies all complete lines in pending.
func (r *restoreStdin) process() {
	k := r.c.k
	k.mu.Lock()
	defer k.mu.Unlock()
	for !r.failed {
		i := bytes.IndexByte(r.pending, '\n')
		if i < 0 {
			return
		}
		line := strings.TrimSpace(string(r.pending[:i]))
		r.pending = r.pending[i+1:]
		r.lineNo++
		if line == "" || strings.HasPrefix(line, "#") {
			continue
		}
		fields := strings.Fields(line)
		if mode := k.fault(FaultPoint{Cmd: "restore", Seq: r.seq, Line: r.lineNo, Text: line}); mode != "" {
			r.failed, r.epipe, r.exitErr = true, mode == FaultFailPipe, errExit1
			r.c.errOut(fmt.Sprintf("Error in line %d: Kernel error received: Cannot allocate memory", r.lineNo))
			k.logf("restore#%d line %d FAULT(%s): %s", r.seq, r.lineNo, mode, line)
			k.emit(Event{Cmd: fields[0], Args: fields[1:], Line: line, Restore: r.seq, LineNo: r.lineNo, Err: "injected", Fault: mode})
			return
		}
		cmd, applied, err := k.applyLocked(fields)
		ev := Event{Cmd: cmd, Args: fields[1:], Line: line, Restore: r.seq, LineNo: r.lineNo, Applied: applied}
		if err != nil {
			ev.Err = err.Error()
			r.failed, r.exitErr = true, errExit1
			r.c.errOut(fmt.Sprintf("Error in line %d: %s", r.lineNo, err))
			k.logf("restore#%d line %d REFUSED(%s): %s", r.seq, r.lineNo, err, line)
		} else {
			k.logf("restore#%d line %d ok: %s", r.seq, r.lineNo, line)
		}
		k.emit(ev)
	}
}

// Start starts list and restore commands.
func (c *Cmd) Start() error {
	k := c.k
	switch c.args[0] {
	case "restore":
		k.mu.Lock()
		seq := k.nextSeq("restore")
		if c.stdin != nil {
			c.stdin.seq = seq
		}
		mode := k.fault(FaultPoint{Cmd: "restore", Seq: seq, Line: 0})
		k.logf("restore#%d start fault=%q", seq, mode)
		k.emit(Event{Cmd: "restore-start", Restore: seq, Fault: mode})
		k.mu.Unlock()
		if mode != "" {
			return errStart
		}
		c.started = true
		if c.stdin != nil {
			c.stdin.process()
		}
		return nil
	case "list":
		if len(c.args) != 2 {
			panic(fmt.Sprintf("fakeipset: unsupported list form %v", c.args))
		}
		k.mu.Lock()
		defer k.mu.Unlock()
		if c.args[1] == "-name" || c.args[1] == "-n" {
			seq := k.nextSeq("list-names")
			mode := k.fault(FaultPoint{Cmd: "list-names", Seq: seq})
			k.logf("list-names#%d fault=%q", seq, mode)
			k.emit(Event{Cmd: "list-names", Fault: mode})
			if mode == FaultStart {
				return errStart
			}
			c.started = true
			var b bytes.Buffer
			for _, n := range k.order {
				b.WriteString(n)
				b.WriteByte('\n')
			}
			out := b.Bytes()
			switch mode {
			case FaultFail:
				out = nil
				c.waitErr = errExit1
				c.errOut("Kernel error received: Cannot allocate memory")
			case FaultTruncate:
				out = truncateAtLine(out, k.rnd)
				c.waitErr = errExit1
				c.errOut("Kernel error received: Interrupted system call")
			}
			if c.outBuf != nil {
				c.outBuf.buf = bytes.NewReader(out)
			}
			return nil
		}
		name := c.args[1]
		seq := k.nextSeq("list-set")
		mode := k.fault(FaultPoint{Cmd: "list-set", Seq: seq, SetName: name})
		k.logf("list-set#%d %s fault=%q", seq, name, mode)
		k.emit(Event{Cmd: "list-set", Args: []string{name}, Fault: mode})
		if mode == FaultStart {
			return errStart
		}
		c.started = true
		var out []byte
		s, ok := k.sets[name]
		switch {
		case mode == FaultFail:
			c.waitErr = errExit1
			c.errOut("Kernel error received: Cannot allocate memory")
		case !ok:
			c.waitErr = errExit1
			c.errOut("The set with the given name does not exist")
		case s.Revision > k.MaxRevision:
			c.waitErr = errExit1
			c.errOut(fmt.Sprintf("Kernel error received: set type revision %d not supported by userspace", s.Revision))
		default:
			out = k.listOutputLocked(s)
			if mode == FaultTruncate {
				out = truncateAtLine(out, k.rnd)
				c.waitErr = errExit1
				c.errOut("Kernel error received: Interrupted system call")
			}
		}
		if c.outBuf != nil {
			c.outBuf.buf = bytes.NewReader(out)
		}
		return nil
	}
	panic(fmt.Sprintf("fakeipset: Start of unsupported command %v", c.args))
}

func truncateAtLine(out []byte, rnd *rand.Rand) []byte {
	n := bytes.Count(out, []byte("\n"))
	if n == 0 {
		return nil
	}
	keep := rnd.Intn(n)
	idx := 0
	for i := 0; i < keep; i++ {
		idx += bytes.IndexByte(out[idx:], '\n') + 1
	}
	return out[:idx]
}

// Wait ends list and restore commands.
func (c *Cmd) Wait() error {
	if !c.started {
		return errors.New("exec: not started")
	}
	switch c.args[0] {
	case "list":
		return c.waitErr
	case "restore":
		r := c.stdin
		if r == nil {
			return nil
		}
		k := c.k
		k.mu.Lock()
		defer k.mu.Unlock()
		if !r.failed {
			if mode := k.fault(FaultPoint{Cmd: "restore", Seq: r.seq, Line: -1}); mode != "" {
				r.failed, r.exitErr = true, errExit1
				c.errOut("Kernel error received: Interrupted system call")
				k.logf("restore#%d FAULT after last line", r.seq)
				k.emit(Event{Cmd: "restore-end", Restore: r.seq, Err: "injected", Fault: mode})
				return r.exitErr
			}
		}
		k.logf("restore#%d end err=%v", r.seq, r.exitErr)
		k.emit(Event{Cmd: "restore-end", Restore: r.seq, Err: errString(r.exitErr)})
		return r.exitErr
	}
	return nil
}

func errString(err error) string {
	if err == nil {
		return ""
	}
	return err.Error()
}

// Output is not used by felix/ipsets.
func (c *Cmd) Output() ([]byte, error) { return nil, errors.New("fakeipset: Output is not supported") }

// CombinedOutput runs `ipset destroy NAME`.
func (c *Cmd) CombinedOutput() ([]byte, error) {
	if c.args[0] != "destroy" || len(c.args) != 2 {
		panic(fmt.Sprintf("fakeipset: CombinedOutput of unsupported command %v", c.args))
	}
	k := c.k
	k.mu.Lock()
	defer k.mu.Unlock()
	name := c.args[1]
	seq := k.nextSeq("destroy")
	mode := k.fault(FaultPoint{Cmd: "destroy", Seq: seq, SetName: name})
	if mode != "" {
		k.logf("destroy#%d %s FAULT(%s)", seq, name, mode)
		k.emit(Event{Cmd: "destroy", Args: []string{name}, Line: "destroy " + name, Err: "injected", Fault: mode})
		if mode == FaultStart {
			return nil, errStart
		}
		return []byte("ipset v7.11: Kernel error received: Device or resource busy\n"), errExit1
	}
	_, applied, err := k.applyLocked([]string{"destroy", name})
	ev := Event{Cmd: "destroy", Args: []string{name}, Line: "destroy " + name, Applied: applied}
	if err != nil {
		ev.Err = err.Error()
		k.logf("destroy#%d %s REFUSED(%s)", seq, name, err)
		k.emit(ev)
		return []byte("ipset v7.11: " + err.Error() + "\n"), errExit1
	}
	k.logf("destroy#%d %s ok", seq, name)
	k.emit(ev)
	return nil, nil
}

// SeqCounts returns how many commands of each kind have been started.
func (k *Kernel) SeqCounts() map[string]int {
	k.mu.Lock()
	defer k.mu.Unlock()
	m := map[string]int{}
	for n, v := range k.seq {
		m[n] = v
	}
	return m
}

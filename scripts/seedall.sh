#!/bin/bash
# seedall.sh [parallelism] : run every seeded change against the check of the property it breaks (final confirmation table -> seeded/RESULTS.tsv)
par=${1:-3}
cd "$(dirname "$0")/.."
mkdir -p .cache/seedall
ls -d seeded/*/ | while read d; do
  n=$(basename $d); [ -f $d/patch.diff ] && [ -f $d/meta.json ] || continue
  p=$(python3 -c "import json;print(json.load(open('$d/meta.json'))['breaks_property'])")
  extra=""; [ "$n" = "C12a" ] && extra="C11"; [ "$n" = "C04a" ] && extra="C36"; [ "$n" = "C40a" ] && extra="C10"
  echo "$n $p $extra"
done > .cache/seedall/list.txt
cat .cache/seedall/list.txt | xargs -P $par --process-slot-var=SLOT -L 1 bash -c 'n=$0; ids="$1 $2"; [ -s .cache/seedall/$n.log ] && grep -q "^== " .cache/seedall/$n.log && exit 0; SEEDWT=/tmp/seedwt-slot$SLOT SEED_LINES=40 scripts/seedrun.sh seeded/$n/patch.diff $ids > .cache/seedall/$n.log 2>&1; echo "$n done"'
: > seeded/RESULTS.tsv
for f in .cache/seedall/*.log; do n=$(basename $f .log); grep -E "^== " $f | while read _ id ex; do k=$(grep -A1 "VIOLATION property=$id " $f | grep -o "key=[^ ]*" | sort -u | head -3 | tr '\n' ' '); echo -e "$n\t$id\t$ex\t$k" >> seeded/RESULTS.tsv; done; grep -q "PATCH DOES NOT APPLY" $f && echo -e "$n\t-\tPATCH-DOES-NOT-APPLY\t" >> seeded/RESULTS.tsv; done
echo ALLDONE >> seeded/RESULTS.tsv

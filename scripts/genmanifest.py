#!/usr/bin/env python3
"""Regenerate MANIFEST.json checks / not_applicable from checks/registry.json (single source of truth)."""
import json, os
R = os.path.dirname(os.path.dirname(os.path.abspath(__file__)))
props = [json.loads(l) for l in open(os.path.join(R, "properties.jsonl"))]
import glob
reg = {}
for f in [os.path.join(R, "checks", "registry.json")] + sorted(glob.glob(os.path.join(R, "checks", "*", "registry.json"))):
    if os.path.exists(f):
        reg.update(json.load(open(f)))
m = json.load(open(os.path.join(R, "MANIFEST.json")))
checks, na = [], []
for p in props:
    i = p["id"]
    e = reg.get(i)
    if e and not e.get("disabled"):
        checks.append({
            "property_id": i,
            "quick_cmd": "./vcheck run %s --tier quick" % i,
            "thorough_cmd": "./vcheck run %s --tier thorough" % i,
            "evidence_file": "/verif/evidence/%s.json" % i,
            "replay_cmd_template": "./vcheck replay {path}",
            "engine": e.get("engine", "vcheck"),
            "level_claimed": {"category": e.get("level", "exploration"), "text": e["level_text"], "design_ref": "DESIGN.md §4 " + i},
            "level_note": e["level_note"],
            "technique": e["technique"],
        })
    else:
        na.append({"property_id": i, "reason": (e or {}).get("na_reason", "check not built yet (work in progress); no claim is made for this property")})
m["checks"] = checks
m["not_applicable"] = na
hooks = os.path.join(R, "MANIFEST.hooks")
if os.path.exists(hooks):
    m["hooks"]["source_commits"] = [l.split()[0] for l in open(hooks) if l.strip() and not l.startswith("#")]
json.dump(m, open(os.path.join(R, "MANIFEST.json"), "w"), indent=1)
print("checks:", len(checks), "not_applicable:", len(na))

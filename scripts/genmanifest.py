#!/usr/bin/env python3
"""Regenerate MANIFEST.json checks / not_applicable from checks/registry.json (single source of truth)."""
import json, os
R = os.path.dirname(os.path.dirname(os.path.abspath(__file__)))
props = [json.loads(l) for l in open(os.path.join(R, "properties.jsonl"))]
import glob
reg = {}
for f in [os.path.join(R, "checks", "registry.json")] + sorted(glob.glob(os.path.join(R, "checks", "*", "registry.json"))):
    if os.path.exists(f):
        reg.update(json.load(open(f)))
m = json.load(open(os.path.join(R, "MANIFEST.json")))
checks, na = [], []
for p in props:
    i = p["id"]
    e = reg.get(i)
    if e and not e.get("disabled"):
        checks.append({
            "property_id": i,
            "quick_cmd": "./vcheck run %s --tier quick" % i,
            "thorough_cmd": "./vcheck run %s --tier thorough" % i,
            "evidence_file": "/verif/evidence/%s.json" % i,
            "replay_cmd_template": "./vcheck replay {path}",
            "engine": e.get("engine", "vcheck"),
            "level_claimed": {"category": e.get("level", "exploration"), "text": e["level_text"], "design_ref": "DESIGN.md §4 " + i},
            "level_note": e["level_note"],
            "technique": e["technique"],
        })
    else:
        na.append({"property_id": i, "reason": (e or {}).get("na_reason", "check not built yet (work in progress); no claim is made for this property")})
ENGINES = [
 ("harness+vcheck", "internal/harness, vcheck", "all", "runner: sharded worker processes, case seeding, measured coverage, race-log parsing, known-findings matching"),
 ("refpolicy/rulegen/nfsim", "internal/refpolicy, internal/rulegen, internal/nfsim", "C08 C09 C10 C11 C12 C30 C40 C41", "reference policy semantics, rule/packet/layout generators, evaluator of rendered iptables/nft text"),
 ("calcgen/shadowdp", "internal/calcgen, internal/shadowdp", "C01 C02 C03 C05 C31", "datastore history generator + real calc-graph driver; shadow dataplane folding Felix's output stream with online ordering checks"),
 ("casstore/dsched/ipamkit", "internal/casstore, internal/dsched, internal/ipamkit", "C19 C20 C21 C22 C23 C38", "in-memory CAS datastore with fault hooks, deterministic scheduler (uniform/PCT/bounded-exhaustive), IPAM monitors + porcupine model"),
 ("fake kernels", "internal/fakeipt, internal/fakeipset, internal/fakenl", "C15 C16 C17", "iptables-save/restore, ipset and netlink route-table models with per-command fault injection"),
 ("bpfsys/bpfvm/polexec", "internal/bpfsys, internal/bpfvm, internal/polexec", "C11 C12", "raw bpf() loader/test-run in the real kernel; eBPF interpreter with stack sanitizer"),
 ("cprobe/cstub", "cprobe, cstub", "C13 C14", "C layout probe compiled with clang -target bpf; native ASan/UBSan build of conntrack_cleanup.c"),
]
m["engines"] = [{"name": n, "path": p, "serves_properties": sp.split() if sp != "all" else [c["property_id"] for c in checks], "kind_free_text": k} for n, p, sp, k in ENGINES]
m["checks"] = checks
m["not_applicable"] = na
hooks = os.path.join(R, "MANIFEST.hooks")
if os.path.exists(hooks):
    m["hooks"]["source_commits"] = [l.split()[0] for l in open(hooks) if l.strip() and not l.startswith("#")]
json.dump(m, open(os.path.join(R, "MANIFEST.json"), "w"), indent=1)
print("checks:", len(checks), "not_applicable:", len(na))

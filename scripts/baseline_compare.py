#!/usr/bin/env python3
"""baseline_compare.py <go-test-json> : compare a guard-off run of the repo's suite with BASELINE.json's stable_pass."""
import json, sys
b = json.load(open('/root/.vp/BASELINE.json'))
stable = set(b['stable_pass'])
passed, failed = set(), set()
for line in open(sys.argv[1], errors='replace'):
    line = line.strip()
    if not line.startswith('{'):
        continue
    try:
        ev = json.loads(line)
    except Exception:
        continue
    a, t = ev.get('Action'), ev.get('Test')
    if t is None or a not in ('pass', 'fail'):
        continue
    tid = ev.get('Package', '') + '::' + t
    (passed if a == 'pass' else failed).add(tid)
passed -= failed
missing = sorted(stable - passed)
print("stable_pass=%d passed_now=%d stable_not_passing=%d" % (len(stable), len(passed), len(missing)))
for m in missing[:60]:
    print("  NOT PASSING:", m, "(failed)" if m in failed else "(not run)")
sys.exit(1 if missing else 0)

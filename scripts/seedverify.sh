#!/bin/bash
# seedverify.sh <seeded-dir> <module-subdir> <pkg (relative to module, e.g. ./felix/markbits/)> <demo-file> <-run regex> [CGO_ENABLED]
# Confirms for a seeded change: compiles, the package's existing tests pass with it, the demonstration FAILS with it and PASSES without it.
set -u
d=$(realpath $1); mod=$2; pkg=$3; demo=$4; re=$5; cgo=${6:-1}
export GOFLAGS=-mod=mod GOPROXY=off CGO_ENABLED=$cgo
wt=/tmp/seedvf-$$
git -C /repo worktree add --detach $wt HEAD -q || exit 3
cd $wt/$mod
echo "## demo WITHOUT change (must pass)"; cp $d/$demo $pkg/; go test -count=1 -run "$re" $pkg 2>&1 | tail -3; a=${PIPESTATUS[0]}
rm $pkg/$demo
git -C $wt apply $d/patch.diff || { echo PATCH-FAIL; git -C /repo worktree remove --force $wt; exit 3; }
echo "## existing tests WITH change (must pass)"; go build $pkg && go test -count=1 $pkg 2>&1 | tail -3; b=${PIPESTATUS[0]}
echo "## demo WITH change (must fail)"; cp $d/$demo $pkg/; go test -count=1 -run "$re" $pkg 2>&1 | tail -6; c=${PIPESTATUS[0]}
cd /; git -C /repo worktree remove --force $wt
echo "RESULT demo_without=$a existing_with=$b demo_with=$c  (want 0 0 nonzero)"

#!/usr/bin/env python3
"""Print the prompt for an independent 'seeded change' sub-agent for one property (it gets nothing from /verif)."""
import json, sys
pid = sys.argv[1]
variant = sys.argv[2] if len(sys.argv) > 2 else "a"
for l in open('/verif/properties.jsonl'):
    p = json.loads(l)
    if p['id'] == pid:
        break
else:
    sys.exit("no such property")
rec = {k: p[k] for k in ('id', 'title', 'statement', 'quantifier', 'why_tests_cant', 'anchors')}
wt = "/tmp/rt-%s%s" % (pid, variant)
out = "/tmp/rt-%s%s-out" % (pid, variant)
print(f"""You are testing how well a semantic property of projectcalico/calico (a Go monorepo checked out at /repo) is protected against regressions. Everything you need is in this message and in the repository source. Do NOT read, list or use anything under /verif or /root/.vp, and do not modify /repo itself.

THE PROPERTY (JSON record):
{json.dumps(rec, indent=1)}

YOUR TASK: produce ONE realistic change to the calico source that BREAKS this property while (1) still compiling, and (2) still passing the repository's existing tests for every package you touch. It should look like a plausible regression (a refactoring slip, an over-eager optimisation, a lost lock/negation/refcount, an off-by-one, two sites that each look fine alone) — not sabotage that ordinary use or the existing tests would expose at once. Prefer a change that needs something SPECIFIC to manifest: a particular interleaving, a crash or fault at a particular point, a multi-step sequence of operations, an unusual-but-valid input, or two cooperating sites. Do not simply delete the feature, special-case a magic input, or touch test files.

HOW TO WORK
1. Create your own scratch worktree: `git -C /repo worktree add --detach {wt} HEAD` and work only there.
2. Environment for every shell call: `export GOFLAGS=-mod=mod GOPROXY=off` and nothing else (do NOT set GOTOOLCHAIN or GOSUMDB). No network. Cold builds of big packages take several minutes; other jobs share the 16 cores, so use generous timeouts. Packages that import felix/bpf/libbpf (felix/bpf/{{polprog,proxy,conntrack,mock,nat,ipsets,state,maps}}, felix/routetable, felix/dataplane/linux) only build with `CGO_ENABLED=0` here.
3. Read the anchored code, choose the change, make it.
3b. NEVER use `git stash` (the stash is shared by every worktree of /repo and other agents are working concurrently): to compare with the unmodified tree use `git diff > /tmp/my.patch; git apply -R /tmp/my.patch; ...; git apply /tmp/my.patch`.
4. Confirm it compiles (`go build ./<pkg>/...` and `go vet` is optional) and that the existing tests of every package you touched still pass: `go test -count=1 ./<pkg>/` (with CGO_ENABLED=0 where needed). If an existing test fails, choose a different change. (Some packages' tests need facilities missing here and fail even unmodified: check by running them on the unmodified tree too and compare.)
5. Write a DEMONSTRATION: a new Go test file (package-internal `_test.go` placed next to the code, using only the standard `testing` package or whatever that package's tests already use) or a small program, that FAILS with your change and PASSES on the unmodified tree. Run it both ways and record the commands and outputs. The demonstration must exercise the real code and show the property's statement being violated (not merely that some internal value differs).
6. Deliver into {out}/ (create it):
   - patch.diff : `git -C {wt} diff` of the source change ONLY (without the demonstration file);
   - the demonstration file(s), plus demo.md saying where to copy it and the exact command to run it;
   - notes.md : what the change is, why it breaks the property, what it needs in order to manifest (interleaving / fault / sequence / input), which existing test packages you ran and that they pass, and the demo output with and without the change.
7. Finally remove your worktree: `git -C /repo worktree remove --force {wt}`.

Your final message: a 10-line summary (the change, what it needs to manifest, evidence that existing tests pass and the demo discriminates, paths of the files in {out}/).""")

#!/usr/bin/env python3
"""Regenerate the generated parts of DESIGN.md: the findings table (from known_findings.json) and the seeded-change table (from seeded/*/meta.json)."""
import json, os, glob, re
R = os.path.dirname(os.path.dirname(os.path.abspath(__file__)))
kf = json.load(open(os.path.join(R, "known_findings.json")))["findings"]
rows = ["| Prop | Status | Key | What fails |", "|---|---|---|---|"]
seen = set()
for f in kf:
    st = "fixed " + f.get("commit", "") if f["kind"] == "fixed" else "**known**"
    what = re.sub(r"^fixed: property=\S+ \S+ ", "", f["what"]).replace("|", "\\|")
    k = (f["property"], st, what)
    if k in seen:
        continue
    seen.add(k)
    rows.append("| %s | %s | `%s` | %s |" % (f["property"], st, f["key"][:70], what))
ftab = "\n".join(rows)
srows = ["| Seeded change | Breaks | Needs to manifest | Detected by | Key |", "|---|---|---|---|---|"]
for d in sorted(glob.glob(os.path.join(R, "seeded", "*"))):
    mp = os.path.join(d, "meta.json")
    if not os.path.exists(mp):
        continue
    m = json.load(open(mp))
    srows.append("| %s | %s | %s | %s | `%s` |" % (os.path.basename(d), m["breaks_property"], m["needs_to_manifest"].replace("|", "\\|"), m["detected_by_check"], m.get("violation_key", "")))
stab = "\n".join(srows)
p = os.path.join(R, "DESIGN.md")
s = open(p).read()
def repl(tag, body, s):
    a, b = "<!-- BEGIN %s -->" % tag, "<!-- END %s -->" % tag
    if a in s:
        return s[:s.index(a) + len(a)] + "\n" + body + "\n" + s[s.index(b):]
    return s
s = repl("FINDINGS", ftab, s)
s = repl("SEEDED", stab, s)
open(p, "w").write(s)

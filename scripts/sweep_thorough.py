#!/usr/bin/env python3
"""sweep_thorough.py [parallelism] [cap_seconds] : run every check's thorough tier (seed 1), N at a time, each capped;
summary -> .cache/sweep-thorough.log"""
import json, os, subprocess, sys, threading, queue, time, re
R = os.path.dirname(os.path.dirname(os.path.abspath(__file__)))
par = int(sys.argv[1]) if len(sys.argv) > 1 else 2
cap = int(sys.argv[2]) if len(sys.argv) > 2 else 1500
ids = [c["property_id"] for c in json.load(open(os.path.join(R, "MANIFEST.json")))["checks"]]
if len(sys.argv) > 3:
    ids = sys.argv[3:]
q = queue.Queue(); [q.put(i) for i in ids]
lock = threading.Lock()
log = os.path.join(R, ".cache/sweep-thorough.log")
def worker():
    while True:
        try: i = q.get_nowait()
        except queue.Empty: return
        t0 = time.time()
        try:
            p = subprocess.run([os.path.join(R, "vcheck"), "run", i, "--tier", "thorough"], cwd=R, stdout=subprocess.PIPE, stderr=subprocess.STDOUT, text=True, timeout=cap)
            rc, out = p.returncode, p.stdout
        except subprocess.TimeoutExpired as e:
            rc, out = "TIMEOUT", (e.stdout or b"").decode(errors="replace") if isinstance(e.stdout, bytes) else (e.stdout or "")
            subprocess.run("pkill -f '.cache/bin/%s '" % i.lower(), shell=True)
        head = (re.findall(r"^C\d+ tier=.*$", out, flags=re.M) or [""])[0][:170]
        bad = "\n".join("      " + l[:200] for l in out.splitlines() if "VIOLATION" in l or "HARNESS" in l or l.strip().startswith("key="))[:1500]
        with lock:
            open(log, "a").write("%s rc=%s wall=%ds :: %s\n%s" % (i, rc, time.time() - t0, head, bad + ("\n" if bad else "")))
ts = [threading.Thread(target=worker) for _ in range(par)]
[t.start() for t in ts]; [t.join() for t in ts]
open(log, "a").write("DONE\n")

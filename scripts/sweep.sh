#!/bin/bash
# sweep.sh <seed> [tier] [ids...] : run every registered check once, sequentially; summary in .cache/sweep-<seed>-<tier>.log
seed=${1:-1}; tier=${2:-quick}; shift 2 2>/dev/null
cd "$(dirname "$0")/.."
ids="$@"; [ -z "$ids" ] && ids=$(python3 -c "
import json;m=json.load(open('MANIFEST.json'));print(' '.join(c['property_id'] for c in m['checks']))")
log=.cache/sweep-$seed-$tier.log; : > $log
for id in $ids; do
  t0=$(date +%s)
  out=$(./vcheck run $id --tier $tier --seed $seed 2>&1); rc=$?
  t1=$(date +%s)
  echo "$id rc=$rc wall=$((t1-t0))s :: $(echo "$out" | grep -E '^C[0-9]+ tier=' | head -1 | cut -c1-160)" >> $log
  [ $rc -ne 0 ] && echo "$out" | grep -E "VIOLATION|HARNESS|key=" | head -6 | sed 's/^/      /' >> $log
  echo "$out" | grep -c "^KNOWN-FINDING" | sed 's/^/      known-finding-lines=/' >> $log
done
echo DONE >> $log

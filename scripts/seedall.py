#!/usr/bin/env python3
"""seedall.py [parallelism] [names...] : run every seeded change against the check of the property it
breaks (final confirmation; results -> seeded/RESULTS.tsv). Each worker uses a fixed scratch worktree
path so that the Go build cache is reused between runs."""
import glob, json, os, re, subprocess, sys, queue, threading
R = os.path.dirname(os.path.dirname(os.path.abspath(__file__)))
par = int(sys.argv[1]) if len(sys.argv) > 1 else 3
only = sys.argv[2:]
os.makedirs(os.path.join(R, ".cache/seedall"), exist_ok=True)
extra = {"C12a": ["C11"], "C04a": ["C36"], "C40a": ["C10"], "C08a": ["C09"], "C05a": ["C01"], "C01a": ["C04"]}
jobs = []
for d in sorted(glob.glob(os.path.join(R, "seeded", "*"))):
    n = os.path.basename(d)
    if only and n not in only:
        continue
    if not (os.path.exists(d + "/patch.diff") and os.path.exists(d + "/meta.json")):
        continue
    p = json.load(open(d + "/meta.json"))["breaks_property"]
    jobs.append((n, [p] + extra.get(n, [])))
q = queue.Queue()
for j in jobs:
    q.put(j)


def worker(slot):
    while True:
        try:
            n, ids = q.get_nowait()
        except queue.Empty:
            return
        log = os.path.join(R, ".cache/seedall", n + ".log")
        if os.path.exists(log) and "== " in open(log).read() and not only:
            continue
        env = dict(os.environ, SEEDWT="/tmp/seedwt-slot%d" % slot, SEED_LINES="40")
        with open(log, "w") as f:
            subprocess.run([os.path.join(R, "scripts/seedrun.sh"), os.path.join(R, "seeded", n, "patch.diff")] + ids,
                           stdout=f, stderr=subprocess.STDOUT, env=env, cwd=R)
        print(n, "done", flush=True)


ts = [threading.Thread(target=worker, args=(i,)) for i in range(par)]
[t.start() for t in ts]
[t.join() for t in ts]
rows = []
names = [j[0] for j in jobs]
for n in names:
    lp = os.path.join(R, ".cache/seedall", n + ".log")
    if not os.path.exists(lp):
        continue
    txt = open(lp).read()
    if "PATCH DOES NOT APPLY" in txt:
        rows.append((n, "-", "PATCH-DOES-NOT-APPLY", ""))
        continue
    for m in re.finditer(r"^== (C\d+) exit=(\d+)", txt, flags=re.M):
        cid, rc = m.group(1), m.group(2)
        keys = sorted(set(re.findall(r"VIOLATION property=%s [^\n]*\n\s+key=(\S+)" % cid, txt)))[:4]
        rows.append((n, cid, "exit=" + rc, " ".join(keys)))
if not only:
    with open(os.path.join(R, "seeded/RESULTS.tsv"), "w") as f:
        f.write("# seeded change\tcheck\tresult on the tree with the change (exit=1: VIOLATION reported)\tviolation keys\n")
        for r in rows:
            f.write("\t".join(r) + "\n")
for r in rows:
    print("\t".join(r))

#!/bin/bash
# The repository's own test suite with the verif guard OFF (no -tags verif), as in /root/.vp/BASELINE.json.
export GOFLAGS=-mod=mod GOPROXY=off
unset GOTOOLCHAIN GOSUMDB
rc=0
for m in . ./api ./lib/datastructures ./lib/httpmachinery ./lib/kind ./lib/logrusr ./lib/std; do
  (cd /repo/$m && go test -json -vet=off -count=1 -timeout 25m ./...) || rc=1
done
exit $rc

#!/bin/bash
# The repository's own test suite with the verif guard OFF (no -tags verif), exactly as in /root/.vp/BASELINE.json.
# Usage: baseline_off.sh [outfile]   (go test -json stream; compare with scripts/baseline_compare.py)
export GOFLAGS=-mod=mod GOPROXY=off
unset GOTOOLCHAIN GOSUMDB
out=${1:-/dev/stdout}
mods=". ./api ./lib/datastructures ./lib/httpmachinery ./lib/kind ./lib/logrusr ./lib/std"
[ -f /w/out/gomods.txt ] && mods=$(cat /w/out/gomods.txt)
: > "$out" 2>/dev/null
for m in $mods; do
  MF=-mod=mod
  if [ -f /w/out/goenv.sh ]; then MF=$(cd /repo/$m && . /w/out/goenv.sh && gomodflag); fi
  (cd /repo/$m && go test $MF -json -vet=off -count=1 -timeout 25m ./...) >> "$out"
done
exit 0

#!/bin/bash
# seedrun.sh <patch.diff> <CHECK-ID>... : run checks against a scratch worktree of /repo with the patch applied.
# (Equivalent to applying the patch to /repo and undoing it, without disturbing other jobs that build /repo.)
set -u
patch=$(realpath $1); shift
wt=${SEEDWT:-/tmp/seedwt-$$}
git -C /repo worktree add --detach $wt HEAD -q || exit 3
if ! git -C $wt apply "$patch"; then echo "PATCH DOES NOT APPLY"; git -C /repo worktree remove --force $wt; exit 3; fi
rc=0
for id in "$@"; do
  VERIF_REPO=$wt /verif/vcheck run $id ${SEED_ARGS:-} | grep -v "run directory kept" | head -${SEED_LINES:-12}
  r=${PIPESTATUS[0]}; echo "== $id exit=$r"; [ $r -ne 0 ] && rc=$r
done
git -C /repo worktree remove --force $wt
crc=$(python3 -c "import zlib,sys;print(\"%08x\"%zlib.crc32(sys.argv[1].encode()))" $wt); rm -rf /verif/.cache/altmod/$crc /verif/.cache/bin/*-alt$crc
exit $rc

#!/usr/bin/env python3
"""seedmeta.py <dir> <property> <caught: yes|no|after-strengthening> <check-key> -- <needs text>  : write seeded/<dir>/meta.json"""
import json, sys, os
d, prop, caught, key = sys.argv[1:5]
needs = " ".join(sys.argv[6:])
m = {"breaks_property": prop, "needs_to_manifest": needs,
     "verified": {"compiles_and_existing_tests_pass_with_change": True, "demo_passes_without_change": True, "demo_fails_with_change": True,
                  "how": "scripts/seedverify.sh in a scratch worktree of /repo (go build + go test of the touched package with the change; demonstration test run with and without it)"},
     "ran": "scripts/seedrun.sh seeded/%s/patch.diff %s  (scratch worktree of /repo + patch, VERIF_REPO=<worktree> ./vcheck run %s)" % (d, prop, prop),
     "detected_by_check": caught, "violation_key": key}
json.dump(m, open(os.path.join("/verif/seeded", d, "meta.json"), "w"), indent=1)

#!/usr/bin/env python3
"""Generate /verif/go.mod and go.sum from /repo/go.mod (offline).

The harness module is /repo's module file with the module line replaced, relative replace
paths made absolute, a replace of github.com/projectcalico/calico => /repo, and exact requires
for porcupine v1.3.0 and gofail v0.2.0 (sums computed from the module cache)."""
import base64, hashlib, os, re, sys

REPO = os.environ.get("VERIF_REPO", "/repo")
OUT = os.environ.get("VERIF_MOD_OUT") or os.path.dirname(os.path.dirname(os.path.abspath(__file__)))
MODCACHE = os.environ.get("GOMODCACHE", "/root/go/pkg/mod")
EXTRA = [("github.com/anishathalye/porcupine", "v1.3.0"), ("go.etcd.io/gofail", "v0.2.0")]

def h1_gomod(path):
    data = open(path, "rb").read()
    line = "%s  go.mod\n" % hashlib.sha256(data).hexdigest()
    return "h1:" + base64.b64encode(hashlib.sha256(line.encode()).digest()).decode()

def main():
    os.makedirs(OUT, exist_ok=True)
    src = open(os.path.join(REPO, "go.mod")).read()
    src = re.sub(r"^module .*$", "module verif", src, count=1, flags=re.M)
    # drop the tool directive: the harness has no use for it
    src = re.sub(r"^tool .*\n", "", src, flags=re.M)
    src = re.sub(r"=> \./", "=> %s/" % REPO, src)
    src += "\nrequire github.com/projectcalico/calico v0.0.0\n"
    src += "replace github.com/projectcalico/calico => %s\n" % REPO
    have = src
    for mod, ver in EXTRA:
        if re.search(r"^\s*%s\s" % re.escape(mod), have, flags=re.M) is None:
            src += "require %s %s\n" % (mod, ver)
    open(os.path.join(OUT, "go.mod"), "w").write(src)
    sums = open(os.path.join(REPO, "go.sum")).read()
    for mod, ver in EXTRA:
        d = os.path.join(MODCACHE, "cache/download", mod, "@v")
        zh = open(os.path.join(d, ver + ".ziphash")).read().strip()
        mh = h1_gomod(os.path.join(d, ver + ".mod"))
        l1 = "%s %s %s\n" % (mod, ver, zh)
        l2 = "%s %s/go.mod %s\n" % (mod, ver, mh)
        if l1 not in sums: sums += l1
        if l2 not in sums: sums += l2
    open(os.path.join(OUT, "go.sum"), "w").write(sums)

if __name__ == "__main__":
    main()

#!/bin/bash
# Run once in /verif after a fresh restore, offline: generate the harness module from /repo/go.mod,
# build the gofail CLI from the module cache and pre-build every check binary (warms the Go build cache).
set -u
cd "$(dirname "$0")/.."
export GOFLAGS=-mod=mod GOPROXY=off
unset GOTOOLCHAIN GOSUMDB
python3 scripts/mkmod.py || exit 1
mkdir -p .cache/bin evidence replays
go build -o .cache/bin/gofail go.etcd.io/gofail || echo "WARN: gofail CLI did not build (delay points disabled)"
[ -x scripts/build_native.sh ] && scripts/build_native.sh
./vcheck build all || exit 1
echo setup ok

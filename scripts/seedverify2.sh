#!/bin/bash
# seedverify2.sh <name> <pkg-dir relative to /repo> <demo files, comma separated> <go test args for the demo> <CGO 0|1> <go test args for the existing tests, or SKIP>
# Confirms in a scratch worktree: builds with the change; existing tests of the package pass with it (unless SKIP: suite not runnable here);
# the demonstration passes WITHOUT the change and fails WITH it. Appends one line to seeded/VERIFIED.tsv.
n=$1; pkg=$2; demos=$3; dargs=$4; cgo=$5; eargs=$6
export GOFLAGS=-mod=mod GOPROXY=off CGO_ENABLED=$cgo
d=/verif/seeded/$n; wt=/tmp/seedvf-fixed
git -C /repo worktree remove --force $wt 2>/dev/null; git -C /repo worktree add --detach $wt HEAD -q || exit 3
cd $wt/$pkg || exit 3
for f in ${demos//,/ }; do cp $d/$f .; done
eval go test -count=1 $dargs . > /tmp/sv2-without.log 2>&1; a=$?
for f in ${demos//,/ }; do rm -f $f; done
git -C $wt apply $d/patch.diff || { echo -e "$n\tPATCH-FAIL" >> /verif/seeded/VERIFIED.tsv; exit 3; }
go build . > /tmp/sv2-build.log 2>&1; bld=$?
if [ "$eargs" = "SKIP" ]; then b=skipped; else eval go test -count=1 $eargs . > /tmp/sv2-existing.log 2>&1; b=$?; fi
for f in ${demos//,/ }; do cp $d/$f .; done
eval go test -count=1 $dargs . > /tmp/sv2-with.log 2>&1; c=$?
cd /; git -C /repo worktree remove --force $wt
echo -e "$n\tbuild_with_change=$bld\tdemo_without_change=$a\texisting_tests_with_change=$b\tdemo_with_change=$c" >> /verif/seeded/VERIFIED.tsv
